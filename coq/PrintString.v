(** PrintString.v — the leaves of the printer: the escaping of print_string_ptr (both passes),
    literals, raw values, numbers.  Each is shown to be a "token printer" for the text the
    renderer gives.  Proofs only. *)
From CJ Require Import Base Dbl Tree PrintDefs PrintLemmas.
From Coq Require Import Lia ZArith List Bool.
Import ListNotations.
Local Open Scope Z_scope.

(** ------------------------------------------------------------------ escaping: pass 1 vs the text *)
Lemma escape_len c : zlen (escape_byte c) = 1 + escape_extra c.
Proof.
  unfold escape_byte, escape_extra, ch_quote, ch_bslash.
  destruct (c =? 34); [reflexivity|]. destruct (c =? 92); [reflexivity|]. destruct (c =? 8); [reflexivity|].
  destruct (c =? 12); [reflexivity|]. destruct (c =? 10); [reflexivity|]. destruct (c =? 13); [reflexivity|].
  destruct (c =? 9); [reflexivity|]. destruct (c <? 32); reflexivity.
Qed.
Lemma escape_extra_nonneg c : 0 <= escape_extra c.
Proof.
  unfold escape_extra. destruct ((c =? ch_quote) || (c =? ch_bslash) || (c =? 8) || (c =? 12) || (c =? 10) || (c =? 13) || (c =? 9)); [lia|].
  destruct (c <? 32); lia.
Qed.
Lemma escape_extra_0 c : escape_extra c = 0 -> escape_byte c = [c].
Proof.
  unfold escape_byte, escape_extra, ch_quote, ch_bslash.
  destruct (c =? 34); [discriminate|]. destruct (c =? 92); [discriminate|]. destruct (c =? 8); [discriminate|].
  destruct (c =? 12); [discriminate|]. destruct (c =? 10); [discriminate|]. destruct (c =? 13); [discriminate|].
  destruct (c =? 9); [discriminate|]. destruct (c <? 32); [discriminate|reflexivity].
Qed.
Lemma escape_characters_nonneg s : 0 <= escape_characters s.
Proof. induction s as [|c s IH]; cbn [escape_characters]; [lia|]. pose proof (escape_extra_nonneg c). lia. Qed.
Lemma escape_body_len s : zlen (escape_body s) = zlen s + escape_characters s.
Proof.
  induction s as [|c s IH]; [reflexivity|]. unfold escape_body in *. cbn [flat_map escape_characters].
  rewrite zlen_app, zlen_cons, IH, escape_len. lia.
Qed.
Lemma escape_chars_0 s : escape_characters s = 0 -> escape_body s = s.
Proof.
  induction s as [|c s IH]; [reflexivity|]. cbn [escape_characters]. intros H.
  pose proof (escape_extra_nonneg c). pose proof (escape_characters_nonneg s).
  unfold escape_body in *. cbn [flat_map]. rewrite escape_extra_0 by lia. rewrite IH by lia. reflexivity.
Qed.

Lemma hex_digit_nz v : 0 <= v < 16 -> hex_digit v <> 0.
Proof. intros H. unfold hex_digit. destruct (Z.ltb_spec v 10); lia. Qed.
Lemma escape_byte_nz c : c <> 0 -> nz (escape_byte c).
Proof.
  intros Hc. unfold escape_byte, ch_quote, ch_bslash.
  destruct (c =? 34); [repeat constructor; lia|]. destruct (c =? 92); [repeat constructor; lia|].
  destruct (c =? 8); [repeat constructor; lia|]. destruct (c =? 12); [repeat constructor; lia|].
  destruct (c =? 10); [repeat constructor; lia|]. destruct (c =? 13); [repeat constructor; lia|].
  destruct (c =? 9); [repeat constructor; lia|].
  destruct (c <? 32).
  - repeat constructor; try lia; apply hex_digit_nz; apply Z.mod_pos_bound; lia.
  - repeat constructor; assumption.
Qed.
Lemma escape_body_nz s : nz s -> nz (escape_body s).
Proof.
  induction 1 as [|c s Hc Hs IH]; [constructor|]. unfold escape_body in *. cbn [flat_map].
  apply nz_app; [apply escape_byte_nz; assumption|assumption].
Qed.
Lemma render_string_nz s : nz (render_string s).
Proof.
  destruct s as [s|]; cbn [render_string]; unfold ch_quote.
  - constructor; [lia|]. apply nz_app; [apply escape_body_nz, cstr_nz|repeat constructor; lia].
  - repeat constructor; lia.
Qed.

(** ------------------------------------------------------------------ escaping: pass 2 *)
Lemma wrz_push (A rest : bytes) (v i : Z) :
  i = zlen A -> 1 <= zlen rest ->
  exists rest0, wrz (A ++ rest) i v = Ok ((A ++ [v]) ++ rest0) /\ zlen rest0 = zlen rest - 1.
Proof.
  intros -> H. destruct rest as [|x rest0]; [rewrite zlen_nil in H; lia|].
  exists rest0. rewrite wrz_app. split; [rewrite <- app_assoc; reflexivity|]. rewrite zlen_cons. lia.
Qed.

Lemma plain_byte c : (31 <? c) && negb (c =? ch_quote) && negb (c =? ch_bslash) = true -> escape_byte c = [c].
Proof.
  intros H. apply andb_true_iff in H as (H & H3). apply andb_true_iff in H as (H1 & H2).
  apply Z.ltb_lt in H1. apply negb_true_iff in H2, H3. unfold escape_byte. rewrite H2, H3.
  destruct (Z.eqb_spec c 8); [lia|]. destruct (Z.eqb_spec c 12); [lia|]. destruct (Z.eqb_spec c 10); [lia|].
  destruct (Z.eqb_spec c 13); [lia|]. destruct (Z.eqb_spec c 9); [lia|]. destruct (Z.ltb_spec c 32); [lia|reflexivity].
Qed.

Lemma short_step (A rest : bytes) (e : Z) (r B : bytes) :
  2 <= zlen rest ->
  (forall A' rest', zlen rest' = zlen rest - 2 ->
     exists rest'', copy_escaped (A' ++ rest') (zlen A') r = Ok (A' ++ B ++ rest'', zlen A' + zlen B) /\ zlen rest'' = zlen rest' - zlen B) ->
  exists rest'',
    (buf1 <- wrz (A ++ rest) (zlen A) ch_bslash ;; buf2 <- wrz buf1 (zlen A + 1) e ;; copy_escaped buf2 (zlen A + 1 + 1) r)
    = Ok (A ++ ([ch_bslash; e] ++ B) ++ rest'', zlen A + zlen ([ch_bslash; e] ++ B)) /\
    zlen rest'' = zlen rest - zlen ([ch_bslash; e] ++ B).
Proof.
  intros H IH.
  destruct (wrz_push A rest ch_bslash (zlen A) eq_refl ltac:(lia)) as (r0 & E0 & L0). rewrite E0. cbn [bind].
  destruct (wrz_push (A ++ [ch_bslash]) r0 e (zlen A + 1)) as (r1 & E1 & L1).
  { rewrite zlen_app, zlen_cons, zlen_nil. lia. } { lia. }
  rewrite E1. cbn [bind].
  destruct (IH ((A ++ [ch_bslash]) ++ [e]) r1 ltac:(lia)) as (r2 & E2 & L2).
  replace (zlen A + 1 + 1) with (zlen ((A ++ [ch_bslash]) ++ [e])) by (rewrite !zlen_app, !zlen_cons, zlen_nil; lia).
  rewrite E2. exists r2. split.
  - f_equal. f_equal; [rewrite <- !app_assoc; reflexivity|rewrite !zlen_app, !zlen_cons, zlen_nil; lia].
  - rewrite zlen_app, !zlen_cons, zlen_nil. lia.
Qed.

Lemma copy_escaped_spec (s : bytes) : forall A rest,
  zlen (escape_body s) + 1 <= zlen rest ->
  exists rest', copy_escaped (A ++ rest) (zlen A) s = Ok (A ++ escape_body s ++ rest', zlen A + zlen (escape_body s)) /\
                zlen rest' = zlen rest - zlen (escape_body s).
Proof.
  induction s as [|c r IH]; intros A rest H.
  - exists rest. cbn. rewrite zlen_nil. split; [f_equal; f_equal; lia|lia].
  - unfold escape_body in H |- *. cbn [flat_map] in H |- *. fold (escape_body r) in H |- *.
    rewrite zlen_app in H. pose proof (zlen_nonneg (escape_body r)) as Hr.
    cbn [copy_escaped].
    destruct ((31 <? c) && negb (c =? ch_quote) && negb (c =? ch_bslash)) eqn:Plain.
    + rewrite (plain_byte c Plain) in H |- *. rewrite zlen_cons, zlen_nil in H.
      destruct (wrz_push A rest c (zlen A) eq_refl ltac:(lia)) as (r0 & E0 & L0). rewrite E0. cbn [bind].
      destruct (IH (A ++ [c]) r0 ltac:(lia)) as (r1 & E1 & L1).
      replace (zlen A + 1) with (zlen (A ++ [c])) by (rewrite zlen_app, zlen_cons, zlen_nil; lia).
      rewrite E1. exists r1. split.
      * f_equal. f_equal; [rewrite <- !app_assoc; reflexivity|rewrite !zlen_app, !zlen_cons, zlen_nil; lia].
      * rewrite zlen_app, zlen_cons, zlen_nil. lia.
    + pose proof (escape_len c) as EL. pose proof (escape_extra_nonneg c) as EN.
      assert (Hstep : forall e, escape_byte c = [ch_bslash; e] ->
                exists rest'',
                  (buf1 <- wrz (A ++ rest) (zlen A) ch_bslash ;; buf2 <- wrz buf1 (zlen A + 1) e ;; copy_escaped buf2 (zlen A + 1 + 1) r)
                  = Ok (A ++ (escape_byte c ++ escape_body r) ++ rest'', zlen A + zlen (escape_byte c ++ escape_body r)) /\
                  zlen rest'' = zlen rest - zlen (escape_byte c ++ escape_body r)).
      { intros e He. rewrite He in *. apply short_step.
        - rewrite !zlen_cons, zlen_nil in H. lia.
        - intros A' rest' L. apply IH. rewrite !zlen_cons, zlen_nil in H. lia. }
      unfold ch_bslash, ch_quote in *.
      destruct (Z.eqb_spec c 92) as [->|N1]; [apply Hstep; reflexivity|].
      destruct (Z.eqb_spec c 34) as [->|N2]; [apply Hstep; reflexivity|].
      destruct (Z.eqb_spec c 8) as [->|N3]; [apply Hstep; reflexivity|].
      destruct (Z.eqb_spec c 12) as [->|N4]; [apply Hstep; reflexivity|].
      destruct (Z.eqb_spec c 10) as [->|N5]; [apply Hstep; reflexivity|].
      destruct (Z.eqb_spec c 13) as [->|N6]; [apply Hstep; reflexivity|].
      destruct (Z.eqb_spec c 9) as [->|N7]; [apply Hstep; reflexivity|].
      clear Hstep.
      (* \u00xx *)
      assert (Hc : c < 32).
      { destruct (Z.ltb_spec 31 c) as [h|h]; [|lia]. cbn [andb] in Plain.
        destruct (Z.eqb_spec c 34); [lia|]. destruct (Z.eqb_spec c 92); [lia|]. discriminate. }
      assert (Eb : escape_byte c = [92; 117; 48; 48; hex_digit ((c / 16) mod 16); hex_digit (c mod 16)]).
      { unfold escape_byte, ch_quote, ch_bslash.
        destruct (Z.eqb_spec c 34); [lia|]. destruct (Z.eqb_spec c 92); [lia|]. destruct (Z.eqb_spec c 8); [lia|].
        destruct (Z.eqb_spec c 12); [lia|]. destruct (Z.eqb_spec c 10); [lia|]. destruct (Z.eqb_spec c 13); [lia|].
        destruct (Z.eqb_spec c 9); [lia|]. destruct (Z.ltb_spec c 32); [reflexivity|lia]. }
      rewrite Eb in *. rewrite !zlen_cons, zlen_nil in H.
      set (h1 := hex_digit ((c / 16) mod 16)) in *. set (h2 := hex_digit (c mod 16)) in *.
      destruct (wrz_push A rest 92 (zlen A) eq_refl ltac:(lia)) as (r0 & E0 & L0). rewrite E0. cbn [bind].
      destruct (wr_bytes_app [117; 48; 48; h1; h2; 0] (A ++ [92]) r0) as (r1 & E1 & L1).
      { rewrite !zlen_cons, zlen_nil. lia. }
      replace (zlen A + 1) with (zlen (A ++ [92])) by (rewrite zlen_app, zlen_cons, zlen_nil; lia).
      rewrite E1. cbn [bind]. rewrite !zlen_cons, zlen_nil in L1.
      destruct (IH (A ++ [92; 117; 48; 48; h1; h2]) (0 :: r1)) as (r2 & E2 & L2).
      { rewrite zlen_cons. lia. }
      replace (zlen (A ++ [92]) + 4 + 1) with (zlen (A ++ [92; 117; 48; 48; h1; h2])) by (rewrite !zlen_app, !zlen_cons, zlen_nil; lia).
      replace ((A ++ [92]) ++ [117; 48; 48; h1; h2; 0] ++ r1) with ((A ++ [92; 117; 48; 48; h1; h2]) ++ 0 :: r1)
        by (rewrite <- !app_assoc; reflexivity).
      rewrite E2. exists r2. split.
      * f_equal. f_equal; [rewrite <- !app_assoc; reflexivity|rewrite !zlen_app, !zlen_cons, zlen_nil; lia].
      * rewrite zlen_cons in L2. rewrite zlen_app, !zlen_cons, zlen_nil. lia.
Qed.

(** ------------------------------------------------------------------ token printers *)
Section Tokens.
  Variable oracle : nat -> bool.
  Variable junk : nat -> Z.
  Notation printbuffer := PrintDefs.printbuffer.
  Notation text_at := PrintLemmas.text_at.
  Notation done := PrintLemmas.done.
  Notation room := (PrintLemmas.room oracle).
  Notation ensure := (PrintDefs.ensure oracle junk).

  (** the common shape of every fixed token: ensure(k), then at most k bytes through the pointer *)
  Lemma write_token (p : printbuffer) (T l : bytes) (k : Z) :
    text_at p T -> 0 <= k -> zlen l <= k ->
    exists ok p1, ensure p k = Ok (ok, p1) /\ frame p p1 /\ (room p (zlen T + k + 1) -> ok = true) /\
      (ok = true -> pb_depth p1 = pb_depth p /\
         exists p2, put p1 0 l = Ok p2 /\ frame p p2 /\ grown p p2 /\ pb_depth p2 = pb_depth p /\ pb_offset p2 = zlen T /\
                    zlen T + k + 1 <= pb_length p2 /\
                    (forall a b, l = a ++ b -> text_at (set_offset p2 (pb_offset p2 + zlen a)) (T ++ a)) /\
                    (forall a, l = a ++ [0] -> done p2 T a)).
  Proof.
    intros HT Hk Hl.
    destruct (ensure_spec oracle junk p T k HT Hk) as (ok1 & p1 & E1 & F1 & S1 & C1).
    exists ok1, p1. split; [exact E1|]. split; [exact F1|]. split; [exact C1|].
    intros ->. destruct (S1 eq_refl) as ((rest1 & B1 & O1 & _) & Len1 & D1 & G1).
    split; [exact D1|].
    assert (HR1 : k + 1 <= zlen rest1) by (destruct B1 as (_ & B1); lia).
    destruct (put_spec p1 T rest1 l 0 B1 ltac:(lia) ltac:(lia)) as (rest2 & p2 & E2 & P2 & B2 & Fp2).
    exists p2. split; [exact E2|].
    assert (L2 : zlen rest2 = zlen rest1 - zlen l).
    { destruct B1 as (_ & B1). destruct B2 as (_ & B2). subst p2. cbn in B2. rewrite zlen_app in B2. lia. }
    split; [eapply frame_trans; [exact F1|exact Fp2]|]. split; [subst p2; exact G1|]. split; [subst p2; exact D1|]. split; [subst p2; exact O1|].
    split; [subst p2; cbn; lia|].
    destruct B2 as (B2a & B2b). split.
    - intros a b ->. exists (b ++ rest2). split; [split|split].
      + cbn. rewrite B2a. f_equal. norm_list. reflexivity.
      + cbn. rewrite !zlen_app in *. lia.
      + cbn. subst p2. cbn. rewrite O1, zlen_app. reflexivity.
      + rewrite !zlen_app in *. pose proof (zlen_nonneg b). lia.
    - intros a ->. exists rest2. split; [split|].
      + rewrite B2a. f_equal. norm_list. reflexivity.
      + rewrite !zlen_app, zlen_cons, zlen_nil in *. lia.
      + subst p2. cbn. rewrite O1. pose proof (zlen_nonneg a). lia.
  Qed.

  (** [f] prints exactly [txt] (and a terminator), or fails for lack of room only *)
  Definition prints (f : printbuffer -> res (bool * printbuffer)) (txt : bytes) : Prop :=
    forall p T, text_at p T ->
    exists ok p', f p = Ok (ok, p') /\ frame p p' /\
      (ok = true -> done p' T txt /\ pb_depth p' = pb_depth p /\ zlen T + zlen txt + 2 <= pb_length p' /\ grown p p') /\
      (room p (zlen T + zlen txt + 2) -> ok = true).

  Lemma set_offset_same (p : printbuffer) : set_offset p (pb_offset p + 0) = p.
  Proof. destruct p. unfold set_offset. cbn. f_equal. lia. Qed.

  (** ensure(|l| + 1), then the bytes of [l] and a terminator, then the cursor advanced by [adv] *)
  Lemma ensure_put_prints (l : bytes) (k adv : Z) :
    k = zlen l + 1 -> 0 <= adv <= zlen l ->
    prints (fun p => '(ok, p1) <- ensure p k ;;
                     if negb ok then Ok (false, p1)
                     else p2 <- put p1 0 (l ++ [0]) ;; Ok (true, set_offset p2 (pb_offset p2 + adv))) l.
  Proof.
    intros -> Hadv p T HT. pose proof (zlen_nonneg l) as Hl.
    destruct (ensure_spec oracle junk p T (zlen l + 1) HT ltac:(lia)) as (ok1 & p1 & E1 & F1 & S1 & C1).
    rewrite E1. cbn [bind]. destruct ok1; cbn [negb].
    2: { exists false, p1. split; [reflexivity|]. split; [exact F1|]. split; [discriminate|].
         intros R. apply C1. eapply room_mono; [exact R|lia]. }
    destruct (S1 eq_refl) as ((rest1 & B1 & O1 & _) & Len1 & D1 & G1).
    destruct (put_spec p1 T rest1 (l ++ [0]) 0 B1 ltac:(lia)) as (rest2 & p2 & E2 & P2 & B2 & Fp2).
    { destruct B1 as (_ & B1). rewrite zlen_app, zlen_cons, zlen_nil. lia. }
    rewrite E2. cbn [bind].
    eexists true, _. split; [reflexivity|].
    split; [eapply frame_trans; [exact F1|]; eapply frame_trans; [exact Fp2|apply frame_set_offset]|].
    subst p2. split; [|reflexivity]. intros _.
    split; [|split; [exact D1|split; [cbn; lia|exact G1]]].
    exists rest2. split.
    - destruct B2 as (B2a & B2b). split; [cbn in *; rewrite B2a, <- !app_assoc; reflexivity|].
      cbn in *. rewrite !zlen_app, !zlen_cons, zlen_nil in *. lia.
    - cbn. lia.
  Qed.

  Lemma print_literal_prints (lit : bytes) (k : Z) :
    k = zlen lit + 1 -> prints (fun p => print_literal oracle junk p k lit) lit.
  Proof.
    intros Hk p T HT. pose proof (zlen_nonneg lit).
    destruct (ensure_put_prints lit k 0 Hk ltac:(lia) p T HT) as (ok & p' & E & R).
    exists ok, p'. split; [|exact R]. rewrite <- E. unfold print_literal.
    destruct (ensure p k) as [[ok1 p1]| |]; cbn [bind]; try reflexivity.
    destruct ok1; cbn [negb]; [|reflexivity].
    destruct (put p1 0 (lit ++ [0])) as [p2| |]; cbn [bind]; try reflexivity. rewrite set_offset_same. reflexivity.
  Qed.

  (** print_string_ptr *)
  Lemma print_string_ptr_prints (s : option bytes) :
    prints (print_string_ptr oracle junk s) (render_string s).
  Proof.
    destruct s as [s0|].
    2: { (* NULL: the empty string *)
      intros p T HT.
      destruct (ensure_put_prints [ch_quote; ch_quote] 3 0 eq_refl ltac:(unfold zlen; cbn; lia) p T HT) as (ok & p' & E & R).
      exists ok, p'. split; [|exact R]. rewrite <- E. unfold print_string_ptr.
      destruct (ensure p 3) as [[ok1 p1]| |]; cbn [bind]; try reflexivity.
      destruct ok1; cbn [negb]; [|reflexivity].
      change ([ch_quote; ch_quote] ++ [0]) with [ch_quote; ch_quote; 0].
      destruct (put p1 0 [ch_quote; ch_quote; 0]) as [p2| |]; cbn [bind]; try reflexivity. rewrite set_offset_same. reflexivity. }
    intros p T HT. unfold print_string_ptr. cbn [render_string].
    set (s := cstr s0). set (body := escape_body s).
    pose proof (escape_body_len s) as BL. fold body in BL.
    pose proof (zlen_nonneg s) as Hs. pose proof (escape_characters_nonneg s) as He.
    rewrite <- BL.
    assert (Htxt : zlen (ch_quote :: body ++ [ch_quote]) = zlen body + 2) by (rewrite zlen_cons, zlen_app, zlen_cons, zlen_nil; lia).
    destruct (ensure_spec oracle junk p T (zlen body + 3) HT ltac:(lia)) as (ok1 & p1 & E1 & F1 & S1 & C1).
    rewrite E1. cbn [bind]. destruct ok1; cbn [negb].
    2: { exists false, p1. split; [reflexivity|]. split; [exact F1|]. split; [discriminate|].
         intros R. apply C1. eapply room_mono; [exact R|lia]. }
    destruct (S1 eq_refl) as ((rest1 & B1 & O1 & _) & Len1 & D1 & G1).
    assert (HR1 : zlen body + 4 <= zlen rest1) by (destruct B1 as (_ & B1); lia).
    (* the opening quote *)
    destruct (put_spec p1 T rest1 [ch_quote] 0 B1 ltac:(lia)) as (rest2 & p2 & E2 & P2 & B2 & Fp2).
    { rewrite zlen_cons, zlen_nil. lia. }
    assert (HR2 : zlen rest2 = zlen rest1 - 1).
    { destruct B1 as (_ & B1). destruct B2 as (_ & B2). subst p2. cbn in B2. rewrite zlen_app, zlen_cons, zlen_nil in B2. lia. }
    assert (O2 : pb_offset p2 = zlen T) by (subst p2; exact O1).
    assert (Hfin : forall p3 rest3, buf_is p3 ((T ++ [ch_quote]) ++ body) rest3 -> zlen rest3 = zlen rest2 - zlen body ->
              pb_offset p3 = zlen T -> pb_length p3 = pb_length p1 -> pb_depth p3 = pb_depth p1 ->
              frame p1 p3 -> grown p1 p3 ->
              exists ok p', (p4 <- put p3 (zlen body + 1) [ch_quote] ;; p5 <- put p4 (zlen body + 2) [0] ;; Ok (true, p5)) = Ok (ok, p') /\
                frame p p' /\
                (ok = true -> done p' T (ch_quote :: body ++ [ch_quote]) /\ pb_depth p' = pb_depth p /\
                              zlen T + zlen (ch_quote :: body ++ [ch_quote]) + 2 <= pb_length p' /\ grown p p') /\
                (room p (zlen T + zlen (ch_quote :: body ++ [ch_quote]) + 2) -> ok = true)).
    { intros p3 rest3 B3 L3 O3 Ln3 D3 F3 G3.
      destruct (put_spec p3 _ rest3 [ch_quote] (zlen body + 1) B3) as (rest4 & p4 & E4 & P4 & B4 & Fp4).
      { rewrite !zlen_app, zlen_cons, zlen_nil. lia. } { rewrite zlen_cons, zlen_nil. lia. }
      rewrite E4. cbn [bind].
      assert (L4 : zlen rest4 = zlen rest3 - 1).
      { destruct B3 as (_ & B3). destruct B4 as (_ & B4). subst p4. cbn in B4. rewrite !zlen_app, !zlen_cons, !zlen_nil in *. lia. }
      destruct (put_spec p4 _ rest4 [0] (zlen body + 2) B4) as (rest5 & p5 & E5 & P5 & B5 & Fp5).
      { subst p4. cbn. rewrite !zlen_app, !zlen_cons, zlen_nil. lia. } { rewrite zlen_cons, zlen_nil. lia. }
      rewrite E5. cbn [bind].
      eexists true, p5. split; [reflexivity|].
      assert (F5 : frame p p5).
      { eapply frame_trans; [exact F1|]. eapply frame_trans; [exact F3|]. eapply frame_trans; [exact Fp4|exact Fp5]. }
      split; [exact F5|]. split; [|reflexivity]. intros _.
      split; [|split; [subst p5 p4; cbn; congruence|split; [subst p5 p4; cbn; lia|]]].
      - exists rest5. destruct B5 as (B5a & B5b). split; [split|].
        + rewrite B5a. norm_list. reflexivity.
        + rewrite !zlen_app, !zlen_cons, !zlen_nil in *. lia.
        + subst p5 p4. cbn. lia.
      - subst p5 p4. eapply grown_trans; [exact F1|exact G1|]. destruct G3 as (g1 & g2). split; [cbn; lia|]. cbn. exact g2. }
    destruct (Z.eqb_spec (escape_characters s) 0) as [Ez|Enz].
    - (* nothing to escape: memcpy *)
      assert (Hbody : body = s) by (apply escape_chars_0; exact Ez).
      rewrite E2. cbn [bind].
      replace (firstn (Z.to_nat (zlen body)) s) with body.
      2: { rewrite Hbody. symmetry. apply firstn_all2. unfold zlen. lia. }
      destruct (put_spec p2 (T ++ [ch_quote]) rest2 body 1 B2) as (rest3 & p3 & E3 & P3 & B3 & Fp3).
      { rewrite zlen_app, zlen_cons, zlen_nil. lia. } { lia. }
      rewrite E3. cbn [bind].
      apply (Hfin p3 rest3 B3).
      + destruct B2 as (_ & B2). destruct B3 as (_ & B3). subst p3 p2. cbn in *. rewrite !zlen_app, !zlen_cons, !zlen_nil in *. lia.
      + subst p3 p2. exact O1.
      + subst p3 p2. reflexivity.
      + subst p3 p2. reflexivity.
      + eapply frame_trans; [exact Fp2|exact Fp3].
      + subst p3 p2. split; [cbn; lia|]. intros _. repeat split.
    - (* the copy loop *)
      rewrite E2. cbn [bind].
      destruct B2 as (B2a & B2b). rewrite B2a.
      destruct (copy_escaped_spec s (T ++ [ch_quote]) rest2) as (rest3 & E3 & L3).
      { fold body. lia. }
      replace (pb_offset p2 + 1) with (zlen (T ++ [ch_quote])) by (rewrite zlen_app, zlen_cons, zlen_nil; lia).
      rewrite E3. cbn [bind]. fold body in E3, L3 |- *.
      apply (Hfin (set_buf p2 (Some ((T ++ [ch_quote]) ++ body ++ rest3))) rest3).
      + split; [cbn; rewrite <- !app_assoc; reflexivity|]. cbn. subst p2. cbn in *. rewrite !zlen_app, !zlen_cons, !zlen_nil in *. lia.
      + exact L3.
      + cbn. exact O2.
      + subst p2. reflexivity.
      + subst p2. reflexivity.
      + eapply frame_trans; [exact Fp2|].
        split; [reflexivity|]. split; [reflexivity|]. split; [reflexivity|]. intros _.
        split; [reflexivity|]. split; [reflexivity|]. unfold blen. cbn [pb_buf set_buf]. rewrite B2a, !zlen_app. lia.
      + subst p2. split; [cbn; lia|]. intros _. repeat split.
  Qed.
End Tokens.
