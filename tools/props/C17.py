"""C17 — a generated patch transforms its source into its target."""
import sys
sys.setrecursionlimit(30000)
import random, copy
from .common import *
from . import patchgen as G

AREA = 'patch'
MODEL_FILES = ('PatchDefs.v (create_patches, compose_patch, sort_list / sort_object, cJSON_Duplicate, cJSONUtils_GeneratePatches[CaseSensitive], apply_patch), '
               'PointerDefs.v (encode_string_as_pointer, print_lu), Rfc6902.v (eval, ops_of, doc_eqb)')
RULE = ('pairs (from, to) over keys {"", "/", "~", "~0", "~1", "a/b", "m~n", "0", "01", "a", "A", "foo", "Foo"} (distinct per object): a tree and a few random edits of it, '
        'an equal tree with permuted members, independent trees, scalars of every type, numbers within/without tolerance; both case modes; '
        'verdict (case-sensitive): the generated patch, applied by an independent python RFC 6902 evaluator and by the library to a copy of from, yields to; it is empty iff from equals to; '
        'both inputs are value-equal to what they were, healthy (one append, print, reparse) and the ledger grew by exactly the patch; non-trivial = distinct pair with from != to')
ASSUMPTIONS = ['C locale', 'hand-written value-level transliteration (Tier B) validated by this differential run; Tier A (chain surgery of sort_list) presupposed healthy and checked by the structural walk',
               'documents have distinct keys per object and no NaN; claims for case-sensitive generation', 'allocation failures are not part of this property']

def corpus(ctx): return load_corpus(ctx['verif'], 'C17')

def case(cs, a, b, tags):
    return Case('genpatch %d %s %s' % (cs, ' '.join(value_tokens(a)), ' '.join(value_tokens(b))), {'tags': tags + (['cs'] if cs else ['ci']), 'from': a, 'to': b, 'cs': cs})

FIXED = [(Obj([('b', 1), ('a', 2)]), Obj([('b', 1), ('a', 2), ('c', 3)])), (Obj([('a/b', 1), ('m~n', 2), ('', 3)]), Obj([('a/b', 2), ('~', 2), ('/', 3)])),
         ([1, 2, 3, 4, 5], [1, 2]), ([1, 2], [1, 2, 3, 4]), ([1, [2, 3], Obj([('a', 1)])], [1, [2], Obj([('a', 2), ('b', 1)]), 7]), (1.0, 0.9999999999999999), (1.0, 1.0000000000000002),
         (1, 1), (None, None), (True, False), ('a', 'a'), ('a', 'b'), (Obj(), []), ([], Obj()), (Obj(), Obj()), ([], []), (Obj([('a', 1)]), 5), (5, Obj([('a', 1)])),
         (Obj([('c', Obj([('z', 1), ('y', [1, 2, 3])])), ('b', 0)]), Obj([('b', 0), ('c', Obj([('y', [1, 3]), ('z', 1), ('x', None)]))])),
         (Obj([('foo', 1), ('Foo', 2)]), Obj([('Foo', 1), ('foo', 2)])), (Obj([('0', 1), ('01', 2)]), Obj([('01', 1), ('0', 2)])), (2147483648, 2147483649.0), (0, -0.0)]

def generate(ctx):
    rng = random.Random(ctx['seed'] * 6151 + 17)
    quick = ctx['tier'] == 'quick'
    cases = []
    for a, b in FIXED:
        cases.append(case(1, copy.deepcopy(a), copy.deepcopy(b), ['fixed'])); cases.append(case(1, copy.deepcopy(b), copy.deepcopy(a), ['fixed']))
    for _ in range(1500 if quick else 12000):
        a = G.rand_doc(rng, rng.choice([1, 2, 3, 3, 4]))
        cs = 1 if rng.random() < 0.85 else 0
        r = rng.random()
        if r < 0.55: b = G.mutate(a, rng); tags = ['mutated']
        elif r < 0.7: b = G.shuffled(copy.deepcopy(a), rng); tags = ['equal-permuted']
        elif r < 0.8: b = G.mutate(G.shuffled(copy.deepcopy(a), rng), rng); tags = ['permuted+mutated']
        else: b = G.rand_doc(rng, rng.choice([0, 1, 2, 3]), root=rng.random() < 0.7); tags = ['independent']
        cases.append(case(cs, a, b, tags))
    # documents nested about as deep as the parser accepts (arrays only: comparing nested OBJECTS is exponential in the library)
    if ctx.get('seed_index', 0) == 0:
        NL = nesting_limit(ctx['repo'])
        for depth in (NL - 3, NL - 2, NL - 1, NL):     # the follow-up health check re-parses the printed inputs: stay within the parser's nesting limit
            for x, y in ((1, 2), (True, False), ('x', 'y'), (None, 0)):
                a = x; b = y
                for _ in range(depth): a = [a]; b = [b]
                cases.append(case(1, a, b, ['deep']))
    # number pairs on both sides of the tolerance test, bare and inside containers
    for x, y in G.NUM_PAIRS:
        for a, b in ((x, y), (y, x), ([1, x], [1, y]), (G.Obj([('n', x), ('k', 'v')]), G.Obj([('k', 'v'), ('n', y)]))):
            cases.append(case(1, copy.deepcopy(a), copy.deepcopy(b), ['number-pairs']))
    for _ in range(150 if quick else 1000):
        a, b = G.rand_scalar(rng), G.rand_scalar(rng)
        cases.append(case(1, a, b, ['scalars']))
    # members added with cJSON_AddItemToObjectCS on either side: constant keys are borrowed memory, the generated patch owns copies
    from .C16 import constified
    for c in rng.sample(cases, min(len(cases), 300 if quick else 1500)): cases.append(constified(c, rng))
    return cases

def project(c, out): return strip_suffix(out)

def verdict(c, out, ctx):
    if is_crash(out): return 'crash / memory error: ' + out
    ap = alloc_problem(out)
    if ap: return ap
    tok = strip_suffix(out).split()
    try:
        assert tok[0] == 'G'; gl = G.tree_len(tok, 1); fp = 1 + gl; assert tok[fp] == 'F'; fl = G.tree_len(tok, fp + 1); tp = fp + 1 + fl; assert tok[tp] == 'T'
        tl = G.tree_len(tok, tp + 1); dp = tp + 1 + tl; assert tok[dp].startswith('delta='); assert tok[dp + 1] == 'A'
        st = int(tok[dp + 2]); rl = G.tree_len(tok, dp + 3); rest = tok[dp + 3 + rl:]
        patch, _, _ = G.parse_dump(tok, 1); f2, _, _ = G.parse_dump(tok, fp + 1); t2, _, _ = G.parse_dump(tok, tp + 1); res, _, _ = G.parse_dump(tok, dp + 3)
        kv = dict(x.split('=', 1) for x in rest if '=' in x)
    except Exception as e:
        return 'malformed output (%r): %s' % (e, out[:120])
    intok = c.line.split()
    before = G.count_blocks(intok, 2, len(intok))
    now = G.count_blocks(tok, 1, dp)
    if int(tok[dp][6:]) != now - before: return 'allocation ledger changed by %s but patch and inputs hold %d more blocks (leak or lost block)' % (tok[dp][6:], now - before)
    if 'from' in c.info: a, b, cs = c.info['from'], c.info['to'], c.info['cs']
    else:   # corpus / replay line
        cs = int(intok[1]); a, _, p2 = G.parse_dump(intok, 2); b, _, _ = G.parse_dump(intok, p2)
    for nm, x in (('fuF', f2), ('fuT', t2)):
        want = '-' if not isinstance(x, list) else '%d/%d' % (len(x) + 1, len(x) + 1)
        if kv.get(nm) != want: return 'input %s is not healthy after generation: append/print/reparse gave %s, expected %s' % (nm[2], kv.get(nm), want)
    if not cs: return None
    if not G.doc_eq(f2, a): return "generation changed the value of 'from'"
    if not G.doc_eq(t2, b): return "generation changed the value of 'to'"
    if not isinstance(patch, list) or isinstance(patch, Obj): return 'the generated patch is not an array'
    kind, r = G.apply_patch_doc(a, patch)
    if kind != 'ok': return 'the generated patch does not apply under RFC 6902 (%s: %s)' % (kind, r)
    if not G.doc_eq(r, b): return "the generated patch applied to 'from' (RFC 6902 evaluator) does not yield 'to'"
    if (len(patch) == 0) != G.doc_eq(a, b): return 'patch is %s but the documents are %s' % ('empty' if not patch else 'not empty', 'equal' if G.doc_eq(a, b) else 'different')
    if st != 0: return 'the library fails to apply its own patch (status %d)' % st
    if not G.doc_eq(res, b): return "the library's application of the generated patch does not yield 'to'"
    if kv.get('cmp') != '1': return "cJSON_Compare(result, to) is false after applying the generated patch"
    return None

def nontrivial(c, out):
    return 'from' in c.info and not G.doc_eq(c.info['from'], c.info['to']) and not is_crash(out)


# ---------------------------------------------------------------------------------------------------------------------------------
# The HEAP-LEVEL transliterations the companion file Properties_C17_Heap.v is about are executed against the library too
# (area uheap, tools/props/uheap.py): same operand trees, results, operand trees afterwards and allocator ledger compared.
from . import uheap as _UH
AREAS = ['patch', 'uheap']
MODEL_FILES = MODEL_FILES + '; heap-level: ' + _UH.MODEL_FILES
RULE = RULE + ' || area uheap (heap-level transliterations, kinds %s): ' % '/'.join(_UH.KINDS_OF['C17']) + _UH.RULE
_generate0, _project0, _verdict0, _nontrivial0 = generate, project, verdict, nontrivial
def generate(ctx): return _generate0(ctx) + _UH.generate(ctx, kinds=_UH.KINDS_OF['C17'])
def project(c, out): return _UH.project(c, out) if c.info.get('area') == 'uheap' else _project0(c, out)
def verdict(c, out, ctx): return _UH.verdict(c, out, ctx) if c.info.get('area') == 'uheap' else _verdict0(c, out, ctx)
def nontrivial(c, out): return _UH.nontrivial(c, out) if c.info.get('area') == 'uheap' else _nontrivial0(c, out)
