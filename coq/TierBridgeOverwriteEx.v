(** TierBridgeOverwriteEx.v — non-vacuity of the [overwrite_item] theorems (TierBridgeOverwrite.v) on the concrete
    heap [ow_heap] (TierBridgeOverwriteDefs.v), and what happens OUTSIDE their hypotheses, by concrete counterexample:

    * [overwrite_const_key_refuted]: a root whose key carries cJSON_StringIsConst (the caller's block, borrowed)
      gets that block released by overwrite_item (unchanged by the repair f953f57) — [ForeignFree] in the model (in C: free() of memory the library does not own,
      e.g. a string literal) — although cJSON_Delete of the same root is fine and leaves the block alone;
    * [overwrite_member_refuted]: a "root" that is in fact a member of a larger tree (it has siblings) loses them:
      the memcpy overwrites next/prev with the NULL links of the replacement, the parent's chain ends after the
      member, the later siblings stay live library blocks that nothing reaches (a leak), and the next sibling's
      prev still designates the member. *)
From CJ Require Import Base Dbl Heap Forest ForestLemmas CoreSpec CoreDefs CoreRefineBase CoreRefine CoreRefineDelete
  CoreRefineDupValue.
From CJ Require Import TierBridgeDefs TierBridgeLemmas TierBridgeEndToEndStr TierBridge TierBridgeOverwriteDefs TierBridgeOverwrite.
From CJ Require Tree CompareDefs PatchDefs.
From CJ.gen Require Import Constants.
From stdpp Require Import gmap.
Local Open Scope Z_scope.

Local Instance ow_ptr_eq_dec : EqDecision ptr.
Proof. unfold ptr. apply _. Defined.
Local Instance ow_spec_float_eq_dec : EqDecision SpecFloat.spec_float.
Proof. solve_decision. Defined.
Local Instance ow_ndata_eq_dec : EqDecision ndata.
Proof. solve_decision. Defined.
Local Instance ow_rdata_eq_dec : EqDecision rdata.
Proof. solve_decision. Defined.
Ltac ow_dec := apply (bool_decide_unpack _); vm_compute; exact I.

Lemma heap_of_WF F St foreign next :
  NoDup (ids F) -> NoDup (owned F) -> Forall (fun b => b ∉ foreign) (owned F) ->
  Forall (fun b => (b < next)%positive) (owned F) -> Forall ref_ok (flat F) ->
  WF (heap_of F St foreign next) F.
Proof.
  intros H1 H2 H3 H4 H5. constructor; try done.
  - intros b Hb. unfold heap_of. cbn. apply elem_of_list_to_set. apply elem_of_app. by left.
  - intros b Hb. unfold heap_of. cbn. apply elem_of_list_to_map_1'.
    + intros y Hy. apply elem_of_app in Hy as [Hy|Hy]; apply elem_of_list_fmap in Hy as (c & [= -> ->] & Hc); [done|].
      rewrite Forall_forall in H3. by destruct (H3 c Hb).
    + apply elem_of_app. left. apply elem_of_list_fmap. by exists b.
  - intros b Hb. rewrite Forall_forall in H4. by apply H4.
Qed.

(** * 1. non-vacuity: every hypothesis of [patch_root_overwrite_sim] / [patch_root_remove_sim] holds on [ow_heap] *)
Lemma ow_heap_WF : WF ow_heap ow_F.
Proof.
  apply heap_of_WF.
  - ow_dec.
  - ow_dec.
  - apply Forall_forall. intros b _. apply not_elem_of_nil.
  - ow_dec.
  - unfold ref_ok. ow_dec.
Qed.

Lemma ow_hypotheses :
  WF ow_heap ow_F /\ NoLeak ow_heap ow_F /\
  find_root 1%positive ow_F = Some (T 1 ow_dr ow_csr) /\ find_root 10%positive ow_F = Some (T 10 ow_dx ow_csx) /\
  1%positive <> 10%positive /\ is_ref ow_dr = false /\ key_owned ow_dr /\ key_owned ow_dx /\
  rd_key ow_dr = Some 102%positive /\ rd_vstr ow_dr = Some 101%positive /\ rd_key ow_dx = Some 110%positive /\
  is_ref ow_dx = false /\ Forall owns_strings ow_csx.
Proof.
  split; [exact ow_heap_WF|]. split.
  { intros b Hb. apply elem_of_filter in Hb as [_ Hb].
    change (h_live ow_heap) with (list_to_set (C := gset positive) (owned ow_F ++ [])) in Hb.
    apply elem_of_list_to_set in Hb. by rewrite app_nil_r in Hb. }
  split_and!; try reflexivity; try done.
  unfold ow_csx, ow_num, ow_str, owns_strings. repeat constructor.
Qed.

(** the released blocks, in order: the root's key "doc" and valuestring "old", member 2 (key, node), member 3
    (valuestring, key, node), the replacement's shell 10 and its key "value"; the new root is the array
    [5, "x"] without key *)
Lemma ow_result :
  patch_released ow_dr ow_csr 10 ow_dx = [102; 101; 103; 2; 104; 105; 3; 10; 110]%positive /\
  overwrite_root 1 10 ow_dx ow_csx ow_F = [T 1 (rd_unnamed ow_dx) ow_csx; ow_num 20 7 None] /\
  PatchDefs.unnamed (reify (h_str ow_heap) (T 10 ow_dx ow_csx)) =
    Tree.Node c_cJSON_Array None 0 dzero None
      [Tree.Node c_cJSON_Number None 5 (dbl_of_int 5) None []; Tree.Node c_cJSON_String (Some [120]) 0 dzero None []] /\
  ov_released ow_dr ow_csr = [102; 101; 103; 2; 104; 105; 3]%positive /\
  invalidate_root 1 ow_F = [T 1 rd_invalid []; T 10 ow_dx ow_csx; ow_num 20 7 None].
Proof. split_and!; vm_compute; reflexivity. Qed.

(** the theorems, instantiated: the model run of the example *)
Lemma ow_instance :
  exists h',
    patch_root_overwrite (Some 1%positive) (Some 10%positive) ow_heap = Ret (tt, h') /\
    WF h' [T 1 (rd_unnamed ow_dx) ow_csx; ow_num 20 7 None] /\
    NoLeak h' [T 1 (rd_unnamed ow_dx) ow_csx; ow_num 20 7 None] /\
    lib_live h' = lib_live ow_heap ∖ list_to_set [102; 101; 103; 2; 104; 105; 3; 10; 110]%positive /\
    reify (h_str h') (T 1 (rd_unnamed ow_dx) ow_csx) =
      Tree.Node c_cJSON_Array None 0 dzero None
        [Tree.Node c_cJSON_Number None 5 (dbl_of_int 5) None []; Tree.Node c_cJSON_String (Some [120]) 0 dzero None []].
Proof.
  destruct ow_hypotheses as (W & NL & Hr & Hx & Hrx & Hnr & Hko & Hkx & _ & _ & _ & Hrx' & Hoc).
  destruct (patch_root_overwrite_sim ow_heap ow_F 1 10 ow_dr ow_dx ow_csr ow_csx W Hr Hx Hrx Hnr Hko)
    as (S1 & S2 & _ & S4 & S5 & _ & S7).
  destruct ow_result as (R1 & R2 & R3 & _). rewrite R1, R2 in *.
  eexists. split; [exact S1|]. split; [exact S2|]. split; [exact (S5 NL)|]. split; [exact S4|].
  rewrite <- R3. apply S7. rewrite <- R1.
  exact (patch_no_aliasing_of_owned ow_heap ow_F 1 10 ow_dr ow_dx ow_csr ow_csx W Hr Hx Hrx Hnr Hko Hrx' Hoc).
Qed.

Lemma ow_instance_remove :
  exists h',
    patch_root_remove (Some 1%positive) ow_heap = Ret (tt, h') /\
    WF h' [T 1 rd_invalid []; T 10 ow_dx ow_csx; ow_num 20 7 None] /\
    NoLeak h' [T 1 rd_invalid []; T 10 ow_dx ow_csx; ow_num 20 7 None] /\
    lib_live h' = lib_live ow_heap ∖ list_to_set [102; 101; 103; 2; 104; 105; 3]%positive /\
    reify (h_str h') (T 1 rd_invalid []) = PatchDefs.invalid_node.
Proof.
  destruct ow_hypotheses as (W & NL & Hr & _ & _ & Hnr & Hko & _).
  destruct (patch_root_remove_sim ow_heap ow_F 1 ow_dr ow_csr W Hr Hnr Hko) as (S1 & S2 & _ & S4 & S5 & _ & S7).
  destruct ow_result as (_ & _ & _ & R4 & R5). rewrite R4, R5 in *.
  eexists. split; [exact S1|]. split; [exact S2|]. split; [exact (S5 NL)|]. split; [exact S4|]. apply S7.
Qed.

(** * 2. outside the hypotheses *)

(** a root with a CONSTANT key: every hypothesis but [key_owned] holds; [overwrite_item] releases the caller's
    block *)
Theorem overwrite_const_key_refuted :
  WF owc_heap owc_F /\ find_root 1%positive owc_F = Some (T 1 owc_dr []) /\
  find_root 10%positive owc_F = Some (ow_num 10 5 None) /\ is_ref owc_dr = false /\
  is_const owc_dr = true /\ rd_key owc_dr = Some 102%positive /\ ~ key_owned owc_dr /\
  h_own owc_heap !! 102%positive = Some Foreign /\ 102%positive ∈ h_live owc_heap /\
  patch_root_overwrite (Some 1%positive) (Some 10%positive) owc_heap = Err ForeignFree /\
  patch_root_overwrite_pinned (Some 1%positive) (Some 10%positive) owc_heap = Err ForeignFree /\
  patch_root_remove (Some 1%positive) owc_heap = Err ForeignFree /\
  (exists h', cJSON_Delete (Some 1%positive) owc_heap = Ret (tt, h') /\ 102%positive ∈ h_live h').
Proof.
  split_and!; try (vm_compute; reflexivity).
  - apply heap_of_WF; [ow_dec|ow_dec|ow_dec|ow_dec|unfold ref_ok; ow_dec].
  - intros H. specialize (H eq_refl). discriminate H.
  - eexists. split; [vm_compute; reflexivity|]. ow_dec.
Qed.

(** a REPLACEMENT with a constant key (what cJSON_Duplicate returns for a member added with
    cJSON_AddItemToObjectCS).  With the PINNED code (before the repair f953f57) the final
    [cJSON_free(object->string)] releases the caller's block … *)
Theorem overwrite_const_replacement_refuted_pinned :
  WF owk_heap owk_F /\ find_root 1%positive owk_F = Some (ow_num 1 1 None) /\
  find_root 10%positive owk_F = Some (T 10 owk_dx []) /\ key_owned (tdata (ow_num 1 1 None)) /\
  is_const owk_dx = true /\ rd_key owk_dx = Some 110%positive /\ ~ key_owned owk_dx /\
  h_own owk_heap !! 110%positive = Some Foreign /\ 110%positive ∈ h_live owk_heap /\
  patch_root_overwrite_pinned (Some 1%positive) (Some 10%positive) owk_heap = Err ForeignFree.
Proof.
  split_and!; try (vm_compute; reflexivity).
  - apply heap_of_WF; [ow_dec|ow_dec|ow_dec|ow_dec|unfold ref_ok; ow_dec].
  - intros H. specialize (H eq_refl). discriminate H.
Qed.

(** … with the REPAIRED code the same call succeeds: only the old root 1 and the shell 10 are released, the
    caller's block 110 stays live, borrowed and unchanged, and the new root is the number 5 without key and
    without the cJSON_StringIsConst flag *)
Theorem overwrite_const_replacement_ok :
  110%positive ∉ owned owk_F /\
  exists h',
    patch_root_overwrite (Some 1%positive) (Some 10%positive) owk_heap = Ret (tt, h') /\
    WF h' [T 1 (rd_unnamed owk_dx) []] /\
    patch_released (tdata (ow_num 1 1 None)) [] 10 owk_dx = [10%positive] /\
    110%positive ∈ h_live h' /\ h_own h' !! 110%positive = Some Foreign /\
    h_str h' !! 110%positive = Some [118; 97; 108; 117; 101; 0] /\
    rd_key (rd_unnamed owk_dx) = None /\ is_const (rd_unnamed owk_dx) = false /\
    reify (h_str h') (T 1 (rd_unnamed owk_dx) []) = Tree.Node c_cJSON_Number None 5 (dbl_of_int 5) None [].
Proof.
  destruct overwrite_const_replacement_refuted_pinned as (W & Hr & Hx & Hko & Hc & Hk & _ & Hown & Hlive & _).
  assert (Hnot : 110%positive ∉ owned owk_F) by ow_dec.
  split; [exact Hnot|].
  destruct (patch_const_replacement_ok owk_heap owk_F 1 10 _ owk_dx [] [] 110 W Hr Hx ltac:(done) eq_refl Hko Hc Hk Hnot)
    as (S1 & S2 & S3 & _ & S5 & S6 & S7 & S8 & S9).
  eexists. split; [exact S1|]. split; [exact S2|]. split; [exact S3|].
  split; [by apply S5|]. split; [etransitivity; [exact S7|exact Hown]|]. split; [etransitivity; [exact S6|vm_compute; reflexivity]|].
  split; [exact S8|]. split; [exact S9|]. vm_compute. reflexivity.
Qed.

(** a "root" with siblings: member 2 ("a") of the object 1 of [ex_heap] (TierBridge.v; members 2 3 4), replacement
    the detached number 7.  The call returns normally; afterwards the member has no next, the object has ONE
    member, members 3 and 4 are still live library blocks (leaked), and 3's prev still points at 2 *)
Theorem overwrite_member_refuted :
  WF ex_heap ex_F /\ find_root 2%positive ex_F = None /\ find_tree 2%positive ex_F = Some m2 /\
  find_root 7%positive ex_F = Some ex_item /\
  out_val (get_next (Some 2%positive) ex_heap) = inl (Some (Some 3%positive)) /\
  out_val (cJSON_GetArraySize (Some 1%positive) ex_heap) = inl (Some 3) /\
  exists h',
    patch_root_overwrite (Some 2%positive) (Some 7%positive) ex_heap = Ret (tt, h') /\
    out_val (get_next (Some 2%positive) h') = inl (Some None) /\
    out_val (cJSON_GetArraySize (Some 1%positive) h') = inl (Some 1) /\
    out_val (get_prev (Some 3%positive) h') = inl (Some (Some 2%positive)) /\
    3%positive ∈ lib_live h' /\ 4%positive ∈ lib_live h' /\ 5%positive ∈ lib_live h' /\ 6%positive ∈ lib_live h' /\
    101%positive ∉ h_live h'.
Proof.
  split; [exact ex_heap_WF|]. split_and!; try (vm_compute; reflexivity).
  eexists. split; [vm_compute; reflexivity|].
  split_and!; try (vm_compute; reflexivity); ow_dec.
Qed.
