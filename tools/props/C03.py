"""C03 — Malformed text is rejected and leaves nothing behind."""
from .common import *
from . import parsegen as G

MODEL_FILES = 'ParseDefs.v, LibcNum.v'
RULE = ('malformed stream: every single-edit corruption (delete/duplicate/substitute/transpose) of valid texts, exhaustive token sequences over '
        '{[ ] { } , : "a" 1 true nul tru_e - "\\uD800" space} up to a length bound, case variants of literals, escapes \\a..\\z, \\u + 4-tuples over {0,9,a,F,g,G,/,:,@,`}, '
        'all surrogate pairings, depth 998-1002 and 10^5; verdict = independent python recogniser of the lenient dialect (reject => NULL) + allocator ledger; '
        'non-trivial = distinct input the recogniser rejects')
ASSUMPTIONS = ['C locale', 'hand-written transliteration validated by this differential run', 'the python recogniser encodes the lenient dialect described in the property statement']

def corpus(ctx): return G.parse_corpus(ctx, 'C03', None)
def generate(ctx): return G.all_streams(ctx, 3)
def project(c, out):
    tree, kv = G.fields(out)
    return ('NULL' if tree == 'NULL' else 'TREE') + ' live=' + kv.get('live', '?')

def verdict(c, out, ctx):
    if is_crash(out): return 'crash (e.g. stack exhaustion on deep nesting) instead of a rejection: ' + out
    tree, kv = G.fields(out)
    if 'content' not in c.info: return None
    n = c.info['n'] if c.info['entry'] in 'LlW' else len(c.info['content'])     # string variants: strlen + 1
    rnt = c.info['rnt'] if c.info['entry'] in 'LlOo' else 0
    ok = G.lenient_accepts(c.info['content'], n, rnt)
    if not ok:
        if tree != 'NULL': return 'malformed text accepted'
        if kv.get('live') != '0': return 'rejection leaves %s block(s) allocated' % kv.get('live')
    if 'DOUBLEFREE' in kv or 'FOREIGNFREE' in kv: return 'allocator misuse'
    return None

def nontrivial(c, out):
    if 'content' not in c.info: return False
    n = c.info['n'] if c.info['entry'] in 'LlW' else len(c.info['content'])
    return not G.lenient_accepts(c.info['content'], n, c.info['rnt'] if c.info['entry'] in 'LlOo' else 0)
