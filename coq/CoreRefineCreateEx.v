(** CoreRefineCreateEx.v — NON-VACUITY of CoreRefineCreate / CoreRefineSet / CoreRefineArray:
    the hypotheses of the simulation lemmas hold on concrete heaps built from [empty_heap], and
    concrete runs ([vm_compute]) show both branches of the two-branch statements.

    * [h1]: [empty_heap] plus two caller strings, "hi" (block 1) and "hello" (block 2);
    * [h2]: after [cJSON_CreateString "hi"] (node 3, copy 4);
    * [cJSON_SetValuestring(node, "hello")] needs a larger block: when the request is refused
      NULL is returned and the node still has "hi" ([ex_setvs_refused]); when it is granted the
      node has "hello" in block 5 and block 4 is released ([ex_setvs_granted]);
    * [cJSON_CreateIntArray [1;2;3]] with the THIRD request refused returns NULL and leaves the
      heap without any block ([ex_intarray_refused]); granted: the chain 2,3,4 under node 1 with
      the canonical links ([ex_intarray_granted]). *)
From CJ Require Import Base Dbl Heap Forest ForestLemmas CoreSpec CoreDefs CoreRefineBase CoreRefine
  CoreRefineCreate CoreRefineSet CoreRefineArray.
From CJ.gen Require Import Constants.
From stdpp Require Import gmap.

Definition heap_after {A} (m : M A) (h : heap) : heap := match m h with Ret (_, h') => h' | Err _ => h end.
Definition result_of {A} (m : M A) (h : heap) : option A := match m h with Ret (a, _) => Some a | Err _ => None end.

Definition hi : bytes := [104; 105; 0]%Z.
Definition hello : bytes := [104; 101; 108; 108; 111; 0]%Z.
Definition always : nat -> bool := fun _ => true.
Definition third : nat -> bool := fun k => Nat.eqb k 2.

(** * the hypotheses are satisfiable *)
Lemma WF_empty : WF empty_heap [].
Proof.
  constructor.
  - constructor.
  - reflexivity.
  - reflexivity.
  - constructor.
  - intros b Hb. by apply elem_of_nil in Hb.
  - intros b Hb. by apply elem_of_nil in Hb.
  - intros b Hb. by apply elem_of_nil in Hb.
  - constructor.
Qed.

Definition h1 : heap := heap_after (foreign_bytes hi ;;; foreign_bytes hello) empty_heap.
Lemma WF_h1 : WF h1 [].
Proof.
  constructor.
  - constructor.
  - reflexivity.
  - reflexivity.
  - constructor.
  - intros b Hb. by apply elem_of_nil in Hb.
  - intros b Hb. by apply elem_of_nil in Hb.
  - intros b Hb. by apply elem_of_nil in Hb.
  - constructor.
Qed.
Lemma live_below_h1 : live_below h1.
Proof.
  intros b Hb. rewrite <- elem_of_elements in Hb.
  assert (E : elements (h_live h1) = [1; 2]%positive) by (vm_compute; reflexivity).
  rewrite E in Hb. apply elem_of_cons in Hb as [->|Hb]; [done|]. by apply elem_of_list_singleton in Hb as ->.
Qed.
Lemma live_h1 b : b = 1%positive \/ b = 2%positive -> b ∈ h_live h1.
Proof.
  intros Hb. rewrite <- elem_of_elements.
  assert (E : elements (h_live h1) = [1; 2]%positive) by (vm_compute; reflexivity).
  rewrite E. set_solver.
Qed.
Lemma Readable_h1_hi : Readable h1 1.
Proof. split; [apply live_h1; by left|]. exists hi. split; reflexivity. Qed.
Lemma Readable_h1_hello : Readable h1 2.
Proof. split; [apply live_h1; by right|]. exists hello. split; reflexivity. Qed.

(** the constructor lemma, for EVERY oracle, on this heap *)
Example ex_create_string_any_oracle (oracle : nat -> bool) :
  (oracle 0 = false /\ oracle 1 = false /\
   cJSON_CreateString oracle (Some 1%positive) h1 = Ret (Some 3%positive, new_string h1 c_cJSON_String [104; 105; 0]%Z) /\
   WF (new_string h1 c_cJSON_String [104; 105; 0]%Z) [T 3 (rd_string c_cJSON_String 4) []])
  \/ (exists h', cJSON_CreateString oracle (Some 1%positive) h1 = Ret (None, h') /\ clean_failure h1 h' /\ refused oracle h1 h').
Proof.
  destruct (cJSON_CreateString_sim oracle h1 [] 1 WF_h1 live_below_h1 Readable_h1_hi)
    as [(H1 & H2 & H3 & H4 & _)|H]; [left|by right].
  split; [exact H1|]. split; [exact H2|]. split; [exact H3|exact H4].
Qed.

Definition h2 : heap := heap_after (cJSON_CreateString never (Some 1%positive)) h1.
Definition F2 : forest := [T 3 (rd_string c_cJSON_String 4) []].
Lemma h2_eq : h2 = new_string h1 c_cJSON_String (str_at h1 1 ++ [0%Z]).
Proof.
  destruct (cJSON_CreateString_total h1 [] 1 WF_h1 live_below_h1 Readable_h1_hi) as (H & _).
  unfold h2, heap_after. by rewrite H.
Qed.
Lemma WF_h2 : WF h2 F2.
Proof.
  rewrite h2_eq. destruct (cJSON_CreateString_total h1 [] 1 WF_h1 live_below_h1 Readable_h1_hi) as (_ & H & _). exact H.
Qed.
Lemma live_below_h2 : live_below h2.
Proof. rewrite h2_eq. apply live_below_new_str, live_below_new_node, live_below_h1. Qed.
Lemma Readable_h2 b : b = 2%positive \/ b = 4%positive -> Readable h2 b.
Proof.
  assert (E : elements (h_live h2) = [1; 2; 4; 3]%positive) by (vm_compute; reflexivity).
  intros [-> | ->]; (split; [rewrite <- elem_of_elements, E; set_solver|]).
  - exists hello. split; reflexivity.
  - exists hi. split; reflexivity.
Qed.

(** the hypotheses of [cJSON_SetValuestring_realloc] hold on [h2]: both branches are live *)
Example ex_setvs_any_oracle (oracle : nat -> bool) :
  (exists h', cJSON_SetValuestring oracle (Some 3%positive) (Some 2%positive) h2 = Ret (Some 5%positive, h') /\
              WF h' (set_data 3 (rd_string c_cJSON_String 5) F2) /\ str_at h' 5 = str_at h2 2 /\ 4%positive ∉ h_live h')
  \/ (cJSON_SetValuestring oracle (Some 3%positive) (Some 2%positive) h2 = Ret (None, bump h2) /\
      clean_failure h2 (bump h2) /\ refused oracle h2 (bump h2)).
Proof.
  destruct (cJSON_SetValuestring_realloc oracle h2 F2 3 (rd_string c_cJSON_String 4) [] 4 2 WF_h2 live_below_h2)
    as [(_ & _ & H1 & H2 & _ & _ & _ & H3 & H4)|(_ & H)]; try reflexivity.
  - apply Readable_h2. by left.
  - apply Readable_h2. by right.
  - vm_compute. lia.
  - left. eexists. split; [exact H1|]. split; [exact H2|]. split; [exact H3|exact H4].
  - by right.
Qed.

(** * concrete runs *)

(** the request is refused: NULL, and the node still holds "hi" in block 4; nothing else moved *)
Example ex_setvs_refused :
  let m := cJSON_SetValuestring always (Some 3%positive) (Some 2%positive) in
  let h3 := heap_after m h2 in
  result_of m h2 = Some None /\
  result_of (cJSON_GetStringValue (Some 3%positive)) h3 = Some (Some 4%positive) /\
  str_at h3 4 = [104; 105]%Z /\
  elements (h_live h3) = elements (h_live h2) /\ map_to_list (h_lnk h3) = map_to_list (h_lnk h2) /\
  map_to_list (h_dat h3) = map_to_list (h_dat h2) /\ map_to_list (h_str h3) = map_to_list (h_str h2).
Proof. vm_compute. repeat split. Qed.

(** the request is granted: "hello" in the new block 5, the old block 4 released *)
Example ex_setvs_granted :
  let m := cJSON_SetValuestring never (Some 3%positive) (Some 2%positive) in
  let h3 := heap_after m h2 in
  result_of m h2 = Some (Some 5%positive) /\
  result_of (cJSON_GetStringValue (Some 3%positive)) h3 = Some (Some 5%positive) /\
  str_at h3 5 = [104; 101; 108; 108; 111]%Z /\
  elements (h_live h3) = [1; 2; 3; 5]%positive.
Proof. vm_compute. repeat split. Qed.

(** a shorter string is copied in place: same block, same size *)
Example ex_setvs_inplace :
  let m := (s <~ foreign_bytes [120; 0]%Z ;; cJSON_SetValuestring always (Some 3%positive) s) in
  let h3 := heap_after m h2 in
  result_of m h2 = Some (Some 4%positive) /\
  str_at h3 4 = [120]%Z /\ h_str h3 !! 4%positive = Some [120; 0; 0]%Z /\ h_req h3 = h_req h2.
Proof. vm_compute. repeat split. Qed.

(** the argument aliases the node's own valuestring: refused by the overlap check *)
Example ex_setvs_alias :
  cJSON_SetValuestring always (Some 3%positive) (Some 4%positive) h2 = Ret (None, h2).
Proof.
  refine (proj2 (cJSON_SetValuestring_alias always h2 F2 3 (rd_string c_cJSON_String 4) [] 4 None WF_h2 _ _ _ _ _));
    try reflexivity.
  apply Readable_h2. by right.
Qed.

(** bulk constructor, third request refused (array node, element 1, then element 2 refused):
    NULL, and not a single block is left; the trace shows the two releases *)
Example ex_intarray_refused :
  let m := cJSON_CreateIntArray third (Some [1; 2; 3]%Z) 3 in
  let h' := heap_after m empty_heap in
  result_of m empty_heap = Some None /\
  elements (h_live h') = [] /\ map_to_list (h_lnk h') = [] /\ map_to_list (h_dat h') = [] /\ map_to_list (h_str h') = [] /\ h_req h' = 3 /\
  h_trace h' = [EvFree 1 LibcFn; EvFree 2 LibcFn; EvAlloc 2 LibcFn; EvAlloc 1 LibcFn].
Proof. vm_compute. repeat split. Qed.

(** the theorem on the same instance, for EVERY oracle *)
Example ex_intarray_any_oracle (oracle : nat -> bool) :
  array_result oracle (cJSON_CreateIntArray oracle (Some [1; 2; 3]%Z) 3) empty_heap []
               (number_leaf (dbl_of_int <$> [1; 2; 3]%Z)) 3.
Proof. apply (cJSON_CreateIntArray_sim oracle empty_heap [] WF_empty live_below_empty); [lia|cbn; lia]. Qed.

Example ex_intarray_refused_clean :
  exists h', cJSON_CreateIntArray third (Some [1; 2; 3]%Z) 3 empty_heap = Ret (None, h') /\ clean_failure empty_heap h'.
Proof.
  destruct (ex_intarray_any_oracle third) as [(leaves & Hc & H & _)|(h' & H1 & H2 & _)].
  - exfalso. vm_compute in H. discriminate H.
  - exists h'. split; [exact H1|exact H2].
Qed.

(** granted: array node 1 with the children 2, 3, 4 = the numbers in order, canonical links *)
Example ex_intarray_granted :
  let m := cJSON_CreateIntArray never (Some [1; 2; 3]%Z) 3 in
  let h' := heap_after m empty_heap in
  result_of m empty_heap = Some (Some 1%positive) /\
  map_to_list (h_lnk h') = map_to_list (heap_lnk_of [T 1 arr [T 2 (rd_number (dbl_of_int 1)) []; T 3 (rd_number (dbl_of_int 2)) []; T 4 (rd_number (dbl_of_int 3)) []]]) /\
  map_to_list (h_dat h') = map_to_list (heap_dat_of [T 1 arr [T 2 (rd_number (dbl_of_int 1)) []; T 3 (rd_number (dbl_of_int 2)) []; T 4 (rd_number (dbl_of_int 3)) []]]).
Proof. vm_compute. repeat split. Qed.

(** count = 0: an empty array; count < 0 or NULL: NULL and no request *)
Example ex_intarray_empty :
  result_of (cJSON_CreateIntArray never (Some []) 0) empty_heap = Some (Some 1%positive) /\
  cJSON_CreateIntArray always None 3 empty_heap = Ret (None, empty_heap) /\
  cJSON_CreateIntArray always (Some [1]%Z) (-1) empty_heap = Ret (None, empty_heap).
Proof. vm_compute. repeat split. Qed.

(** string array with the copy of the SECOND string refused (requests: array, node, copy, node, copy) *)
Example ex_stringarray_refused :
  let m := cJSON_CreateStringArray (fun k => Nat.eqb k 4) (Some [Some 1%positive; Some 2%positive]) 2 in
  let h' := heap_after m h1 in
  result_of m h1 = Some None /\ elements (h_live h') = elements (h_live h1) /\
  map_to_list (h_lnk h') = [] /\ map_to_list (h_dat h') = [] /\ map_to_list (h_str h') = map_to_list (h_str h1).
Proof. vm_compute. repeat split. Qed.

(** * why [live_below] is a hypothesis: in a heap whose NEXT identity is already in use by a
    caller block, the node that cJSON_CreateString allocates and releases again (copy refused)
    takes that block's identity with it — the failure is not clean.  No heap reachable from
    [empty_heap] is like this ([live_below_empty], and every lemma returns [live_below]). *)
Definition bad_heap : heap :=
  mkHeap ∅ ∅ {[1%positive := hi]} {[1%positive := Foreign]} {[1%positive]} 1%positive 0 default_hooks [].
Example live_below_needed :
  let m := cJSON_CreateString (fun k => Nat.eqb k 1) (Some 1%positive) in
  WF bad_heap [] /\ ~ live_below bad_heap /\
  result_of m bad_heap = Some None /\ elements (h_live (heap_after m bad_heap)) = [] /\
  elements (h_live bad_heap) = [1%positive].
Proof.
  split; [|split; [|vm_compute; repeat split]].
  - constructor.
    + constructor.
    + reflexivity.
    + reflexivity.
    + constructor.
    + intros b Hb. by apply elem_of_nil in Hb.
    + intros b Hb. by apply elem_of_nil in Hb.
    + intros b Hb. by apply elem_of_nil in Hb.
    + constructor.
  - intros H. specialize (H 1%positive ltac:(cbn; set_solver)). cbn in H. lia.
Qed.
