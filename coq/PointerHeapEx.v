(** PointerHeapEx.v — non-vacuity of PointerHeapForest.v on a concrete heap, by computation.

    [exp_heap] encodes the document of Properties_C15.v ([PointerProofs.pdoc]):
        {"a":1, "a/b":[10, 11, {"~":5, "":6}], "":3}
    root 1 (object); members 2 ("a"), 3 ("a/b", array with elements 4, 5 and the object 6 with members 7 ("~")
    and 8 ("")), 9 (""); key blocks 101-107; allocator pointer 1000.  Fresh memory is filled with 0xAA.
    The heap-level [cJSONUtils_FindPointerFromObjectTo] is RUN ([vm_compute]) for the member "~" (node 7): four
    blocks are allocated (1000-1003), three released, the result 1003 reads "/a~1b/2/~0"; the heap-level
    [cJSONUtils_GetPointerCaseSensitive] run on that block in the heap left behind returns node 7. *)
From CJ Require Import Base Dbl Heap Forest ForestLemmas CoreDefs CoreRefineDupBase CoreRefineDupValue CoreRefineDupForest.
From CJ Require Import TierBridgeDefs MergeHeapDefs MergeHeapInv MergeHeapEx PatchHeapDefs PatchHeapPointer.
From CJ Require Import CompareHeapViewDefs CompareHeapForest PointerHeapDefs PointerHeapProofs PointerHeapForest.
From CJ Require Tree PointerDefs PointerProofs.
From CJ.gen Require Import Constants.
From stdpp Require Import gmap.
From Coq Require Import Floats.SpecFloat.
Local Open Scope Z_scope.

Definition exp_leaf (i k : positive) (v : Z) : tree := T i (mkRD 8 None v (S754_zero false) (Some k) None) [].
Definition exp_inner : tree := T 6 (mkRD 64 None 0 (S754_zero false) None None) [exp_leaf 7 105 5; exp_leaf 8 106 6].
Definition exp_arr : tree :=
  T 3 (mkRD 32 None 0 (S754_zero false) (Some 102%positive) None) [exp_leaf 4 103 10; exp_leaf 5 104 11; exp_inner].
Definition exp_root : tree := T 1 (mkRD 64 None 0 (S754_zero false) None None) [exp_leaf 2 101 1; exp_arr; exp_leaf 9 107 3].
Definition exp_F : forest := [exp_root].
Definition exp_St : gmap positive bytes :=
  list_to_map [(101%positive, [97; 0]); (102%positive, [97; 47; 98; 0]); (103%positive, [0]); (104%positive, [0]);
               (105%positive, [126; 0]); (106%positive, [0]); (107%positive, [0])].
Definition exp_heap : heap := heap_of_forest exp_F exp_St.
Definition exp_junk (n : nat) : bytes := repeat 170 n.
Definition exp_target : tree := exp_leaf 7 105 5.

Lemma exp_junk_length n : length (exp_junk n) = n.
Proof. apply repeat_length. Qed.
Lemma exp_MInv : MInv exp_heap exp_F.
Proof. apply heap_of_forest_MInv; vm_compute; reflexivity. Qed.
Lemma exp_reify : reify (h_str exp_heap) exp_root = PointerProofs.pdoc.
Proof. vm_compute. reflexivity. Qed.
Lemma exp_nodes : exp_root ∈ nodes exp_F /\ subtree_t exp_root [1; 2; 0]%nat = Some exp_target.
Proof. split; [apply (elem_of_list_lookup_2 _ 0%nat); reflexivity|reflexivity]. Qed.

(** ** the runs *)
Definition exp_find : out (ptr * heap) :=
  cJSONUtils_FindPointerFromObjectTo nofail exp_junk (Some 1%positive) (Some 7%positive) exp_heap.
Definition exp_after : heap := out_heap exp_find exp_heap.
Definition exp_get : out (ptr * heap) :=
  cJSONUtils_GetPointerCaseSensitive (Some 1%positive) (CAt 1003 0) exp_after.
Definition exp_absent : out (ptr * heap) :=
  cJSONUtils_FindPointerFromObjectTo nofail exp_junk (Some 3%positive) (Some 2%positive) exp_heap.

Lemma exp_runs :
  out_val exp_find = Some (Some 1003%positive) /\
  h_str exp_after !! 1003%positive = Some [47; 97; 126; 49; 98; 47; 50; 47; 126; 48; 0] /\      (* "/a~1b/2/~0" *)
  elements (h_live exp_after ∖ h_live exp_heap) = [1003%positive] /\                            (* one new block *)
  elements (h_live exp_heap ∖ h_live exp_after) = [] /\
  h_next exp_after = 1004%positive /\                                                           (* four allocations *)
  out_val exp_get = Some (Some 7%positive) /\                                                   (* back to the node *)
  out_val exp_absent = Some None /\                                                             (* node 2 is not below node 3 *)
  elements (h_live (out_heap exp_absent exp_heap) ∖ h_live exp_heap) = [].
Proof. vm_compute. repeat split. Qed.

(** ** the hypotheses of [find_then_get] hold, and its conclusion is what the run shows *)
Theorem pointer_heap_nonvacuous :
  MInv exp_heap exp_F /\ (forall n, length (exp_junk n) = n) /\ exp_root ∈ nodes exp_F /\
  subtree_t exp_root [1; 2; 0]%nat = Some exp_target /\
  PointerDefs.small_arrays (reify (h_str exp_heap) exp_root) /\ PointerDefs.keys_ok (reify (h_str exp_heap) exp_root) /\
  PointerDefs.containers_ok (reify (h_str exp_heap) exp_root) /\
  out_val exp_find = Some (Some 1003%positive) /\
  h_str exp_after !! 1003%positive = Some [47; 97; 126; 49; 98; 47; 50; 47; 126; 48; 0] /\
  elements (h_live exp_after ∖ h_live exp_heap) = [1003%positive] /\
  out_val exp_get = Some (Some 7%positive) /\
  out_val exp_absent = Some None.
Proof.
  destruct exp_runs as (R1 & R2 & R3 & _ & _ & R6 & R7 & _). destruct exp_nodes as [N1 N2].
  destruct PointerProofs.ex_doc_ok as (H1 & H2 & H3 & _).
  split; [exact exp_MInv|]. split; [exact exp_junk_length|]. split; [exact N1|]. split; [exact N2|].
  rewrite exp_reify. split; [exact H1|]. split; [exact H2|]. split; [exact H3|].
  split; [exact R1|]. split; [exact R2|]. split; [exact R3|]. split; [exact R6|exact R7].
Qed.
