(** PrintProofs.v — the buffer-level printer refines the renderer.

    For every libc satisfying [LibcPrintSpec], every allocation oracle, every initial buffer
    contents: print_value never leaves its buffer ([Ok] outcome); when it returns true the
    buffer holds, after the text written before, exactly [render]'s text and a terminator;
    it returns true whenever the text (plus two bytes) fits the caller's buffer, or the
    buffer may grow and no allocation fails.  The entry points follow.  Proofs only. *)
From CJ Require Import Base Dbl Tree PrintDefs PrintLemmas PrintString.
From Coq Require Import Lia ZArith List Bool.
Import ListNotations.
Local Open Scope Z_scope.

Section Main.
  Variable fmt_d : Z -> bytes.
  Variable fmt_g15 fmt_g17 : dbl -> bytes.
  Variable sscanf_lg : bytes -> option dbl.
  Hypothesis libc : LibcPrintSpec fmt_d fmt_g15 fmt_g17.
  Variable oracle : nat -> bool.
  Variable junk : nat -> Z.

  Notation printbuffer := PrintDefs.printbuffer.
  Notation text_at := PrintLemmas.text_at.
  Notation done := PrintLemmas.done.
  Notation room := (PrintLemmas.room oracle).
  Notation ensure := (PrintDefs.ensure oracle junk).
  Notation prints := (PrintString.prints oracle).
  Notation render := (PrintDefs.render fmt_d fmt_g15 fmt_g17 sscanf_lg).
  Notation number_text := (PrintDefs.number_text fmt_d fmt_g15 fmt_g17 sscanf_lg).
  Notation print_value := (PrintDefs.print_value fmt_d fmt_g15 fmt_g17 sscanf_lg oracle junk).
  Notation print_number := (PrintDefs.print_number fmt_d fmt_g15 fmt_g17 sscanf_lg oracle junk).

  (** ---------------------------------------------------------------- numbers *)
  Lemma finite_of_not_nan_inf d : is_nan d || is_inf d = false -> is_finite d = true.
  Proof. destruct d; cbn; intros; congruence. Qed.

  Lemma number_text_props vi d :
    int_range vi = true -> nz (number_text vi d) /\ zlen (number_text vi d) <= c_NUMBER_BUFFER_SIZE - 1.
  Proof.
    intros Hi. unfold PrintDefs.number_text.
    destruct (is_nan d || is_inf d) eqn:Hn.
    - split; [unfold lit_null; repeat constructor; lia|reflexivity || (unfold zlen; cbn; lia)].
    - pose proof (finite_of_not_nan_inf d Hn) as Hf.
      destruct (deq d (dbl_of_int vi)).
      + split; [apply (lps_d_zero_free _ _ _ libc); assumption|apply (lps_d_len _ _ _ libc); assumption].
      + destruct (sscanf_lg (fmt_g15 d)) as [test|].
        * destruct (compare_double test d).
          -- split; [apply (lps_g15_zero_free _ _ _ libc)|apply (lps_g15_len _ _ _ libc)]; assumption.
          -- split; [apply (lps_g17_zero_free _ _ _ libc)|apply (lps_g17_len _ _ _ libc)]; assumption.
        * split; [apply (lps_g17_zero_free _ _ _ libc)|apply (lps_g17_len _ _ _ libc)]; assumption.
  Qed.

  Lemma sprintf_ok txt : zlen txt <= c_NUMBER_BUFFER_SIZE - 1 -> sprintf_number_buffer txt = Ok txt.
  Proof. intros H. unfold sprintf_number_buffer. destruct (Z.ltb_spec c_NUMBER_BUFFER_SIZE (zlen txt + 1)); [lia|reflexivity]. Qed.

  Lemma print_number_prints vi d :
    int_range vi = true -> prints (print_number vi d) (number_text vi d).
  Proof.
    intros Hi p T HT.
    destruct (number_text_props vi d Hi) as (Hnz & Hlen).
    pose proof (zlen_nonneg (number_text vi d)) as H0.
    destruct (ensure_put_prints oracle junk (number_text vi d) (zlen (number_text vi d) + 1) (zlen (number_text vi d)) eq_refl ltac:(lia) p T HT)
      as (ok & p' & E & R).
    exists ok, p'. split; [|exact R]. rewrite <- E. unfold PrintDefs.print_number.
    assert (Htxt : (if is_nan d || is_inf d then sprintf_number_buffer lit_null
                    else if deq d (dbl_of_int vi) then sprintf_number_buffer (fmt_d vi)
                    else t15 <- sprintf_number_buffer (fmt_g15 d) ;;
                         match sscanf_lg t15 with
                         | Some test => if compare_double test d then Ok t15 else sprintf_number_buffer (fmt_g17 d)
                         | None => sprintf_number_buffer (fmt_g17 d)
                         end) = Ok (number_text vi d)).
    { revert Hlen. unfold PrintDefs.number_text.
      destruct (is_nan d || is_inf d) eqn:Hn; [intros; apply sprintf_ok; assumption|].
      pose proof (finite_of_not_nan_inf d Hn) as Hf.
      destruct (deq d (dbl_of_int vi)); [intros; apply sprintf_ok; assumption|].
      rewrite (sprintf_ok (fmt_g15 d)) by (apply (lps_g15_len _ _ _ libc); assumption). cbn [bind].
      destruct (sscanf_lg (fmt_g15 d)) as [test|]; [destruct (compare_double test d)|]; intros; try reflexivity; apply sprintf_ok; assumption. }
    rewrite Htxt. cbn [bind].
    destruct (Z.ltb_spec (c_NUMBER_BUFFER_SIZE - 1) (zlen (number_text vi d))); [lia|]. reflexivity.
  Qed.

  (** ---------------------------------------------------------------- the renderer's text is a C string *)
  Lemma opt_all_cons {A} (x : option A) (r : list (option A)) l :
    opt_all (x :: r) = Some l -> exists t ts, x = Some t /\ opt_all r = Some ts /\ l = t :: ts.
  Proof.
    cbn [opt_all]. destruct x as [t|]; [|discriminate]. destruct (opt_all r) as [ts|]; [|discriminate].
    intros H. inversion H. eauto.
  Qed.

  Lemma nz_join sep l : nz sep -> Forall nz l -> nz (join sep l).
  Proof.
    intros Hs H. induction H as [|x l Hx Hl IH]; [constructor|].
    cbn [join]. destruct l as [|y l']; [exact Hx|]. apply nz_app; [exact Hx|]. apply nz_app; [exact Hs|exact IH].
  Qed.
  Lemma nz_tabs d : nz (tabs d).
  Proof. unfold tabs. induction (Z.to_nat d); cbn; constructor; [unfold ch_tab; lia|assumption]. Qed.
  Lemma nz_if (b : bool) (l : bytes) : nz l -> nz (if b then l else []).
  Proof. destruct b; [auto|constructor]. Qed.
  Lemma nz_member fmt d k v last : nz v -> nz (member_text fmt d k v last).
  Proof.
    intros Hv. unfold member_text.
    repeat apply nz_app; try (apply nz_if); try apply nz_tabs; try apply render_string_nz; try assumption;
      try (destruct last); try (unfold ch_colon, ch_tab, ch_comma, ch_nl; repeat constructor; lia).
  Qed.
  Lemma nz_members fmt d keys l : Forall nz l -> nz (members_text fmt d (combine keys l)).
  Proof.
    intros H. revert keys. induction H as [|x l Hx Hl IH]; intros keys.
    - destruct keys; constructor.
    - destruct keys as [|k keys]; [constructor|]. cbn [combine members_text].
      apply nz_app; [apply nz_member; exact Hx|apply IH].
  Qed.

  Lemma opt_all_nz (f : node -> option bytes) cs :
    Forall (fun c => ints_ok c = true -> forall txt, f c = Some txt -> nz txt) cs ->
    forallb ints_ok cs = true ->
    forall l, opt_all (map f cs) = Some l -> Forall nz l.
  Proof.
    induction 1 as [|c cs Hc Hcs IH]; intros Hi l H.
    - cbn in H. inversion H. constructor.
    - cbn [forallb] in Hi. apply andb_true_iff in Hi as (Hi1 & Hi2). cbn [map] in H.
      apply opt_all_cons in H as (t & ts & H1 & H2 & ->). constructor; [eapply Hc; eauto|apply IH; auto].
  Qed.

  Lemma render_nz n : ints_ok n = true -> forall fmt d txt, render fmt d n = Some txt -> nz txt.
  Proof.
    induction n as [t s i dv k cs IH] using node_ind'. intros Hi fmt d txt.
    cbn [ints_ok] in Hi. apply andb_true_iff in Hi as (Hi1 & Hi2).
    cbn [PrintDefs.render].
    destruct (tymask t =? c_cJSON_NULL); [intros H; inversion H; unfold lit_null; repeat constructor; lia|].
    destruct (tymask t =? c_cJSON_False); [intros H; inversion H; unfold lit_false; repeat constructor; lia|].
    destruct (tymask t =? c_cJSON_True); [intros H; inversion H; unfold lit_true; repeat constructor; lia|].
    destruct (tymask t =? c_cJSON_Number).
    { destruct (c_NUMBER_BUFFER_SIZE - 1 <? zlen (number_text i dv)); [discriminate|].
      intros H; inversion H. apply number_text_props. assumption. }
    destruct (tymask t =? c_cJSON_Raw).
    { destruct s; [|discriminate]. intros H; inversion H. apply cstr_nz. }
    destruct (tymask t =? c_cJSON_String); [intros H; inversion H; apply render_string_nz|].
    assert (Hch : forall d' l, opt_all (map (render fmt d') cs) = Some l -> Forall nz l).
    { intros d' l. apply opt_all_nz; [|exact Hi2].
      eapply Forall_impl; [|exact IH]. cbn. intros c Hc Hic txt'. apply Hc. exact Hic. }
    destruct (tymask t =? c_cJSON_Array).
    { destruct (opt_all (map (render fmt (d + 1)) cs)) as [l|] eqn:E; [|discriminate].
      intros [= <-]. constructor; [unfold ch_lbrack; lia|].
      apply nz_app; [|unfold ch_rbrack; repeat constructor; lia].
      apply nz_join; [destruct fmt; unfold ch_comma, ch_space; repeat constructor; lia|eapply Hch; eauto]. }
    destruct (tymask t =? c_cJSON_Object); [|discriminate].
    destruct (opt_all (map (render fmt (d + 1)) cs)) as [l|] eqn:E; [|discriminate].
    intros [= <-]. constructor; [unfold ch_lbrace; lia|].
    apply nz_app; [apply nz_if; unfold ch_nl; repeat constructor; lia|].
    apply nz_app; [apply nz_members; eapply Hch; eauto|].
    apply nz_app; [apply nz_if; apply nz_tabs|unfold ch_rbrace; repeat constructor; lia].
  Qed.

  (** ---------------------------------------------------------------- what is proved of print_value, per node *)
  Definition spec_of (pv : node -> printbuffer -> res (bool * printbuffer)) (n : node) : Prop :=
    ints_ok n = true ->
    forall p T, text_at p T -> 0 <= pb_depth p ->
    exists ok p', pv n p = Ok (ok, p') /\ frame p p' /\
      (ok = true -> exists txt, render (pb_format p) (pb_depth p) n = Some txt /\ done p' T txt /\
                    pb_depth p' = pb_depth p /\ zlen T + zlen txt + 2 <= pb_length p' /\ grown p p') /\
      (forall txt, render (pb_format p) (pb_depth p) n = Some txt -> room p (zlen T + zlen txt + 2) -> ok = true).

  Definition sep_of (fmt : bool) : bytes := if fmt then [ch_comma; ch_space] else [ch_comma].
  Lemma sep_len fmt : zlen (sep_of fmt) = if fmt then 2 else 1.
  Proof. destruct fmt; reflexivity. Qed.
  Lemma join_cons_len (sep t : bytes) (ts : list bytes) : zlen t <= zlen (join sep (t :: ts)).
  Proof.
    cbn [join]. destruct ts as [|t1 ts]; [lia|]. rewrite !zlen_app.
    pose proof (zlen_nonneg sep). pose proof (zlen_nonneg (join sep (t1 :: ts))). lia.
  Qed.

  Lemma frame_set_offset p o : frame p (set_offset p o). Proof. repeat split. Qed.
  Lemma grown_set_offset p o : grown p (set_offset p o). Proof. split; [cbn; lia|]. intros _. repeat split. Qed.
  Lemma frame_set_depth p o : frame p (set_depth p o). Proof. repeat split. Qed.
  Lemma grown_set_depth p o : grown p (set_depth p o). Proof. split; [cbn; lia|]. intros _. repeat split. Qed.
  Lemma frame_set_buf p o : frame p (set_buf p o). Proof. repeat split. Qed.
  Lemma grown_set_buf p o : grown p (set_buf p o). Proof. split; [cbn; lia|]. intros _. repeat split. Qed.

  (** the loop of print_array *)
  Lemma elements_spec pv : forall l, Forall (spec_of pv) l -> forallb ints_ok l = true ->
    forall p T, text_at p T -> 0 <= pb_depth p ->
    exists ok p', print_array_elements oracle junk pv l p = Ok (ok, p') /\ frame p p' /\
      (ok = true -> exists txts, opt_all (map (render (pb_format p) (pb_depth p)) l) = Some txts /\
                    text_at p' (T ++ join (sep_of (pb_format p)) txts) /\ pb_depth p' = pb_depth p /\ grown p p') /\
      (forall txts, opt_all (map (render (pb_format p) (pb_depth p)) l) = Some txts ->
                    room p (zlen T + zlen (join (sep_of (pb_format p)) txts) + 2) -> ok = true).
  Proof.
    induction 1 as [|c next Hc Hnext IH]; intros Hi p T HT Hd.
    - exists true, p. split; [reflexivity|]. split; [apply frame_refl|]. split; [|reflexivity].
      intros _. exists []. split; [reflexivity|]. cbn [join]. rewrite app_nil_r.
      split; [exact HT|]. split; [reflexivity|apply grown_refl].
    - cbn [forallb] in Hi. apply andb_true_iff in Hi as (Hi1 & Hi2).
      cbn [print_array_elements].
      destruct (Hc Hi1 p T HT Hd) as (ok1 & p1 & E1 & F1 & S1 & C1). rewrite E1. cbn [bind].
      destruct ok1; cbn [negb].
      2: { exists false, p1. split; [reflexivity|]. split; [exact F1|]. split; [discriminate|].
           intros txts Ht R. cbn [map] in Ht. apply opt_all_cons in Ht as (t & ts & Rt & _ & ->).
           apply (C1 t Rt). eapply room_mono; [exact R|].
           pose proof (join_cons_len (sep_of (pb_format p)) t ts). unfold bytes in *. lia. }
      destruct (S1 eq_refl) as (t & Rt & D1 & Dp1 & Len1 & G1).
      pose proof (render_nz c Hi1 _ _ _ Rt) as Hnz.
      destruct (update_offset_spec p1 T t D1 Hnz) as (p2 & E2 & P2 & TA2 & _). rewrite E2. cbn [bind].
      assert (F2 : frame p p2) by (subst p2; eapply frame_trans; [exact F1|apply frame_set_offset]).
      assert (G2 : grown p p2) by (subst p2; eapply grown_trans; [exact F1|exact G1|apply grown_set_offset]).
      assert (Dp2 : pb_depth p2 = pb_depth p) by (subst p2; exact Dp1).
      destruct next as [|c' next'].
      + cbn [print_array_elements]. exists true, p2. split; [reflexivity|]. split; [exact F2|]. split; [|reflexivity].
        intros _. exists [t]. split; [cbn [map opt_all]; rewrite Rt; reflexivity|]. cbn [join].
        split; [exact TA2|]. split; [exact Dp2|exact G2].
      + destruct F2 as (Ff2 & Fn2 & Fr2).
        rewrite Ff2.
        set (fmt := pb_format p) in *. set (len := if fmt then 2 else 1).
        assert (Hlen : 1 <= len <= 2) by (unfold len; destruct fmt; lia).
        destruct (ensure_spec oracle junk p2 (T ++ t) (len + 1) TA2 ltac:(lia)) as (ok3 & p3 & E3 & F3 & S3 & C3).
        rewrite E3. cbn [bind].
        pose proof (sep_len fmt) as SL. fold len in SL.
        assert (Hroom2 : forall k, room p k -> room p2 k).
        { intros k R. eapply room_step; [|exact G2|exact R]. repeat split; assumption. }
        destruct ok3; cbn [negb].
        2: { exists false, p3. split; [reflexivity|]. split; [eapply frame_trans; [repeat split; eassumption|exact F3]|].
             split; [discriminate|]. intros txts Ht R. cbn [map] in Ht.
             apply opt_all_cons in Ht as (t0 & ts & Rt0 & Hts & ->). rewrite Rt in Rt0. injection Rt0 as <-.
             apply opt_all_cons in Hts as (t1 & ts1 & _ & _ & ->).
             apply C3. apply Hroom2. eapply room_mono; [exact R|]. cbn [join]. rewrite !zlen_app, SL.
             pose proof (zlen_nonneg (join (sep_of fmt) (t1 :: ts1))). lia. }
        destruct (S3 eq_refl) as (TA3 & Len3 & Dp3 & G3).
        destruct F3 as (Ff3 & Fn3 & Fr3). rewrite Ff3, Ff2. fold fmt.
        destruct TA3 as (rest3 & B3 & O3 & _).
        replace ([ch_comma] ++ (if fmt then [ch_space] else []) ++ [0]) with (sep_of fmt ++ [0]) by (destruct fmt; reflexivity).
        destruct (put_spec p3 (T ++ t) rest3 (sep_of fmt ++ [0]) 0 B3 ltac:(lia)) as (rest4 & p4 & E4 & P4 & B4).
        { destruct B3 as (_ & B3). rewrite !zlen_app, zlen_cons, zlen_nil in *. lia. }
        rewrite E4. cbn [bind].
        set (p5 := set_offset p4 (pb_offset p4 + len)).
        assert (TA5 : text_at p5 ((T ++ t) ++ sep_of fmt)).
        { exists (0 :: rest4). destruct B4 as (B4a & B4b). split; [split|split].
          - unfold p5. cbn. rewrite B4a. f_equal. norm_list. reflexivity.
          - unfold p5. cbn. rewrite !zlen_app, !zlen_cons, !zlen_nil in *. lia.
          - unfold p5. subst p4. cbn. rewrite O3, !zlen_app. lia.
          - rewrite zlen_cons. pose proof (zlen_nonneg rest4). lia. }
        assert (F5 : frame p p5).
        { unfold p5. subst p4. repeat split; cbn; congruence. }
        assert (G5 : grown p p5).
        { eapply grown_trans; [repeat split; eassumption|exact G2|].
          eapply grown_trans; [repeat split; eassumption|exact G3|]. unfold p5. subst p4. split; [cbn; lia|]. intros _. repeat split. }
        assert (Dp5 : pb_depth p5 = pb_depth p) by (unfold p5; subst p4; cbn; congruence).
        destruct (IH Hi2 p5 _ TA5 ltac:(lia)) as (ok6 & p6 & E6 & F6 & S6 & C6).
        rewrite E6. exists ok6, p6. split; [reflexivity|]. split; [eapply frame_trans; [exact F5|exact F6]|].
        destruct F5 as (Ff5 & Fn5 & Fr5). rewrite Ff5, Dp5 in S6, C6. fold fmt in S6, C6.
        split.
        * intros Hok. destruct (S6 Hok) as (ts & Hts & TA6 & Dp6 & G6).
          exists (t :: ts). split; [cbn [map opt_all] in Hts |- *; rewrite Rt, Hts; reflexivity|].
          split; [|split; [congruence|eapply grown_trans; [repeat split; eassumption|exact G5|exact G6]]].
          cbn [map] in Hts. apply opt_all_cons in Hts as (t1 & ts1 & _ & _ & ->).
          cbn [join]. replace (T ++ t ++ sep_of fmt ++ join (sep_of fmt) (t1 :: ts1)) with (((T ++ t) ++ sep_of fmt) ++ join (sep_of fmt) (t1 :: ts1)) by (rewrite <- !app_assoc; reflexivity).
          exact TA6.
        * intros txts Ht R. cbn [map] in Ht.
          apply opt_all_cons in Ht as (t0 & ts & Rt0 & Hts & ->). rewrite Rt in Rt0. injection Rt0 as <-.
          apply (C6 ts Hts).
          eapply room_step; [repeat split; eassumption|exact G5|]. eapply room_mono; [exact R|].
          cbn [map] in Hts. apply opt_all_cons in Hts as (t1 & ts1 & _ & _ & ->).
          cbn [join]. rewrite !zlen_app. lia.
  Qed.
End Main.
