(** CoreRefineReplace.v — simulation of [cJSON_ReplaceItemViaPointer]: relinking (the old item
    becomes a detached root; four cases: only child / head / middle / last, closed by the
    [links_replace_*] equations) followed by [cJSON_Delete] of the old item
    ([CoreRefineDelete.cJSON_Delete_sim]). *)
From CJ Require Import Base Dbl Heap Forest ForestLemmas CoreSpec CoreDefs CoreRefineBase CoreRefine CoreRefineDelete.
From stdpp Require Import gmap.
Implicit Types (h : heap) (F : forest) (p x y r : positive) (d : rdata).

Ltac mn ::= cbv beta; rewrite ?bindM_assoc; cbv beta; rewrite ?bindM_ret; cbv beta.

(** * cJSON_ReplaceItemViaPointer *)
Lemma upd_prev_next_reset i a b (m : gmap positive (ptr * ptr)) :
  is_Some (m !! i) -> upd_prev i b (upd_next i a m) = <[i := (a, b)]> m.
Proof.
  intros [e He]. apply map_eq. intros j. unfold upd_next, upd_prev. destruct (decide (i = j)) as [->|Hne].
  - by rewrite !lookup_alter, lookup_insert, He.
  - by rewrite !lookup_alter_ne, lookup_insert_ne.
Qed.
Lemma upd_prev_insert_same i a b b0 (m : gmap positive (ptr * ptr)) :
  upd_prev i b (<[i := (a, b0)]> m) = <[i := (a, b)]> m.
Proof.
  apply map_eq. intros j. unfold upd_prev. destruct (decide (i = j)) as [->|Hne].
  - by rewrite lookup_alter, !lookup_insert.
  - by rewrite lookup_alter_ne, !lookup_insert_ne.
Qed.

Lemma list_insert_Permutation {A} (l : list A) (k : nat) (a b : A) :
  l !! k = Some b -> <[k := a]> l ≡ₚ a :: delete k l.
Proof.
  intros Hk. rewrite insert_take_drop by (by eapply lookup_lt_Some). rewrite delete_take_drop.
  by rewrite <- Permutation_middle.
Qed.

Lemma remove_root_snoc (G : forest) t : tid t ∉ roots G -> remove_root (tid t) (G ++ [t]) = G.
Proof.
  intros H. unfold remove_root. rewrite List.filter_app. cbn. rewrite bool_decide_eq_true_2 by done. cbn.
  rewrite app_nil_r. by apply remove_root_notin.
Qed.

Lemma find_root_app_r y (G G' : forest) : y ∉ roots G -> find_root y (G ++ G') = find_root y G'.
Proof.
  unfold find_root, roots. induction G as [|g G IH]; intros H; [done|]. cbn in *.
  apply not_elem_of_cons in H as [H1 H2]. rewrite bool_decide_eq_false_2 by done. by apply IH.
Qed.

(** the relinking part: afterwards the old item [y] is a detached root *)
Lemma replace_relink_focus h F p y r tr ty d cs k :
  WF h F -> find_root r F = Some tr ->
  find_tree p (remove_root r F) = Some (T p d cs) -> cs !! k = Some ty -> tid ty = y ->
  let F0 := remove_root r F in
  let F1 := set_children p (<[k := tr]> cs) F0 ++ [ty] in
  let ks := tid <$> cs in
  exists FL,
    tid tr = r /\
    flat F ≡ₚ (p, d, ks) :: FL /\ roots F ≡ₚ r :: roots F0 /\
    flat F1 ≡ₚ (p, d, <[k := r]> ks) :: FL /\ roots F1 ≡ₚ y :: roots F0.
Proof.
  intros W Hr Hp Hk Hy F0 F1 ks. pose proof (wf_nodup _ _ W) as ND.
  destruct (focus_root_container _ _ _ _ _ _ ND Hr Hp) as (FL0 & Htr & ND0 & HFp & E1 & E2).
  exists (flat cs ++ flat_t tr ++ FL0). split_and!; [done|done| | |].
  - rewrite HFp. cbn. by rewrite Htr.
  - unfold F1, F0. rewrite flat_app, flat_singleton. rewrite E2. rewrite list_fmap_insert, Htr. cbn.
    apply Permutation_skip. rewrite (list_insert_Permutation cs k tr ty Hk), flat_cons.
    rewrite (delete_Permutation cs k ty Hk) at 2. rewrite flat_cons.
    rewrite <- !app_assoc. rewrite (Permutation_app_swap_app (flat_t tr)).
    rewrite (Permutation_app_swap_app (flat_t ty)). apply Permutation_app_head.
    rewrite (Permutation_app_comm (flat_t ty)). by rewrite <- !app_assoc.
  - unfold F1. rewrite roots_app, roots_set_children. cbn. rewrite Hy. by rewrite <- Permutation_cons_append.
Qed.

Lemma cJSON_ReplaceItemViaPointer_sim h F p y r tr ty d cs k :
  WF h F -> find_root r F = Some tr ->
  find_tree p (remove_root r F) = Some (T p d cs) -> cs !! k = Some ty -> tid ty = y ->
  let F0 := remove_root r F in
  let F1 := set_children p (<[k := tr]> cs) F0 ++ [ty] in
  let F' := set_children p (<[k := tr]> cs) F0 in
  let h1 := upd_maps h (heap_lnk_of F1) (heap_dat_of F1) in
  let h' := free_all (free_order [ty]) h1 in
  spec_replace F (Some p) (Some y) (Some r) = (F', true) /\
  cJSON_ReplaceItemViaPointer (Some p) (Some y) (Some r) h = Ret (true, h') /\
  WF h' F' /\ (NoLeak h F -> NoLeak h' F').
Proof.
  intros W Hr Hp Hk Hy F0 F1 F' h1 h'.
  pose proof (wf_nodup _ _ W) as ND.
  pose proof (find_tree_remove_root _ _ _ _ _ ND Hr Hp) as HpF.
  (* 2. focus *)
  destruct (replace_relink_focus h F p y r tr ty d cs k W Hr Hp Hk Hy) as (FL & Htr & E1 & HR & HFL1 & HR1).
  fold F0 in HR, HFL1, HR1. fold F1 in HFL1, HR1.
  assert (Hky : (tid <$> cs) !! k = Some y) by (by rewrite list_lookup_fmap, Hk; cbn; rewrite Hy).
  remember (tid <$> cs) as ks eqn:Eks.
  destruct (heap_lnk_of_focus _ _ _ _ _ _ ND HR E1) as [HL NDk].
  destruct (heap_dat_of_focus _ _ _ _ _ ND E1) as [HD HpFL].
  rewrite lnk_of_cons_root in HL. set (M0 := lnk_of (roots F0) FL) in *.
  assert (Hrks : r ∉ ks).
  { apply NoDup_app in NDk as (_ & H & _). intros Hin. apply (H _ Hin). unfold lnk_keys. cbn. by left. }
  assert (NDks : NoDup ks) by (by apply NoDup_app in NDk as (? & _ & _)).
  assert (NDrks : NoDup (r :: ks)) by (by apply NoDup_cons).
  assert (Hyks : y ∈ ks) by (by eapply elem_of_list_lookup_2).
  assert (Hry : r <> y) by (intros ->; done).
  (* 1. the specification *)
  split.
  { unfold spec_replace, children_of. rewrite HpF. cbn [fmap option_fmap option_map tchildren].
    assert (Hm : forall (X Y : forest * bool), match cs with [] => X | _ :: _ => Y end = Y).
    { intros X Y. by destruct cs. }
    rewrite Hm. rewrite decide_False by done. rewrite Hr. rewrite Hp.
    cbn [fmap option_fmap option_map tchildren]. rewrite <- Eks. by rewrite (index_of_lookup _ _ _ NDks Hky). }
  clear Eks.
  assert (Hlive : forall c, c = p \/ c = r \/ c ∈ ks -> c ∈ h_live h).
  { intros c Hc. apply (WF_ids_live _ _ _ W). destruct Hc as [->|[->|Hc]].
    - rewrite ids_flat, E1. cbn. by left.
    - apply roots_subseteq_ids. rewrite HR. by left.
    - eapply (cids_in_ids F p d ks); [|done]. rewrite E1. by left. }
  assert (Hlr : r ∈ h_live h) by auto. assert (Hlp : p ∈ h_live h) by auto. assert (Hly : y ∈ h_live h) by auto.
  assert (Hydel : y ∉ <[k := r]> ks).
  { intros Hin. apply elem_of_list_lookup in Hin as [j Hj]. destruct (decide (j = k)) as [->|Hne].
    - rewrite list_lookup_insert in Hj by (by eapply lookup_lt_Some). congruence.
    - rewrite list_lookup_insert_ne in Hj by done. pose proof (NoDup_lookup _ _ _ _ NDks Hj Hky). done. }
  assert (HM0y : M0 !! y = None).
  { apply lnk_of_lookup_None. apply NoDup_app in NDk as (_ & H & _). intros Hin. apply (H _ Hyks). unfold lnk_keys in *. cbn. by right. }
  assert (Hnoref : is_ref d = false).
  { pose proof (wf_ref _ _ W) as Hrf. rewrite E1 in Hrf. apply Forall_cons in Hrf as [[Hr1 _] _]. cbn in *.
    destruct (is_ref d); [|done]. rewrite Hr1 in Hky by done. done. }
  (* 3. the state after relinking: [y] is a detached root *)
  set (L1 := <[y := (None, None)]> (links (<[k := r]> ks)) ∪ M0).
  set (D1 := <[p := mk_dat d (<[k := r]> ks)]> (dat_of FL)).
  assert (W1 : WF (upd_maps h L1 D1) F1).
  { eapply (WF_refocus h _ F F1 (y :: roots F0) p d ks (<[k := r]> ks) FL W E1 HR1 HFL1); try done.
    - congruence.
    - change (h_lnk (upd_maps h L1 D1)) with L1. unfold L1. rewrite lnk_of_cons_root. fold M0. symmetry.
      apply union_insert_move. by apply links_lookup_None. }
  assert (heap_lnk_of F1 = L1) as HL1 by (symmetry; apply (wf_lnk _ _ W1)).
  assert (heap_dat_of F1 = D1) as HD1 by (symmetry; apply (wf_dat _ _ W1)).
  unfold h', h1. rewrite HL1, HD1. clear h' h1.
  (* the deletion of [y] *)
  assert (Hyroot : find_root y F1 = Some ty /\ remove_root y F1 = F').
  { assert (Hynot : y ∉ roots F').
    { unfold F'. rewrite roots_set_children. intros Hin.
      apply NoDup_app in NDk as (_ & H & _). apply (H _ Hyks). unfold lnk_keys. cbn. right. apply elem_of_app. by left. }
    split.
    - unfold F1. fold F'. rewrite find_root_app_r by done. unfold find_root. cbn. by rewrite bool_decide_eq_true_2.
    - unfold F1. fold F'. rewrite <- Hy. apply remove_root_snoc. by rewrite Hy. }
  destruct Hyroot as [Hyr HyF'].
  destruct (cJSON_Delete_sim _ _ _ _ W1 Hyr) as (_ & Hdel & Wdel & NLdel). rewrite HyF' in Wdel, NLdel.
  split; [|split; [exact Wdel|]].
  2:{ intros NL. apply NLdel. intros b Hb. unfold owned. rewrite HFL1.
      change (owned_fl ((p, d, <[k:=r]> ks) :: FL)) with (owned_fl ((p, d, ks) :: FL)). rewrite <- E1. by apply NL. }
  assert (Hfin : forall Lc Dc, Lc = L1 -> Dc = D1 ->
            (cJSON_Delete (Some y) ;;; ret true) (upd_maps h Lc Dc) =
            Ret (true, free_all (free_order [ty]) (upd_maps h L1 D1))).
  { intros Lc Dc -> ->. by rewrite (bindM_Ret _ _ _ _ _ Hdel). }
  clear Hdel Wdel NLdel.
  (* 4. run the code *)
  rewrite <- (upd_maps_id h) at 1. rewrite (wf_lnk _ _ W), (wf_dat _ _ W), HL, HD.
  rewrite (union_insert_move _ _ _ _ (links_lookup_None _ _ Hrks)).
  unfold cJSON_ReplaceItemViaPointer. cbn [is_null].
  rewrite (run_get_child_bind _ _ _ _ _ _ Hlp (lookup_insert _ _ _)).
  change (nd_child (mk_dat d ks)) with (child_of d ks).
  destruct (ks !! 0) as [c0|] eqn:Hc0; [|apply lookup_ge_None in Hc0; apply lookup_lt_Some in Hky; lia].
  assert (Hchild : child_of d ks = Some c0) by (by apply ref_ok_child_of_nonempty).
  assert (Hc0ks : c0 ∈ ks) by (by eapply elem_of_list_lookup_2).
  rewrite Hchild. cbn [is_null orb]. rewrite (ptr_eqb_Some_ne r y) by done.
  pose proof (focus_lookup r (None, None) ks M0 k y NDks Hky ltac:(done)) as HLy.
  assert (HL0r : is_Some (<[r:=(None, None)]> (links ks) !! r)) by (apply focus_left_is_Some; auto).
  assert (HS : forall c, c = r \/ c ∈ ks -> is_Some ((<[r:=(None, None)]> (links ks) ∪ M0) !! c))
    by (intros; by apply focus_is_Some).
  (* replacement->next = item->next; replacement->prev = item->prev *)
  rewrite (run_get_next_bind _ _ _ _ _ _ Hly HLy).
  rewrite run_set_next_bind by auto.
  rewrite (run_get_prev_bind _ _ _ _ y (link_at ks k) Hly) by (by rewrite lookup_upd_next_ne).
  rewrite run_set_prev_bind by (auto || (rewrite is_Some_upd_next; auto)).
  rewrite upd_next_union_l by done. rewrite upd_prev_union_l by (by rewrite is_Some_upd_next).
  rewrite upd_prev_next_insert. rewrite <- surjective_pairing.
  clear HLy HS.
  set (L2 := <[r := link_at ks k]> (links ks) ∪ M0).
  assert (HS : forall c, c = r \/ c ∈ ks -> is_Some (L2 !! c)) by (intros; by apply focus_is_Some).
  assert (HL2r : L2 !! r = Some (link_at ks k)) by apply focus_lookup_x.
  assert (HL2 : forall j c, ks !! j = Some c -> L2 !! c = Some (link_at ks j)).
  { intros j c Hj. apply focus_lookup; [done..|]. intros ->. apply Hrks. by eapply elem_of_list_lookup_2. }
  rewrite (run_get_next_bind _ _ _ _ _ _ Hlr HL2r).
  assert (Hyr' : y <> r) by done.
  assert (HL2l : forall c, c = r \/ c ∈ ks -> is_Some (<[r:=link_at ks k]> (links ks) !! c))
    by (intros; by apply focus_left_is_Some).
  destruct k as [|k'].
  - (* the item is the first child *)
    assert (c0 = y) as -> by congruence.
    rewrite link_at_0 in *. cbn [fst snd] in *.
    destruct (ks !! 1) as [n'|] eqn:Hn.
    + (* ... of several *)
      assert (Hn'ks : n' ∈ ks) by (by eapply elem_of_list_lookup_2).
      assert (n' <> y) by (eapply (NoDup_lookup_ne ks 1 0); eauto).
      assert (n' <> r) by (intros ->; done).
      destruct (last ks) as [tl|] eqn:Hlast; [|apply last_None in Hlast; by subst ks].
      assert (tl <> y).
      { rewrite last_lookup in Hlast. apply (NoDup_lookup_ne ks _ 0 _ _ NDks Hlast Hc0).
        apply lookup_lt_Some in Hn. lia. }
      cbn [is_null negb when]. mn.
      mn. rewrite (run_get_next_bind _ _ _ _ _ _ Hlr HL2r). cbn [fst].
      mn. rewrite run_set_prev_bind by auto.
      mn. rewrite (run_get_child_bind _ _ _ _ _ _ Hlp (lookup_insert _ _ _)).
      change (nd_child (mk_dat d ks)) with (child_of d ks). rewrite Hchild. rewrite ptr_eqb_refl. mn.
      mn. rewrite (run_get_child_bind _ _ _ _ _ _ Hlp (lookup_insert _ _ _)).
      change (nd_child (mk_dat d ks)) with (child_of d ks). rewrite Hchild.
      mn. rewrite (run_get_prev_bind _ _ _ _ y (link_at ks 0) Hly) by (rewrite lookup_upd_prev_ne by done; by apply HL2).
      rewrite link_at_0. cbn [snd]. rewrite Hlast.
      mn. rewrite (run_get_child_bind _ _ _ _ _ _ Hlp (lookup_insert _ _ _)).
      change (nd_child (mk_dat d ks)) with (child_of d ks). rewrite Hchild.
      rewrite (ptr_eqb_Some_ne tl y) by done. cbn [when]. mn.
      mn. rewrite (run_set_child_bind _ _ _ _ _ _ _ Hlp (lookup_insert _ _ _)).
      mn. rewrite run_set_next_bind by (auto || (rewrite is_Some_upd_prev; auto)).
      mn. rewrite run_set_prev_bind by (auto || (rewrite is_Some_upd_next, is_Some_upd_prev; auto)).
      apply Hfin.
      * rewrite upd_prev_next_reset by (rewrite is_Some_upd_prev; auto). unfold L2, L1.
        rewrite upd_prev_union_l by (apply focus_left_is_Some; auto). rewrite insert_union_l. f_equal.
        rewrite (links_replace_head ks y n' r NDrks Hc0 Hn). rewrite link_at_0, Hn. by rewrite insert_delete_insert.
      * unfold D1. rewrite insert_insert. f_equal. destruct ks; [done|]. reflexivity.
    + (* ... and the only one *)
      assert (ks = [y]) as ->.
      { destruct ks as [|a [|b t]]; [done| |done]. by injection Hc0 as ->. }
      cbn [is_null negb when last] in *. rewrite bindM_ret.
      mn. rewrite (run_get_child_bind _ _ _ _ _ _ Hlp (lookup_insert _ _ _)).
      cbn [nd_child mk_dat child_of]. rewrite ptr_eqb_refl. mn.
      mn. rewrite (run_get_child_bind _ _ _ _ _ _ Hlp (lookup_insert _ _ _)). cbn [nd_child mk_dat child_of].
      mn. rewrite (run_get_prev_bind _ _ _ _ y (link_at [y] 0) Hly) by (by apply HL2).
      rewrite link_at_0. cbn [snd last].
      mn. rewrite (run_get_child_bind _ _ _ _ _ _ Hlp (lookup_insert _ _ _)). cbn [nd_child mk_dat child_of].
      rewrite ptr_eqb_refl. cbn [when]. mn.
      mn. rewrite run_set_prev_bind by auto.
      mn. rewrite (run_set_child_bind _ _ _ _ _ _ _ Hlp (lookup_insert _ _ _)).
      mn. rewrite run_set_next_bind by (auto || (rewrite is_Some_upd_prev; auto)).
      mn. rewrite run_set_prev_bind by (auto || (rewrite is_Some_upd_next, is_Some_upd_prev; auto)).
      apply Hfin.
      * rewrite upd_prev_next_reset by (rewrite is_Some_upd_prev; auto). unfold L2, L1.
        rewrite upd_prev_union_l by (apply focus_left_is_Some; auto). rewrite link_at_0. cbn [lookup list_lookup last].
        rewrite upd_prev_insert_same. rewrite insert_union_l. f_equal.
        cbn [insert list_insert]. rewrite (links_replace_single y r) by done. by rewrite insert_delete_insert.
      * unfold D1. rewrite insert_insert. reflexivity.
  - (* the item is not the first child *)
    destruct (ks !! k') as [pv|] eqn:Hpv; [|apply lookup_ge_None in Hpv; apply lookup_lt_Some in Hky; lia].
    assert (Hpvks : pv ∈ ks) by (by eapply elem_of_list_lookup_2).
    assert (pv <> r) by (intros ->; done).
    assert (pv <> y) by (eapply (NoDup_lookup_ne ks k' (S k')); eauto; lia).
    assert (c0 <> y) by (eapply (NoDup_lookup_ne ks 0 (S k')); eauto).
    assert (c0 <> r) by (intros ->; done).
    assert (Hla : link_at ks (S k') = (ks !! S (S k'), Some pv)) by (by rewrite link_at_S, Hpv).
    assert (Hdat : mk_dat d (<[S k' := r]> ks) = mk_dat d ks).
    { apply mk_dat_head; [|by rewrite head_lookup, list_lookup_insert_ne by lia; rewrite Hc0].
      rewrite !head_lookup. by rewrite list_lookup_insert_ne by lia. }
    destruct (ks !! S (S k')) as [n'|] eqn:Hn.
    + (* a middle child *)
      assert (Hn'ks : n' ∈ ks) by (by eapply elem_of_list_lookup_2).
      assert (n' <> y) by (eapply (NoDup_lookup_ne ks (S (S k')) (S k')); eauto).
      assert (n' <> r) by (intros ->; done).
      rewrite Hla. cbn [fst snd is_null negb when].
      mn. rewrite (run_get_next_bind _ _ _ _ _ _ Hlr HL2r). rewrite Hla. cbn [fst].
      mn. rewrite run_set_prev_bind by auto.
      mn. rewrite (run_get_child_bind _ _ _ _ _ _ Hlp (lookup_insert _ _ _)).
      change (nd_child (mk_dat d ks)) with (child_of d ks). rewrite Hchild.
      rewrite (ptr_eqb_Some_ne c0 y) by done.
      mn. rewrite (run_get_prev_bind _ _ _ _ r (link_at ks (S k')) Hlr) by (by rewrite lookup_upd_prev_ne).
      rewrite Hla. cbn [snd is_null negb when].
      mn. rewrite (run_get_prev_bind _ _ _ _ r (link_at ks (S k')) Hlr) by (by rewrite lookup_upd_prev_ne).
      rewrite Hla. cbn [snd].
      mn. rewrite run_set_next_bind by (auto || (rewrite is_Some_upd_prev; auto)).
      mn. rewrite (run_get_next_bind _ _ _ _ r (link_at ks (S k')) Hlr)
        by (by rewrite lookup_upd_next_ne, lookup_upd_prev_ne).
      rewrite Hla. cbn [fst is_null when].
      mn. rewrite run_set_next_bind by (auto || (rewrite is_Some_upd_next, is_Some_upd_prev; auto)).
      mn. rewrite run_set_prev_bind by (auto || (rewrite !is_Some_upd_next, is_Some_upd_prev; auto)).
      apply Hfin.
      * rewrite upd_prev_next_reset by (rewrite is_Some_upd_next, is_Some_upd_prev; auto). unfold L2, L1.
        rewrite upd_prev_union_l by (apply focus_left_is_Some; auto).
        rewrite upd_next_union_l by (rewrite is_Some_upd_prev; apply focus_left_is_Some; auto).
        rewrite insert_union_l. f_equal.
        rewrite (links_replace_mid ks (S k') y r n' pv NDrks ltac:(lia) Hky Hn Hpv).
        rewrite Hla. by rewrite insert_delete_insert.
      * unfold D1. by rewrite Hdat.
    + (* the last child *)
      rewrite Hla. cbn [fst snd is_null negb when].
      mn. rewrite (run_get_child_bind _ _ _ _ _ _ Hlp (lookup_insert _ _ _)).
      change (nd_child (mk_dat d ks)) with (child_of d ks). rewrite Hchild.
      rewrite (ptr_eqb_Some_ne c0 y) by done.
      mn. rewrite (run_get_prev_bind _ _ _ _ _ _ Hlr HL2r). rewrite Hla. cbn [snd is_null negb when].
      mn. rewrite (run_get_prev_bind _ _ _ _ _ _ Hlr HL2r). rewrite Hla. cbn [snd].
      mn. rewrite run_set_next_bind by auto.
      mn. rewrite (run_get_next_bind _ _ _ _ r (link_at ks (S k')) Hlr) by (by rewrite lookup_upd_next_ne).
      rewrite Hla. cbn [fst is_null when].
      mn. rewrite (run_get_child_bind _ _ _ _ _ _ Hlp (lookup_insert _ _ _)).
      change (nd_child (mk_dat d ks)) with (child_of d ks). rewrite Hchild.
      mn. rewrite run_set_prev_bind by (auto || (rewrite is_Some_upd_next; auto)).
      mn. rewrite run_set_next_bind by (auto || (rewrite is_Some_upd_prev, is_Some_upd_next; auto)).
      mn. rewrite run_set_prev_bind by (auto || (rewrite is_Some_upd_next, is_Some_upd_prev, is_Some_upd_next; auto)).
      apply Hfin.
      * rewrite upd_prev_next_reset by (rewrite is_Some_upd_prev, is_Some_upd_next; auto). unfold L2, L1.
        rewrite upd_next_union_l by (apply focus_left_is_Some; auto).
        rewrite upd_prev_union_l by (rewrite is_Some_upd_next; apply focus_left_is_Some; auto).
        rewrite insert_union_l. f_equal.
        rewrite (links_replace_last ks (S k') y r pv c0 NDrks ltac:(lia) Hky Hn Hpv) by (by rewrite head_lookup).
        rewrite Hla. by rewrite insert_delete_insert.
      * unfold D1. by rewrite Hdat.
Qed.
