(** PatchHeapSteps.v — the invariant [MInv] (MergeHeapInv.v) along the steps of the heap-level JSON Patch code:
    * [NoLeakX h F X]: every live library block is owned by the forest or is one of the temporaries [X] (the
      strdup'ed copy of the path lives between its allocation and the [cleanup] label);
    * [MInv_frame]: changes outside the forest's blocks; [MInv_relink]: a relinking step ([upd_maps]);
    * the temporary string block: allocation ([temp_alloc]), writes ([temp_write]), release ([temp_free]);
    * containers DEEP in the document: the edit [set_children p cs' (G ++ [doc])] is [put_t] along the path. *)
From CJ Require Import Base Dbl Heap Forest ForestLemmas CoreSpec CoreDefs CoreRefineBase CoreRefine CoreRefineMore
  CoreRefineDelete CoreRefineReplace CoreRefineObject CoreRefineByKey CoreRefineFrame CoreRefineHistory CoreRefineAddObject
  CoreRefineCreate CoreRefineDupValue CoreLedgerGen.
From CJ Require Import TierBridgeDefs TierBridgeForest TierBridgeLemmas TierBridgeUtilsDefs TierBridgeUtils TierBridgeE2E2
  MergeHeapDefs MergeHeapInv PatchHeapDefs PatchHeapPath PatchHeapPointer PatchHeapStr.
From CJ Require Tree PointerDefs PatchDefs SortSpec PatchProofs.
From CJ.gen Require Import Constants.
From stdpp Require Import gmap.
From Coq Require Import Lia.
Local Open Scope Z_scope.

(** * the ledger with temporaries *)
Definition NoLeakX (h : heap) (F : forest) (X : list positive) : Prop :=
  forall b, b ∈ lib_live h -> b ∈ owned F \/ b ∈ X.
Lemma NoLeakX_nil h F : NoLeakX h F [] <-> NoLeak h F.
Proof.
  split.
  - intros H b Hb. destruct (H b Hb) as [?|Hx]; [done|by apply elem_of_nil in Hx].
  - intros H b Hb. left. by apply H.
Qed.
Lemma NoLeakX_upd_maps h F F' L D X : owned F' ≡ₚ owned F -> NoLeakX h F X -> NoLeakX (upd_maps h L D) F' X.
Proof. intros HP NL b Hb. rewrite HP. by apply NL. Qed.
Lemma NoLeakX_perm h F F' X : F ≡ₚ F' -> NoLeakX h F X -> NoLeakX h F' X.
Proof.
  intros HP NL b Hb. destruct (NL b Hb) as [Ho|?]; [left|by right].
  unfold owned in *. by rewrite <- (flat_proper _ _ HP).
Qed.

(** * changes outside the forest's blocks *)
Lemma MInv_frame h h' F :
  MInv h F -> HeapOK h' -> h_lnk h' = h_lnk h -> h_dat h' = h_dat h ->
  (forall b, b ∈ owned F -> h_str h' !! b = h_str h !! b /\ b ∈ h_live h' /\ h_own h' !! b = Some Lib) ->
  (h_next h <= h_next h')%positive -> MInv h' F.
Proof.
  intros I K El Ed Hb Hn. pose proof (mi_wf _ _ I) as W.
  assert (W' : WF h' F).
  { constructor; try apply W.
    - rewrite El. apply W.
    - rewrite Ed. apply W.
    - intros b Ho. by apply Hb.
    - intros b Ho. by apply Hb.
    - intros b Ho. pose proof (wf_fresh _ _ W b Ho). lia. }
  apply (MInv_build h h' F F I W' K); [by left|]. intros b Ho _. by apply Hb.
Qed.

(** * a relinking step *)
Lemma MInv_relink h F F' L D :
  MInv h F -> WF (upd_maps h L D) F' -> HeapOK (upd_maps h L D) -> datas F' ≡ₚ datas F -> MInv (upd_maps h L D) F'.
Proof.
  intros I W' K HD. apply (MInv_build h _ F F' I W' K).
  - intros e He. left. by rewrite <- HD.
  - by intros b _ _.
Qed.
Lemma owned_of_datas_perm F F' : datas F' ≡ₚ datas F -> owned F' ≡ₚ owned F.
Proof. intros HD. by rewrite !owned_datas, HD. Qed.

(** * the temporary string block *)
Lemma alloc_bytes_nofail c h : alloc_bytes nofail c h = Ret (Some (h_next h), alloc_str h c).
Proof. reflexivity. Qed.

Lemma MInv_fresh_block h F : MInv h F -> h_next h ∉ owned F /\ h_str h !! h_next h = None /\ h_next h ∉ h_live h.
Proof.
  intros I. pose proof (mi_ok _ _ I) as K. split; [|split].
  - intros Hin. exact (Pos.lt_irrefl _ (wf_fresh _ _ (mi_wf _ _ I) _ Hin)).
  - destruct (h_str h !! h_next h) eqn:E; [|done]. destruct (hk_str _ K (h_next h) ltac:(eauto)) as [Hl _].
    pose proof (hk_live _ K _ Hl). lia.
  - intros Hl. pose proof (hk_live _ K _ Hl). lia.
Qed.

Lemma temp_alloc h F c :
  MInv h F ->
  let B := h_next h in let h1 := alloc_str h c in
  MInv h1 F /\ B ∉ owned F /\ (forall X, NoLeakX h F X -> NoLeakX h1 F (B :: X)) /\
  B ∈ h_live h1 /\ h_own h1 !! B = Some Lib /\ h_str h1 = <[B := c]> (h_str h).
Proof.
  intros I B h1. destruct (MInv_fresh_block _ _ I) as (Hno & Hns & Hnl). fold B in Hno, Hns, Hnl.
  split; [|split; [done|split; [|split; [|split]]]].
  - apply (MInv_frame h h1 F I); try done.
    + exact (Cons_ok _ _ _ _ (Cons_alloc_bytes nofail c) (alloc_bytes_nofail c h) (mi_ok _ _ I)).
    + intros b Hb. assert (b <> B) by (by intros ->). unfold h1. cbn. rewrite !lookup_insert_ne by done.
      split; [done|]. split; [|by apply (wf_owned_lib _ _ (mi_wf _ _ I))].
      apply elem_of_union_r. by apply (wf_owned_live _ _ (mi_wf _ _ I)).
    + unfold h1. cbn. lia.
  - intros X NL b Hb. unfold lib_live in Hb. apply elem_of_filter in Hb as [Hb1 Hb2]. unfold h1 in Hb1, Hb2. cbn in Hb1, Hb2.
    destruct (decide (b = B)) as [-> |Hne]; [right; by left|]. rewrite lookup_insert_ne in Hb1 by done.
    assert (Hbl : b ∈ h_live h) by set_solver.
    destruct (NL b) as [?|?]; [by apply elem_of_filter|by left|right; by right].
  - unfold h1. cbn. set_solver.
  - unfold h1. cbn. by rewrite lookup_insert.
  - done.
Qed.

Lemma HeapOK_set_str h (B : positive) c' : HeapOK h -> is_Some (h_str h !! B) -> HeapOK (set_str h (<[B := c']> (h_str h))).
Proof.
  intros K HB. constructor; cbn.
  - apply K.
  - intros b Hb. destruct (decide (b = B)) as [-> |Hne]; [by apply (hk_str _ K)|].
    rewrite lookup_insert_ne in Hb by done. by apply (hk_str _ K).
  - apply K.
Qed.

Lemma temp_write h F (B : positive) c' :
  MInv h F -> B ∉ owned F -> is_Some (h_str h !! B) ->
  let h' := set_str h (<[B := c']> (h_str h)) in
  MInv h' F /\ (forall X, NoLeakX h F X -> NoLeakX h' F X).
Proof.
  intros I Hno HB h'. split.
  - apply (MInv_frame h h' F I); try done.
    + by apply HeapOK_set_str; [apply I|].
    + intros b Hb. assert (b <> B) by (by intros ->). unfold h'. cbn. rewrite lookup_insert_ne by done.
      split; [done|]. split; [by apply (wf_owned_live _ _ (mi_wf _ _ I))|by apply (wf_owned_lib _ _ (mi_wf _ _ I))].
  - intros X NL b Hb. by apply NL.
Qed.

Lemma temp_free h F (B : positive) :
  MInv h F -> B ∉ owned F -> B ∈ h_live h -> h_own h !! B = Some Lib ->
  free_block (Some B) h = Ret (tt, free1 B h) /\ MInv (free1 B h) F /\
  (forall X, NoLeakX h F (B :: X) -> NoLeakX (free1 B h) F X) /\
  h_str (free1 B h) = delete B (h_str h) /\ h_next (free1 B h) = h_next h.
Proof.
  intros I Hno Hl Hown. pose proof (run_free_block h B Hl Hown) as Hrun. pose proof (mi_wf _ _ I) as W.
  assert (Hni : B ∉ ids F) by (intros Hin; by apply Hno, ids_subseteq_owned).
  split; [exact Hrun|]. split; [|split; [|done]].
  - apply (MInv_frame h _ F I).
    + exact (Cons_ok _ _ _ _ (Cons_free_block (Some B)) Hrun (mi_ok _ _ I)).
    + cbn. apply delete_notin. rewrite (wf_lnk _ _ W). by apply heap_lnk_of_lookup_None.
    + cbn. apply delete_notin. rewrite (wf_dat _ _ W). by apply heap_dat_of_lookup_None.
    + intros b Hb. assert (b <> B) by (by intros ->). cbn. rewrite lookup_delete_ne by done.
      split; [done|]. split; [|by apply (wf_owned_lib _ _ W)].
      apply elem_of_difference. split; [by apply (wf_owned_live _ _ W)|set_solver].
    + cbn. lia.
  - intros X NL b Hb. unfold lib_live in Hb. apply elem_of_filter in Hb as [Hb1 Hb2]. cbn in Hb1, Hb2.
    apply elem_of_difference in Hb2 as [Hb2 Hb3].
    destruct (NL b) as [?|Hx]; [by apply elem_of_filter|by left|].
    apply elem_of_cons in Hx as [->|?]; [set_solver|by right].
Qed.

(** the string heap after "allocate the copy, write it, release it" is the string heap before *)
Lemma delete_insert_fresh {A} (m : gmap positive A) (B : positive) (v : A) : m !! B = None -> delete B (<[B := v]> m) = m.
Proof. intros H. by rewrite delete_insert. Qed.

(** * reading the copy of the path after the split *)
Lemma cstr_app_zfree (a r : bytes) : SortSpec.zfree a -> cstr (a ++ 0 :: r) = a.
Proof. intros Hz. by apply cstr_app_zero. Qed.
Lemma zfree_take (a : bytes) (n : nat) : SortSpec.zfree a -> SortSpec.zfree (take n a).
Proof. intros H. by apply Forall_take. Qed.
Lemma zfree_drop (a : bytes) (n : nat) : SortSpec.zfree a -> SortSpec.zfree (drop n a).
Proof. intros H. by apply Forall_drop. Qed.
Lemma existsb_zero_app_zero (a r : bytes) : existsb (Z.eqb 0) (a ++ 0 :: r) = true.
Proof. rewrite existsb_app. cbn. by rewrite orb_true_r. Qed.

Lemma last_slash_lt p : forall (i0 : nat) acc (i : nat), PatchDefs.last_slash p i0 acc = Some i ->
  (acc = Some i) \/ (i0 <= i < i0 + length p)%nat.
Proof.
  induction p as [|c r IH]; intros i0 acc i; cbn [PatchDefs.last_slash]; [by left|].
  intros H. destruct (IH _ _ _ H) as [Ha|Hr]; [|right; cbn; lia].
  destruct (c =? 47); [|by left]. injection Ha as <-. right. cbn. lia.
Qed.
Lemma last_slash_bound p (i : nat) : PatchDefs.last_slash p 0 None = Some i -> (i < length p)%nat.
Proof. intros H. destruct (last_slash_lt _ _ _ _ H) as [?|?]; [done|lia]. Qed.

(** the block [path ++ [0]] with the byte at [i] set to 0 *)
Lemma upd_split (path : bytes) (i : nat) : (i < length path)%nat ->
  upd (path ++ [0]) i 0 = take i path ++ 0 :: drop (S i) path ++ [0].
Proof.
  intros Hi. unfold upd. rewrite firstn_app, skipn_app. replace (i - length path)%nat with 0%nat by lia.
  replace (S i - length path)%nat with 0%nat by lia. cbn [firstn skipn]. by rewrite app_nil_r.
Qed.
Lemma drop_split_tail (path : bytes) (i : nat) : (i < length path)%nat ->
  drop (S i) (take i path ++ 0 :: drop (S i) path ++ [0]) = drop (S i) path ++ [0].
Proof.
  intros Hi. rewrite drop_app_ge by (rewrite take_length; lia). rewrite take_length.
  replace (S i - i `min` length path)%nat with 1%nat by lia. done.
Qed.
Lemma take_split_head (path : bytes) (i : nat) : (i < length path)%nat ->
  take (S i) (take i path ++ 0 :: drop (S i) path ++ [0]) = take i path ++ [0].
Proof.
  intros Hi. rewrite take_app_ge by (rewrite take_length; lia). rewrite take_length.
  replace (S i - i `min` length path)%nat with 1%nat by lia. done.
Qed.

(** * decode_pointer_inplace leaves a terminated buffer *)
Lemma dpi_last_zero : forall fuel buf s d b',
  PatchDefs.dpi_loop fuel buf s d = Ok b' -> (d <= s)%nat -> last buf = Some 0 -> last b' = Some 0 /\ length b' = length buf.
Proof.
  induction fuel as [|f IH]; intros buf s d b'; [done|]. cbn [PatchDefs.dpi_loop]. unfold rd, wr.
  destruct (nth_error buf s) as [c|] eqn:Es; cbn [bind]; [|done]. intros H Hds Hlast.
  assert (Hs : (s < length buf)%nat) by (apply nth_error_Some; congruence).
  assert (Hupd : forall v, (d < length buf - 1)%nat \/ v = 0 -> last (upd buf d v) = Some 0 /\ length (upd buf d v) = length buf).
  { intros v Hv. assert (Hd : (d < length buf)%nat) by lia. unfold bytes in *.
    assert (E : upd buf d v = <[d := v]> buf) by (unfold upd; symmetry; apply insert_take_drop; lia).
    rewrite E. split; [|apply insert_length].
    rewrite last_lookup, insert_length. rewrite last_lookup in Hlast.
    destruct (decide (d = pred (length buf))) as [-> |Hne].
    - rewrite list_lookup_insert by lia. destruct Hv as [?| ->]; [lia|done].
    - rewrite list_lookup_insert_ne by done. exact Hlast. }
  assert (Hc0 : s = (length buf - 1)%nat -> c = 0).
  { intros ->. rewrite last_lookup in Hlast. rewrite nth_error_lookup' in Es.
    replace (pred (length buf)) with (length buf - 1)%nat in Hlast by lia. congruence. }
  destruct (Z.eqb_spec c 0) as [->|Hc].
  - destruct (Nat.ltb_spec d (length buf)) as [_|]; [|done]. injection H as <-. apply Hupd. by right.
  - assert (Hs1 : (s < length buf - 1)%nat) by (destruct (decide (s = (length buf - 1)%nat)) as [E|]; [by apply Hc0 in E|lia]).
    destruct (c =? 126).
    + destruct (nth_error buf (S s)) as [c1|] eqn:Es1; cbn [bind] in H; [|done].
      destruct (Nat.ltb_spec d (length buf)) as [_|]; [|lia].
      destruct (c1 =? 48).
      * cbn [bind] in H. destruct (Hupd 126 ltac:(left; lia)) as [U1 U2].
        destruct (IH _ _ _ _ H ltac:(lia) U1) as [R1 R2]. split; [done|congruence].
      * destruct (c1 =? 49).
        -- cbn [bind] in H. destruct (Hupd 47 ltac:(left; lia)) as [U1 U2].
           destruct (IH _ _ _ _ H ltac:(lia) U1) as [R1 R2]. split; [done|congruence].
        -- injection H as <-. done.
    + destruct (Nat.ltb_spec d (length buf)) as [_|]; [|lia]. cbn [bind] in H.
      destruct (Hupd c ltac:(left; lia)) as [U1 U2].
      destruct (IH _ _ _ _ H ltac:(lia) U1) as [R1 R2]. split; [done|congruence].
Qed.

Lemma last_Some_existsb (b : bytes) : last b = Some 0 -> existsb (Z.eqb 0) b = true.
Proof.
  intros H. apply existsb_exists. exists 0. split; [|done]. apply elem_of_list_In.
  rewrite last_lookup in H. by eapply elem_of_list_lookup_2.
Qed.

Lemma decode_pointer_inplace_terminated (t : bytes) :
  exists b, PatchDefs.decode_pointer_inplace (t ++ [0]) = Ok b /\ length b = length (t ++ [0]) /\ existsb (Z.eqb 0) b = true.
Proof.
  destruct (PatchProofs.decode_pointer_inplace_safe t) as (b & Hb & Hl). exists b. split; [done|]. split; [done|].
  unfold PatchDefs.decode_pointer_inplace in Hb. apply last_Some_existsb.
  apply (dpi_last_zero _ _ _ _ _ Hb); [lia|]. by rewrite last_snoc.
Qed.

(** * between the allocation of the temporary [B] and its release *)
Record Mid (NL0 : Prop) (B : positive) (hm : heap) (F : forest) : Prop := mkMid {
  md_inv : MInv hm F;
  md_fresh : B ∉ owned F;
  md_live : B ∈ h_live hm;
  md_own : h_own hm !! B = Some Lib;
  md_isstr : is_Some (h_str hm !! B);
  md_leak : NL0 -> NoLeakX hm F [B]
}.

Lemma Mid_alloc h F c : MInv h F -> Mid (NoLeak h F) (h_next h) (alloc_str h c) F.
Proof.
  intros I. destruct (temp_alloc h F c I) as (I1 & Hno & NL & Hl & Ho & Hs). constructor; [done|done|done|done|..].
  - rewrite Hs, lookup_insert. by eexists.
  - intros NL0. apply NL. by apply NoLeakX_nil.
Qed.

Lemma Mid_write NL0 B hm F c' : Mid NL0 B hm F -> Mid NL0 B (set_str hm (<[B := c']> (h_str hm))) F.
Proof.
  intros [I Hno Hl Ho Hs NL]. destruct (temp_write hm F B c' I Hno Hs) as [I' NL']. constructor; [done|done|done|done|..].
  - cbn. rewrite lookup_insert. by eexists.
  - intros H. by apply NL', NL.
Qed.

Lemma Mid_relink NL0 B hm F F' L D :
  Mid NL0 B hm F -> WF (upd_maps hm L D) F' -> HeapOK (upd_maps hm L D) -> datas F' ≡ₚ datas F ->
  Mid NL0 B (upd_maps hm L D) F'.
Proof.
  intros [I Hno Hl Ho Hs NL] W' K HD. pose proof (owned_of_datas_perm _ _ HD) as HO. constructor; [|  |done|done|done|].
  - by apply (MInv_relink hm F F' L D).
  - by rewrite HO.
  - intros H. by apply (NoLeakX_upd_maps hm F F' L D [B] HO), NL.
Qed.

Lemma Mid_free {A} NL0 B hm F (r : A) :
  Mid NL0 B hm F ->
  (cJSON_free (Some B) ;;; ret r) hm = Ret (r, free1 B hm) /\ MInv (free1 B hm) F /\
  (NL0 -> NoLeak (free1 B hm) F) /\ h_str (free1 B hm) = delete B (h_str hm) /\ h_next (free1 B hm) = h_next hm.
Proof.
  intros [I Hno Hl Ho Hs NL]. destruct (temp_free hm F B I Hno Hl Ho) as (Hrun & I' & NL' & E1 & E2).
  split; [unfold cJSON_free; by rewrite (bindM_Ret _ _ _ _ _ Hrun)|]. split; [done|]. split; [|done].
  intros H. apply NoLeakX_nil, NL', NL, H.
Qed.

(** reading the forest through a string heap that differs from [St] only at the temporary *)
Lemma reify_temp St (B : positive) c F t :
  (forall e, e ∈ datas F -> node_owns e.2) -> B ∉ owned F -> t ∈ nodes F -> reify (<[B := c]> St) t = reify St t.
Proof. intros Ho Hno Ht. apply reify_insert_fresh. intros Hin. apply Hno. by eapply str_blocks_in_owned. Qed.
