(** MergeHeapConform.v — the C18 theorems about the value-level model, transferred to the HEAP-level code by
    [MergeHeapProofs.merge_patch_refines]: on a heap that satisfies [MInv], for a target and a patch whose
    reifications are JSON documents in the sense of C18 ([m7396_doc]: distinct C-string member names, non-NaN
    numbers, …) and a patch below the duplication depth limit, [cJSONUtils_MergePatchCaseSensitive] run on the
    heap returns a root whose reification is the RFC 7396 result ([doc_eq], and member for member up to
    ownership flags).  The two side conditions of the refinement theorem follow from the C18 hypotheses:
    [m7396_depth_ok] gives the height bound, [m7396_doc] gives [members_keyed]. *)
From CJ Require Import Base Dbl Heap Forest ForestLemmas CoreDefs CoreRefineDupValue CoreRefineDupForest CoreRefineDup.
From CJ Require Import TierBridgeDefs TierBridgeLemmas TierBridgeEndToEndStr MergeHeapDefs MergeHeapInv MergeHeapProofs.
From CJ Require Tree CompareDefs MergeDefs Rfc7396 MergeProofs.
From CJ.gen Require Import Constants.
From stdpp Require Import gmap.
From Coq Require Import Lia.
Local Open Scope Z_scope.

Lemma depth_ok_height St tp :
  Rfc7396.m7396_depth_ok (reify St tp) = true -> (height tp <= Z.to_nat c_CJSON_CIRCULAR_LIMIT)%nat.
Proof.
  unfold Rfc7396.m7396_depth_ok. rewrite height_node_depth. intros H. apply Z.leb_le in H.
  pose proof limit_nonneg. lia.
Qed.

Lemma doc_members_keyed St tp : Rfc7396.m7396_doc (reify St tp) = true -> members_keyed tp.
Proof.
  induction tp as [pp dp cps IH] using tree_ind'. intros H i d cs Hn Hobj c Hc.
  rewrite reify_unfold in H. cbn [Rfc7396.m7396_doc] in H.
  apply andb_true_iff in H as [H Hrec]. apply andb_true_iff in H as [H _]. apply andb_true_iff in H as [_ Hmem].
  rewrite nodes_t_unfold in Hn. apply elem_of_cons in Hn as [Hn|Hn].
  - injection Hn as -> -> ->. rewrite Hobj in Hmem. cbn [Z.eqb] in Hmem.
    replace (c_cJSON_Object =? c_cJSON_Object) with true in Hmem by reflexivity.
    apply andb_true_iff in Hmem as [Hmem _]. rewrite forallb_forall in Hmem.
    specialize (Hmem (reify St c) ltac:(apply in_map; by apply elem_of_list_In)).
    destruct c as [ci dc ccs]. rewrite reify_unfold in Hmem. cbn [Tree.n_key tdata] in *.
    intros E. rewrite E in Hmem. cbn in Hmem. discriminate.
  - apply elem_of_nodes in Hn as (c0 & Hc0 & Hn). rewrite Forall_forall in IH.
    rewrite forallb_forall in Hrec.
    apply (IH c0 Hc0 (Hrec (reify St c0) ltac:(apply in_map; by apply elem_of_list_In)) i d cs Hn Hobj c Hc).
Qed.

(** RFC 7396 conformance of the heap-level code (case-sensitive entry point) *)
Theorem c18_heap_conform h F (tgt : option tree) pp tp :
  MInv h F ->
  (forall tx, tgt = Some tx -> find_root (tid tx) F = Some tx) ->
  let G := rest_of F tgt in
  find_tree pp G = Some tp ->
  (forall tx, tgt = Some tx -> Rfc7396.m7396_doc (reify (h_str h) tx) = true) ->
  Rfc7396.m7396_doc (reify (h_str h) tp) = true ->
  Rfc7396.m7396_depth_ok (reify (h_str h) tp) = true ->
  exists h' ty,
    MergeHeapDefs.cJSONUtils_MergePatchCaseSensitive nofail (tid <$> tgt) (Some pp) h = Ret (Some (tid ty), h') /\
    MInv h' (G ++ [ty]) /\ find_root (tid ty) (G ++ [ty]) = Some ty /\
    find_tree pp (G ++ [ty]) = Some tp /\ reify (h_str h') tp = reify (h_str h) tp /\
    Rfc7396.doc_eq (reify (h_str h') ty) (Rfc7396.merge (reify (h_str h) <$> tgt) (reify (h_str h) tp)) = true /\
    CompareDefs.strip_flags (reify (h_str h') ty) =
      CompareDefs.strip_flags (Rfc7396.merge (reify (h_str h) <$> tgt) (reify (h_str h) tp)) /\
    (NoLeak h F -> NoLeak h' (G ++ [ty])).
Proof.
  intros I Htgt G HpG Dt Dp Hd.
  destruct (merge_patch_refines true h F tgt pp tp I Htgt HpG (depth_ok_height _ _ Hd) (doc_members_keyed _ _ Dp))
    as (h' & ty & Hrun & I' & Hp' & Ep & Hr & V & NL & _).
  exists h', ty. split; [exact Hrun|]. split; [exact I'|]. split; [exact Hr|]. split; [exact Hp'|]. split; [exact Ep|].
  assert (Hc : Rfc7396.doc_eq (reify (h_str h') ty) (Rfc7396.merge (reify (h_str h) <$> tgt) (reify (h_str h) tp)) = true /\
               CompareDefs.strip_flags (reify (h_str h') ty) =
               CompareDefs.strip_flags (Rfc7396.merge (reify (h_str h) <$> tgt) (reify (h_str h) tp))).
  { destruct tgt as [tx|]; cbn [fmap option_fmap option_map] in *.
    - destruct (MergeProofs.c18_apply _ _ (Dt tx eq_refl) Dp Hd) as (r & Er & H1 & H2).
      unfold MergeDefs.cJSONUtils_MergePatchCaseSensitive in Er. rewrite V in Er. injection Er as <-. by split.
    - destruct (MergeProofs.c18_apply_absent _ Dp Hd) as (r & Er & H1 & H2).
      unfold MergeDefs.cJSONUtils_MergePatchCaseSensitive in Er. rewrite V in Er. injection Er as <-. by split. }
  destruct Hc as [H1 H2]. by split_and!.
Qed.
