#!/usr/bin/env python3
"""trial.py <pid> [seed-dir-name] — development helper: correspondence + verdict only (no proof step),
optionally with a seeded patch applied to /repo (always reverted afterwards)."""
import sys, os, importlib, tempfile, subprocess, time, shutil
sys.path.insert(0, os.path.dirname(os.path.abspath(__file__)))
import check
pid = sys.argv[1]; seed = sys.argv[2] if len(sys.argv) > 2 else None
tier = os.environ.get('VERIF_TIER', 'quick')
scratch = None
if seed:
    # the seeded change is applied to a scratch COPY of /repo's sources (never to /repo itself)
    scratch = tempfile.mkdtemp(prefix='cjseed_')
    for f in ('cJSON.c', 'cJSON.h', 'cJSON_Utils.c', 'cJSON_Utils.h'): shutil.copy('/repo/' + f, scratch)
    rc = subprocess.call(['git', 'apply', '--include=cJSON*', '/verif/seeded/%s/patch.diff' % seed], cwd=scratch)
    if rc: shutil.rmtree(scratch); sys.exit('patch does not apply')
    check.REPO = scratch
try:
    mod = importlib.import_module('props.' + pid)
    tmp = tempfile.mkdtemp(); log = []
    area = getattr(mod, 'AREA', 'base'); areas = list(getattr(mod, 'AREAS', [area])); flags = getattr(mod, 'IMPL_FLAGS', '')
    impls = {a: check.build_impl(tmp, log, area=a, name='impl_' + a, extra_flags=(flags.get(a, '') if isinstance(flags, dict) else flags)) for a in areas}
    models = {a: '/verif/ocaml/driver_' + a for a in areas}
    ctx = {'tmp': tmp, 'tier': tier, 'seed': int(os.environ.get('VERIF_SEED', '1')), 'verif': '/verif', 'impl': impls[areas[0]], 'model': models[areas[0]],
           'impls': impls, 'models': models, 'run_driver': check.run_driver, 'build_impl': check.build_impl, 'sh': check.sh, 'log': log, 'repo': check.REPO}
    cases = mod.corpus(ctx) + mod.generate(ctx)
    lines = [c.line for c in cases]
    def run_by_area(exes):
        outs = [None] * len(cases)
        for a in areas:
            idx = [i for i, c in enumerate(cases) if c.info.get('area', areas[0]) == a]
            if not idx: continue
            o, _ = check.run_driver(exes[a], [lines[i] for i in idx], tmp)
            for i, r in zip(idx, o): outs[i] = r
        return [x if x is not None else 'NOOUTPUT' for x in outs]
    t = time.time(); io = run_by_area(impls); t1 = time.time(); mo = run_by_area(models); t2 = time.time()
    bad = mism = 0
    for c, i, m in zip(cases, io, mo):
        v = mod.verdict(c, i, ctx)
        if v:
            bad += 1
            if bad < 4: print(pid, 'VERDICT', v, '|', c.line[:220], '|', i[:200])
        elif mod.project(c, i) != mod.project(c, m):
            mism += 1
            if mism < 4: print(pid, 'MISMATCH', c.line[:300], '| impl:', i[:300], '| model:', m[:300])
    if hasattr(mod, 'extra_checks'):
        ex = mod.extra_checks(ctx); print('extra:', ex.get('violations'))
    print(pid, 'seed', seed, 'cases', len(cases), 'verdict failures', bad, 'mismatches', mism, 'impl %.1fs model %.1fs' % (t1 - t, t2 - t1), 'specdiff', sum('SPECDIFF' in m for m in mo), log)
    shutil.rmtree(tmp, ignore_errors=True)
finally:
    if scratch: shutil.rmtree(scratch, ignore_errors=True)
