(** PatchExact.v — an EXACT equivalence of documents, [doc_same], to carry along a sequence of
    JSON Patch operations: same masked type, identical integer view, identical double (the model
    copies numbers, it never computes on them), identical string, children pointwise in order —
    except for objects, whose member lists have the same length and the same name -> value pairs
    (for distinct names: one list is a permutation of the other).  Unlike [doc_eq] (whose number
    equality [compare_double] is a tolerance) it is reflexive, symmetric and TRANSITIVE; it
    implies [doc_eq] on NaN-free documents; it transports [dwf], depth; [doc_eq]/[doc_eqb] are
    invariant under it in both arguments. *)
From Coq Require Import Lia ZArith List Bool Permutation.
From CJ Require CompareProofs.
From CJ Require Import Base Dbl Tree PointerDefs PointerProofs CompareDefs PatchDefs PatchProofs PatchRobust Rfc6902
  PatchConform PatchOps PatchApply PatchSort PatchTest PatchMove PatchSeq PatchGen PatchEq PatchRound PatchObj.
Import ListNotations.
Local Open Scope Z_scope.

Inductive doc_same : node -> node -> Prop :=
| ds_intro a b :
    tymask (n_ty a) = tymask (n_ty b) -> n_vint a = n_vint b -> n_vdbl a = n_vdbl b -> n_vstr a = n_vstr b ->
    (tymask (n_ty a) <> c_cJSON_Object -> Forall2 doc_same (n_children a) (n_children b)) ->
    (tymask (n_ty a) = c_cJSON_Object ->
       length (n_children a) = length (n_children b) /\
       Forall (fun x => Exists (fun y => n_key x = n_key y /\ doc_same x y) (n_children b)) (n_children a) /\
       Forall (fun y => Exists (fun x => n_key x = n_key y /\ doc_same x y) (n_children a)) (n_children b)) ->
    doc_same a b.

(* members: same name, same value *)
Definition msame (x y : node) : Prop := n_key x = n_key y /\ doc_same x y.
(* member lists as name -> value sets *)
Definition osame (l1 l2 : list node) : Prop :=
  length l1 = length l2 /\
  Forall (fun x => Exists (fun y => msame x y) l2) l1 /\
  Forall (fun y => Exists (fun x => msame x y) l1) l2.

Lemma doc_same_inv a b : doc_same a b ->
  tymask (n_ty a) = tymask (n_ty b) /\ n_vint a = n_vint b /\ n_vdbl a = n_vdbl b /\ n_vstr a = n_vstr b /\
  (tymask (n_ty a) <> c_cJSON_Object -> Forall2 doc_same (n_children a) (n_children b)) /\
  (tymask (n_ty a) = c_cJSON_Object -> osame (n_children a) (n_children b)).
Proof. intro H. inversion H; subst. repeat split; try assumption; apply H5; assumption. Qed.

Lemma doc_same_mk a b :
  tymask (n_ty a) = tymask (n_ty b) -> n_vint a = n_vint b -> n_vdbl a = n_vdbl b -> n_vstr a = n_vstr b ->
  (tymask (n_ty a) <> c_cJSON_Object -> Forall2 doc_same (n_children a) (n_children b)) ->
  (tymask (n_ty a) = c_cJSON_Object -> osame (n_children a) (n_children b)) ->
  doc_same a b.
Proof. intros. apply ds_intro; try assumption. Qed.

(** ---------- list helpers ---------- *)
Lemma F2_refl_in {A} (R : A -> A -> Prop) l : Forall (fun x => R x x) l -> Forall2 R l l.
Proof. induction 1; constructor; assumption. Qed.
Lemma F2_sym_in {A} (R : A -> A -> Prop) l1 l2 :
  Forall (fun x => forall y, R x y -> R y x) l1 -> Forall2 R l1 l2 -> Forall2 R l2 l1.
Proof.
  intros H F. induction F as [|x y l1 l2 Hxy F IH]; [constructor|].
  inversion H; subst. constructor; [auto | apply IH; assumption].
Qed.
Lemma F2_trans_in {A} (R : A -> A -> Prop) l1 : forall l2 l3,
  Forall (fun x => forall y z, R x y -> R y z -> R x z) l1 -> Forall2 R l1 l2 -> Forall2 R l2 l3 -> Forall2 R l1 l3.
Proof.
  induction l1 as [|x l1 IH]; intros l2 l3 H F1 F2; inversion F1; subst; inversion F2; subst; [constructor|].
  inversion H; subst. constructor; [eauto | eapply IH; eassumption].
Qed.
(* composition with another relation, hypotheses on the elements of the first list *)
Lemma F2_comp_in {A B C} (R : A -> B -> Prop) (S : B -> C -> Prop) (T : A -> C -> Prop) l1 : forall l2 l3,
  Forall (fun x => forall y z, R x y -> S y z -> T x z) l1 -> Forall2 R l1 l2 -> Forall2 S l2 l3 -> Forall2 T l1 l3.
Proof.
  induction l1 as [|x l1 IH]; intros l2 l3 H F1 F2; inversion F1; subst; inversion F2; subst; [constructor|].
  inversion H; subst. constructor; [eauto | eapply IH; eassumption].
Qed.
Lemma F2_in_r {A B} (R : A -> B -> Prop) l1 l2 y : Forall2 R l1 l2 -> In y l2 -> exists x, In x l1 /\ R x y.
Proof.
  induction 1 as [|a b l1 l2 Hab F IH]; intro Hy; [contradiction|].
  destruct Hy as [Hy|Hy]; [subst; exists a; split; [left; reflexivity | exact Hab]|].
  destruct (IH Hy) as (x & Hx & Hr). exists x. split; [right; exact Hx | exact Hr].
Qed.
Lemma F2_nth_l {A B} (R : A -> B -> Prop) l1 l2 : Forall2 R l1 l2 -> forall i x, nth_error l1 i = Some x ->
  exists y, nth_error l2 i = Some y /\ R x y.
Proof.
  induction 1 as [|a b l1 l2 Hab F IH]; intros i x N; [destruct i; discriminate|].
  destruct i as [|i]; cbn [nth_error] in *; [inversion N; subst; exists b; split; [reflexivity | exact Hab] | apply IH; exact N].
Qed.

(** ---------- equivalence ---------- *)
Lemma doc_same_refl : forall n, doc_same n n.
Proof.
  induction n as [ty vs vi vd k cs IH] using node_ind'.
  apply doc_same_mk; try reflexivity; cbn [n_ty n_children]; intros _.
  - apply F2_refl_in. exact IH.
  - rewrite Forall_forall in IH. split; [reflexivity|]. split; rewrite Forall_forall; intros x Hx; apply Exists_exists; exists x;
      (split; [exact Hx | split; [reflexivity | apply IH; exact Hx]]).
Qed.

Lemma doc_same_sym : forall a b, doc_same a b -> doc_same b a.
Proof.
  induction a as [ty vs vi vd k cs IH] using node_ind'. intros b H.
  apply doc_same_inv in H. cbn [n_ty n_vint n_vdbl n_vstr n_children] in H. destruct H as (T & I & D & S & A & O).
  apply doc_same_mk; cbn [n_ty n_vint n_vdbl n_vstr n_children]; try (symmetry; assumption).
  - intro Hn. rewrite <- T in Hn. apply (F2_sym_in doc_same cs); [exact IH | apply A; exact Hn].
  - intro Ho. rewrite <- T in Ho. destruct (O Ho) as (L & F1 & F2). rewrite Forall_forall in IH, F1, F2.
    split; [symmetry; exact L|]. split; rewrite Forall_forall.
    + intros y Hy. specialize (F2 y Hy). apply Exists_exists in F2. destruct F2 as (x & Hx & Ek & Hs).
      apply Exists_exists. exists x. split; [exact Hx|]. split; [symmetry; exact Ek | apply IH; assumption].
    + intros x Hx. specialize (F1 x Hx). apply Exists_exists in F1. destruct F1 as (y & Hy & Ek & Hs).
      apply Exists_exists. exists y. split; [exact Hy|]. split; [symmetry; exact Ek | apply IH; assumption].
Qed.

Lemma doc_same_trans : forall a b c, doc_same a b -> doc_same b c -> doc_same a c.
Proof.
  induction a as [ty vs vi vd k cs IH] using node_ind'. intros b c H1 H2.
  apply doc_same_inv in H1. cbn [n_ty n_vint n_vdbl n_vstr n_children] in H1. destruct H1 as (T1 & I1 & D1 & S1 & A1 & O1).
  apply doc_same_inv in H2. destruct H2 as (T2 & I2 & D2 & S2 & A2 & O2).
  apply doc_same_mk; cbn [n_ty n_vint n_vdbl n_vstr n_children]; try congruence.
  - intro Hn. apply (F2_trans_in doc_same cs (n_children b)).
    + eapply Forall_impl; [|exact IH]. intros x Hx y z. apply Hx.
    + apply A1; exact Hn.
    + apply A2. rewrite <- T1. exact Hn.
  - intro Ho. destruct (O1 Ho) as (L1 & F1 & G1). destruct (O2 ltac:(congruence)) as (L2 & F2 & G2).
    rewrite Forall_forall in IH, F1, G1, F2, G2.
    split; [congruence|]. split; rewrite Forall_forall.
    + intros x Hx. specialize (F1 x Hx). apply Exists_exists in F1. destruct F1 as (y & Hy & Ek & Hs).
      specialize (F2 y Hy). apply Exists_exists in F2. destruct F2 as (z & Hz & Ek2 & Hs2).
      apply Exists_exists. exists z. split; [exact Hz|]. split; [congruence | eapply IH; eassumption].
    + intros z Hz. specialize (G2 z Hz). apply Exists_exists in G2. destruct G2 as (y & Hy & Ek2 & Hs2).
      specialize (G1 y Hy). apply Exists_exists in G1. destruct G1 as (x & Hx & Ek & Hs).
      apply Exists_exists. exists x. split; [exact Hx|]. split; [congruence | eapply IH; eassumption].
Qed.

Lemma msame_refl x : msame x x.
Proof. split; [reflexivity | apply doc_same_refl]. Qed.
Lemma msame_sym x y : msame x y -> msame y x.
Proof. intros [K S]. split; [symmetry; exact K | apply doc_same_sym; exact S]. Qed.
Lemma msame_trans x y z : msame x y -> msame y z -> msame x z.
Proof. intros [K1 S1] [K2 S2]. split; [congruence | eapply doc_same_trans; eassumption]. Qed.

Lemma osame_refl l : osame l l.
Proof.
  split; [reflexivity|]. split; rewrite Forall_forall; intros x Hx; apply Exists_exists; exists x; (split; [exact Hx | apply msame_refl]).
Qed.
Lemma osame_sym l1 l2 : osame l1 l2 -> osame l2 l1.
Proof.
  intros (L & F & G). split; [symmetry; exact L|]. split.
  - eapply Forall_impl; [|exact G]. intros y Hy. apply Exists_exists in Hy. destruct Hy as (x & Hx & M).
    apply Exists_exists. exists x. split; [exact Hx | apply msame_sym; exact M].
  - eapply Forall_impl; [|exact F]. intros x Hx. apply Exists_exists in Hx. destruct Hx as (y & Hy & M).
    apply Exists_exists. exists y. split; [exact Hy | apply msame_sym; exact M].
Qed.
Lemma osame_trans l1 l2 l3 : osame l1 l2 -> osame l2 l3 -> osame l1 l3.
Proof.
  intros (L1 & F1 & G1) (L2 & F2 & G2). rewrite Forall_forall in F1, G1, F2, G2.
  split; [congruence|]. split; rewrite Forall_forall.
  - intros x Hx. specialize (F1 x Hx). apply Exists_exists in F1. destruct F1 as (y & Hy & M1).
    specialize (F2 y Hy). apply Exists_exists in F2. destruct F2 as (z & Hz & M2).
    apply Exists_exists. exists z. split; [exact Hz | eapply msame_trans; eassumption].
  - intros z Hz. specialize (G2 z Hz). apply Exists_exists in G2. destruct G2 as (y & Hy & M2).
    specialize (G1 y Hy). apply Exists_exists in G1. destruct G1 as (x & Hx & M1).
    apply Exists_exists. exists x. split; [exact Hx | eapply msame_trans; eassumption].
Qed.

(* pointwise related member lists are related as sets *)
Lemma osame_of_F2 l1 l2 : Forall2 msame l1 l2 -> osame l1 l2.
Proof.
  intro F. split; [eapply Forall2_len; exact F|]. split; rewrite Forall_forall.
  - intros x Hx. destruct (Forall2_in_l _ _ _ _ F Hx) as (y & Hy & M). apply Exists_exists. exists y. split; assumption.
  - intros y Hy. destruct (F2_in_r _ _ _ _ F Hy) as (x & Hx & M). apply Exists_exists. exists x. split; assumption.
Qed.
Lemma osame_perm_l l1 l1' l2 : Permutation l1 l1' -> osame l1 l2 -> osame l1' l2.
Proof.
  intros P (L & F & G). split; [rewrite <- (Permutation_length P); exact L|]. split.
  - eapply Forall_perm; [exact P | exact F].
  - eapply Forall_impl; [|exact G]. intros y Hy. eapply Exists_perm; [exact P | exact Hy].
Qed.
Lemma osame_perm l l' : Permutation l l' -> osame l l'.
Proof. intro P. apply osame_sym. eapply osame_perm_l; [exact P | apply osame_refl]. Qed.

(** ---------- only the masked type, the values and the children matter ---------- *)
Lemma doc_same_fields_l a a' b :
  tymask (n_ty a') = tymask (n_ty a) -> n_vint a' = n_vint a -> n_vdbl a' = n_vdbl a -> n_vstr a' = n_vstr a ->
  n_children a' = n_children a -> doc_same a b -> doc_same a' b.
Proof.
  intros T I D S C H. apply doc_same_inv in H. destruct H as (T1 & I1 & D1 & S1 & A1 & O1).
  apply doc_same_mk; try congruence; rewrite C, T; assumption.
Qed.
Lemma doc_same_fields a a' :
  tymask (n_ty a') = tymask (n_ty a) -> n_vint a' = n_vint a -> n_vdbl a' = n_vdbl a -> n_vstr a' = n_vstr a ->
  n_children a' = n_children a -> doc_same a' a.
Proof. intros. eapply doc_same_fields_l; try eassumption. apply doc_same_refl. Qed.

Lemma doc_same_set_key a k : doc_same (set_key a k) a.
Proof. apply doc_same_fields; destruct a; reflexivity. Qed.
Lemma doc_same_unnamed a : doc_same (unnamed a) a.
Proof.
  apply doc_same_fields; try (destruct a; reflexivity).
  destruct a as [ty vs vi vd key cs]. unfold unnamed. cbn [set_ty set_key n_ty]. apply tymask_ldiff. reflexivity.
Qed.
Lemma doc_same_with_key a k : doc_same (with_key a k) a.
Proof. apply doc_same_fields; destruct a; reflexivity. Qed.
Lemma doc_same_keyed a k : doc_same (keyed a k) a.
Proof.
  apply doc_same_fields; try (destruct a; reflexivity).
  destruct a as [ty vs vi vd key cs]. unfold keyed. cbn [set_ty set_key n_ty]. apply tymask_ldiff. reflexivity.
Qed.

(* same scalar fields, related children *)
Lemma doc_same_head ty ty' vs vi vd k1 k2 cs1 cs2 : tymask ty = tymask ty' ->
  (tymask ty <> c_cJSON_Object -> Forall2 doc_same cs1 cs2) ->
  (tymask ty = c_cJSON_Object -> osame cs1 cs2) ->
  doc_same (Node ty vs vi vd k1 cs1) (Node ty' vs vi vd k2 cs2).
Proof. intros T A O. apply doc_same_mk; cbn [n_ty n_vint n_vdbl n_vstr n_children]; try reflexivity; assumption. Qed.

(** ---------- it implies the library's equality on NaN-free documents ---------- *)
Lemma doc_same_doc_eq : forall a b, dwf a -> doc_same a b -> doc_eq a b.
Proof.
  induction a as [ty vs vi vd k cs IH] using node_ind'. intros b Ha H.
  apply doc_same_inv in H. cbn [n_ty n_vint n_vdbl n_vstr n_children] in H. destruct H as (T & I & D & S & A & O).
  pose proof (dwf_local _ Ha) as (L & J & Sv & Nv & Ov). cbn [n_ty n_vstr n_vdbl n_children] in *.
  pose proof (dwf_children _ Ha) as Hc. cbn [n_children] in Hc. rewrite Forall_forall in IH, Hc.
  destruct (json_type_cases _ J) as [E|[E|[E|[E|[E|[E|E]]]]]].
  - apply de_lit; cbn [n_ty]; [exact T | tauto].
  - apply de_lit; cbn [n_ty]; [exact T | tauto].
  - apply de_lit; cbn [n_ty]; [exact T | tauto].
  - apply de_num; cbn [n_ty n_vint n_vdbl]; try congruence. rewrite <- D. apply CompareProofs.compare_double_refl. apply Nv. exact E.
  - destruct (Sv E) as (s & Es & _). apply (de_str _ _ s); cbn [n_ty n_vstr]; congruence.
  - apply de_arr; cbn [n_ty n_children]; try congruence.
    eapply Forall2_strengthen; [apply A; rewrite E; discriminate|]. intros x y Hx _ Hs. apply IH; [exact Hx | apply Hc; exact Hx | exact Hs].
  - destruct (O E) as (_ & F & G). destruct (Ov E) as [_ Kc]. rewrite Forall_forall in F, G.
    apply de_obj; cbn [n_ty n_children]; try congruence; rewrite Forall_forall.
    + intros x Hx. specialize (F x Hx). apply Exists_exists in F. destruct F as (y & Hy & Ek & Hs).
      apply Exists_exists. exists y. split; [exact Hy|]. split; [eapply keyed_key_some; eassumption|]. split; [exact Ek|].
      apply IH; [exact Hx | apply Hc; exact Hx | exact Hs].
    + intros y Hy. specialize (G y Hy). apply Exists_exists in G. destruct G as (x & Hx & Ek & Hs).
      apply Exists_exists. exists x. split; [exact Hx|]. split; [eapply keyed_key_some; eassumption|]. split; [exact Ek|].
      apply IH; [exact Hx | apply Hc; exact Hx | exact Hs].
Qed.

(** ---------- it transports well-formedness ---------- *)
Lemma osame_keys_incl l1 l2 : osame l1 l2 -> incl (map n_key l1) (map n_key l2).
Proof.
  intros (_ & F & _) k Hk. rewrite Forall_forall in F. apply in_map_iff in Hk. destruct Hk as (x & Ex & Hx).
  specialize (F x Hx). apply Exists_exists in F. destruct F as (y & Hy & Ek & _). rewrite <- Ex, Ek. apply in_map. exact Hy.
Qed.

Lemma osame_okm l1 l2 : osame l1 l2 -> okm l1 -> okm l2.
Proof.
  intros Ho [Hk Hn]. pose proof (osame_keys_incl _ _ Ho) as I. destruct Ho as (L & F & G). split.
  - unfold keyed_children in *. rewrite Forall_forall in *. intros y Hy. specialize (G y Hy). apply Exists_exists in G.
    destruct G as (x & Hx & Ek & _). rewrite <- Ek. apply Hk. exact Hx.
  - eapply NoDup_incl_NoDup; [exact Hn | rewrite !map_length; lia | exact I].
Qed.

Lemma doc_same_dwf : forall a b, dwf a -> doc_same a b -> dwf b.
Proof.
  induction a as [ty vs vi vd k cs IH] using node_ind'. intros b Ha H.
  apply doc_same_inv in H. cbn [n_ty n_vint n_vdbl n_vstr n_children] in H. destruct H as (T & I & D & S & A & O).
  pose proof (dwf_local _ Ha) as (L & J & Sv & Nv & Ov). cbn [n_ty n_vstr n_vdbl n_children] in *.
  pose proof (dwf_children _ Ha) as Hc. cbn [n_children] in Hc. rewrite Forall_forall in IH, Hc.
  destruct b as [tb sb ib db kb cb]. cbn [n_ty n_vint n_vdbl n_vstr n_children] in *. subst sb ib db.
  assert (Len : length cs = length cb).
  { destruct (Z.eq_dec (tymask ty) c_cJSON_Object) as [E|E]; [apply (O E) | eapply Forall2_len; apply A; exact E]. }
  apply dwf_unfold. split.
  - repeat split.
    + rewrite <- Len. exact L.
    + rewrite <- T. exact J.
    + rewrite <- T. exact Sv.
    + rewrite <- T. exact Nv.
    + rewrite <- T in H. destruct (Ov H) as [Hn Hk]. apply (osame_okm cs cb (O H)). split; assumption.
    + rewrite <- T in H. destruct (Ov H) as [Hn Hk]. apply (osame_okm cs cb (O H)). split; assumption.
  - rewrite Forall_forall. intros y Hy.
    destruct (Z.eq_dec (tymask ty) c_cJSON_Object) as [E|E].
    + destruct (O E) as (_ & _ & G). rewrite Forall_forall in G. specialize (G y Hy). apply Exists_exists in G.
      destruct G as (x & Hx & _ & Hs). eapply IH; [exact Hx | apply Hc; exact Hx | exact Hs].
    + destruct (F2_in_r _ _ _ _ (A E) Hy) as (x & Hx & Hs). eapply IH; [exact Hx | apply Hc; exact Hx | exact Hs].
Qed.

(** ---------- it preserves the depth ---------- *)
Lemma depth_list_le l m : (forall x, In x l -> (node_depth x <= m)%nat) -> (depth_list l <= m)%nat.
Proof.
  induction l as [|c r IH]; intro H; cbn [depth_list]; [lia|].
  pose proof (H c (or_introl eq_refl)). assert (depth_list r <= m)%nat by (apply IH; intros; apply H; right; assumption). lia.
Qed.

Lemma doc_same_depth : forall a b, doc_same a b -> node_depth a = node_depth b.
Proof.
  induction a as [ty vs vi vd k cs IH] using node_ind'. intros b H.
  apply doc_same_inv in H. cbn [n_ty n_vint n_vdbl n_vstr n_children] in H. destruct H as (T & _ & _ & _ & A & O).
  destruct b as [tb sb ib db kb cb]. cbn [n_ty n_children] in *. rewrite !node_depth_eq. f_equal. rewrite Forall_forall in IH.
  destruct (Z.eq_dec (tymask ty) c_cJSON_Object) as [E|E].
  - destruct (O E) as (_ & F & G). rewrite Forall_forall in F, G. apply Nat.le_antisymm; apply depth_list_le.
    + intros x Hx. specialize (F x Hx). apply Exists_exists in F. destruct F as (y & Hy & _ & Hs).
      rewrite (IH x Hx y Hs). apply depth_list_in. exact Hy.
    + intros y Hy. specialize (G y Hy). apply Exists_exists in G. destruct G as (x & Hx & _ & Hs).
      rewrite <- (IH x Hx y Hs). apply depth_list_in. exact Hx.
  - specialize (A E). clear O. induction A as [|x y l1 l2 Hxy F IHF]; [reflexivity|].
    cbn [depth_list]. rewrite (IH x (or_introl eq_refl) y Hxy). rewrite IHF; [reflexivity|]. intros x0 Hx0. apply IH. right. exact Hx0.
Qed.

Lemma doc_same_shallow a b : doc_same a b -> shallow a -> shallow b.
Proof. unfold shallow. intros H. rewrite (doc_same_depth _ _ H). auto. Qed.

(** ---------- objects with distinct names: the relation on members is the relation on lookups ---------- *)
Definition orel (a b : option node) : Prop :=
  match a, b with Some x, Some y => doc_same x y | None, None => True | _, _ => False end.

Lemma osame_lk l1 l2 : okm l1 -> okm l2 -> (osame l1 l2 <-> forall k, orel (lk l1 k) (lk l2 k)).
Proof.
  intros H1 H2. split.
  - intros (L & F & G) k. rewrite Forall_forall in F, G. unfold orel.
    destruct (lk l1 k) as [x|] eqn:E1.
    + apply (lk_some _ _ _ H1) in E1. destruct E1 as [Hx Ek]. specialize (F x Hx). apply Exists_exists in F.
      destruct F as (y & Hy & Ek2 & Hs). assert (E2 : lk l2 k = Some y) by (apply (lk_some _ _ _ H2); split; [exact Hy | congruence]).
      rewrite E2. exact Hs.
    + destruct (lk l2 k) as [y|] eqn:E2; [|exact I]. apply (lk_some _ _ _ H2) in E2. destruct E2 as [Hy Ek].
      specialize (G y Hy). apply Exists_exists in G. destruct G as (x & Hx & Ek2 & _).
      rewrite lk_none in E1. apply (E1 x Hx). congruence.
  - intro H.
    assert (F : Forall (fun x => Exists (fun y => msame x y) l2) l1).
    { rewrite Forall_forall. intros x Hx. destruct (keyed_in _ _ (proj1 H1) Hx) as (k & Ek & _).
      assert (E1 : lk l1 k = Some x) by (apply (lk_some _ _ _ H1); split; assumption).
      specialize (H k). rewrite E1 in H. unfold orel in H. destruct (lk l2 k) as [y|] eqn:E2; [|contradiction].
      apply (lk_some _ _ _ H2) in E2. destruct E2 as [Hy Eky]. apply Exists_exists. exists y. split; [exact Hy|]. split; [congruence | exact H]. }
    assert (G : Forall (fun y => Exists (fun x => msame x y) l1) l2).
    { rewrite Forall_forall. intros y Hy. destruct (keyed_in _ _ (proj1 H2) Hy) as (k & Ek & _).
      assert (E2 : lk l2 k = Some y) by (apply (lk_some _ _ _ H2); split; assumption).
      specialize (H k). rewrite E2 in H. unfold orel in H. destruct (lk l1 k) as [x|] eqn:E1; [|contradiction].
      apply (lk_some _ _ _ H1) in E1. destruct E1 as [Hx Ekx]. apply Exists_exists. exists x. split; [exact Hx|]. split; [congruence | exact H]. }
    split; [|split; assumption].
    assert (I1 : incl (map n_key l1) (map n_key l2)).
    { intros k Hk. apply in_map_iff in Hk. destruct Hk as (x & Ex & Hx). rewrite Forall_forall in F. specialize (F x Hx).
      apply Exists_exists in F. destruct F as (y & Hy & Ek & _). rewrite <- Ex, Ek. apply in_map. exact Hy. }
    assert (I2 : incl (map n_key l2) (map n_key l1)).
    { intros k Hk. apply in_map_iff in Hk. destruct Hk as (y & Ey & Hy). rewrite Forall_forall in G. specialize (G y Hy).
      apply Exists_exists in G. destruct G as (x & Hx & Ek & _). rewrite <- Ey, <- Ek. apply in_map. exact Hx. }
    pose proof (NoDup_incl_length (proj2 H1) I1) as L1. pose proof (NoDup_incl_length (proj2 H2) I2) as L2.
    rewrite !map_length in L1, L2. lia.
Qed.

(* for distinct names the relation says: one member list is a permutation of the other, values related *)
Lemma osame_permutation : forall l1 l2, okm l1 -> osame l1 l2 -> exists l, Permutation l2 l /\ Forall2 msame l1 l.
Proof.
  induction l1 as [|x l1 IH]; intros l2 H1 Ho.
  - destruct Ho as (L & _). destruct l2; [|discriminate]. exists []. split; constructor.
  - assert (H2 : okm l2) by (eapply osame_okm; eassumption).
    pose proof Ho as (L & F & G). inversion F as [|? ? Fx F']; subst. apply Exists_exists in Fx. destruct Fx as (y & Hy & M).
    destruct (in_split _ _ Hy) as (p & q & E). subst l2.
    destruct H1 as [K1 N1]. inversion K1 as [|? ? Kx K1']; subst. cbn [map] in N1. inversion N1 as [|? ? Nx N1']; subst.
    destruct H2 as [K2 N2]. rewrite map_app in N2. cbn [map] in N2.
    pose proof (NoDup_remove_2 _ _ _ N2) as Ny. pose proof (NoDup_remove_1 _ _ _ N2) as N2'. rewrite <- map_app in Ny, N2'.
    destruct M as [Mk Ms]. rewrite Forall_forall in F', G.
    destruct (IH (p ++ q)) as (l & Pl & Fl).
    { split; assumption. }
    { split; [rewrite app_length in *; cbn [length] in L; lia|]. split; rewrite Forall_forall.
      - intros x1 Hx1. specialize (F' x1 Hx1). apply Exists_exists in F'. destruct F' as (y1 & Hy1 & Ek & Hs).
        apply Exists_exists. exists y1. split; [|split; assumption].
        apply in_app_or in Hy1. apply in_or_app. destruct Hy1 as [H|[H|H]]; [left; exact H | | right; exact H].
        exfalso. subst y1. apply Nx. rewrite Mk, <- Ek. apply in_map. exact Hx1.
      - intros y1 Hy1. assert (Hy1' : In y1 (p ++ y :: q)) by (apply in_app_or in Hy1; apply in_or_app; cbn [In]; tauto).
        specialize (G y1 Hy1'). apply Exists_exists in G. destruct G as (x1 & Hx1 & Ek & Hs).
        apply Exists_exists. exists x1. split; [|split; assumption].
        destruct Hx1 as [H|H]; [|exact H]. exfalso. subst x1. apply Ny. rewrite <- Mk, Ek. apply in_map. exact Hy1. }
    exists (y :: l). split.
    + eapply Permutation_trans; [apply Permutation_sym; apply Permutation_middle | apply perm_skip; exact Pl].
    + constructor; [split; assumption | exact Fl].
Qed.

(** ---------- the library's equality is invariant under the exact relation ---------- *)
Lemma F2_swap_in {A B} (R : A -> A -> Prop) (S T : A -> B -> Prop) l1 : forall l1' l3,
  Forall (fun x => forall x' z, R x x' -> S x z -> T x' z) l1 -> Forall2 R l1 l1' -> Forall2 S l1 l3 -> Forall2 T l1' l3.
Proof.
  induction l1 as [|x l1 IH]; intros l1' l3 H F1 F2; inversion F1; subst; inversion F2; subst; [constructor|].
  inversion H; subst. constructor; [eauto | eapply IH; eassumption].
Qed.

Lemma doc_eq_same_l : forall a a' b, doc_same a a' -> doc_eq a b -> doc_eq a' b.
Proof.
  induction a as [ty vs vi vd k ca IH] using node_ind'. intros a' b H E.
  apply doc_same_inv in H. cbn [n_ty n_vint n_vdbl n_vstr n_children] in H. destruct H as (T & I & D & S & A & O).
  inversion E; subst; cbn [n_ty n_vint n_vdbl n_vstr n_children] in *.
  - apply de_lit; congruence.
  - apply de_num; congruence.
  - eapply de_str; try eassumption; congruence.
  - apply de_arr; try congruence.
    apply (F2_swap_in doc_same doc_eq doc_eq ca (n_children a') (n_children b)); try assumption.
    apply A. match goal with H : tymask ty = c_cJSON_Array |- _ => rewrite H end. discriminate.
  - match goal with H1 : Forall _ ca, H2 : Forall _ (n_children b) |- _ => rename H1 into FA; rename H2 into FB end.
    match goal with H : tymask ty = c_cJSON_Object |- _ => destruct (O H) as (_ & F & G) end.
    rewrite Forall_forall in IH, F, G, FA, FB.
    apply de_obj; try congruence; rewrite Forall_forall.
    + intros x' Hx'. specialize (G x' Hx'). apply Exists_exists in G. destruct G as (x & Hx & Ek & Hs).
      specialize (FA x Hx). apply Exists_exists in FA. destruct FA as (y & Hy & Kn & Ek2 & He).
      apply Exists_exists. exists y. split; [exact Hy|]. split; [congruence|]. split; [congruence|]. eapply IH; eassumption.
    + intros y Hy. specialize (FB y Hy). apply Exists_exists in FB. destruct FB as (x & Hx & Kn & Ek2 & He).
      specialize (F x Hx). apply Exists_exists in F. destruct F as (x' & Hx' & Ek & Hs).
      apply Exists_exists. exists x'. split; [exact Hx'|]. split; [congruence|]. split; [congruence|]. eapply IH; eassumption.
Qed.

Lemma doc_eq_same_r : forall a b b', doc_same b b' -> doc_eq a b -> doc_eq a b'.
Proof.
  induction a as [ty vs vi vd k ca IH] using node_ind'. intros b b' H E.
  apply doc_same_inv in H. destruct H as (T & I & D & S & A & O).
  inversion E; subst; cbn [n_ty n_vint n_vdbl n_vstr n_children] in *.
  - apply de_lit; cbn [n_ty]; congruence.
  - apply de_num; cbn [n_ty n_vint n_vdbl]; congruence.
  - eapply de_str; cbn [n_ty n_vstr]; try eassumption; congruence.
  - apply de_arr; cbn [n_ty n_children]; try congruence.
    apply (F2_comp_in doc_eq doc_same doc_eq ca (n_children b) (n_children b')); try assumption.
    + eapply Forall_impl; [|exact IH]. intros x Hx y z He Hs. eapply Hx; eassumption.
    + apply A. match goal with H : tymask (n_ty b) = c_cJSON_Array |- _ => rewrite H end. discriminate.
  - match goal with H1 : Forall _ ca, H2 : Forall _ (n_children b) |- _ => rename H1 into FA; rename H2 into FB end.
    match goal with H : tymask (n_ty b) = c_cJSON_Object |- _ => destruct (O H) as (_ & F & G) end.
    rewrite Forall_forall in IH, F, G, FA, FB.
    apply de_obj; cbn [n_ty n_children]; try congruence; rewrite Forall_forall.
    + intros x Hx. specialize (FA x Hx). apply Exists_exists in FA. destruct FA as (y & Hy & Kn & Ek2 & He).
      specialize (F y Hy). apply Exists_exists in F. destruct F as (y' & Hy' & Ek & Hs).
      apply Exists_exists. exists y'. split; [exact Hy'|]. split; [exact Kn|]. split; [congruence|]. eapply IH; eassumption.
    + intros y' Hy'. specialize (G y' Hy'). apply Exists_exists in G. destruct G as (y & Hy & Ek & Hs).
      specialize (FB y Hy). apply Exists_exists in FB. destruct FB as (x & Hx & Kn & Ek2 & He).
      apply Exists_exists. exists x. split; [exact Hx|]. split; [exact Kn|]. split; [congruence|]. eapply IH; eassumption.
Qed.

Lemma doc_eq_same a a' b b' : doc_same a a' -> doc_same b b' -> (doc_eq a b <-> doc_eq a' b').
Proof.
  intros Ha Hb. split; intro E.
  - eapply doc_eq_same_l; [exact Ha|]. eapply doc_eq_same_r; [exact Hb | exact E].
  - eapply doc_eq_same_l; [apply doc_same_sym; exact Ha|]. eapply doc_eq_same_r; [apply doc_same_sym; exact Hb | exact E].
Qed.

(* the executable equality used by RFC 6902's test is invariant in both arguments *)
Theorem doc_eqb_same a a' b b' : dwf a -> dwf b -> doc_same a a' -> doc_same b b' -> doc_eqb a b = doc_eqb a' b'.
Proof.
  intros Ha Hb Sa Sb.
  pose proof (doc_same_dwf _ _ Ha Sa) as Ha'. pose proof (doc_same_dwf _ _ Hb Sb) as Hb'.
  apply eq_true_iff_eq. rewrite (doc_eqb_iff a b Ha Hb), (doc_eqb_iff a' b' Ha' Hb'). apply doc_eq_same; assumption.
Qed.
