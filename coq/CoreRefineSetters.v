(** CoreRefineSetters.v — value setters: a change of the data of one node that does not touch
    what ownership depends on keeps [WF] ([WF_update], from [ForestLemmas.WF_set_data]);
    [cJSON_SetNumberHelper_sim], [cJSON_SetIntValue_sim], [cJSON_SetBoolValue_sim/_refused]. *)
From CJ Require Import Base Dbl Heap Forest ForestLemmas CoreSpec CoreDefs CoreRefineBase CoreRefine.
From CJ.gen Require Import Constants.
From stdpp Require Import gmap.
Implicit Types (h : heap) (F : forest) (p x y r : positive) (d : rdata).
Local Open Scope Z_scope.

(** * value setters *)
Definition nd_set_vint (nd : ndata) (i : Z) : ndata :=
  mkND (nd_type nd) (nd_vstr nd) i (nd_vdbl nd) (nd_key nd) (nd_child nd).
Definition nd_set_vdbl (nd : ndata) (v : dbl) : ndata :=
  mkND (nd_type nd) (nd_vstr nd) (nd_vint nd) v (nd_key nd) (nd_child nd).
Lemma run_set_vint_plain h i nd v : i ∈ h_live h -> h_dat h !! i = Some nd ->
  set_vint (Some i) v h = Ret (tt, set_dat h (<[i := nd_set_vint nd v]> (h_dat h))).
Proof.
  intros H1 H2. rewrite <- (upd_maps_id h) at 1. unfold set_vint.
  rewrite (bindM_Ret _ _ _ _ _ (run_ld_dat _ _ _ _ _ H1 H2)). by rewrite run_st_dat by eauto.
Qed.
Lemma run_set_vdbl_plain h i nd v : i ∈ h_live h -> h_dat h !! i = Some nd ->
  set_vdbl (Some i) v h = Ret (tt, set_dat h (<[i := nd_set_vdbl nd v]> (h_dat h))).
Proof.
  intros H1 H2. rewrite <- (upd_maps_id h) at 1. unfold set_vdbl.
  rewrite (bindM_Ret _ _ _ _ _ (run_ld_dat _ _ _ _ _ H1 H2)). by rewrite run_st_dat by eauto.
Qed.

(** a data change that does not touch what ownership depends on keeps [WF] *)
Lemma WF_update h F x n f :
  WF h F -> find_tree x F = Some n ->
  owned_strs (f (tdata n)) = owned_strs (tdata n) -> is_ref (f (tdata n)) = is_ref (tdata n) ->
  rd_ref (f (tdata n)) = rd_ref (tdata n) ->
  WF (set_dat h (<[x := mk_dat (f (tdata n)) (cids n)]> (h_dat h))) (spec_update F x f) /\
  owned (spec_update F x f) ≡ₚ owned F.
Proof.
  intros W Hx Ho Hir Hrf. unfold spec_update. rewrite Hx. pose proof (wf_nodup _ _ W) as ND.
  pose proof (find_tree_Some _ _ _ Hx) as [Hin Htid]. destruct n as [i d cs]. cbn in Htid. subst i.
  cbn [tdata cids tchildren] in *.
  destruct (flat_set_data F x d cs ND Hin) as (FL & E1 & E2).
  assert (Hown : owned (set_data x (f d) F) ≡ₚ owned F).
  { unfold owned. rewrite E2, E1, !owned_fl_cons. unfold owned_fn. cbn. by rewrite Ho. }
  split; [|done].
  eapply (WF_set_data h _ F _ x d (f d) _ FL W E1 (E2 _)); try done.
  - by rewrite roots_set_data.
  - rewrite Hown. apply W.
  - intros b Hb. rewrite Hown in Hb. cbn.
    split_and!; [by apply (wf_owned_live _ _ W)|by apply (wf_owned_lib _ _ W)|by apply (wf_fresh _ _ W)].
  - pose proof (wf_ref _ _ W) as Hr. rewrite E1 in Hr. apply Forall_cons in Hr as [[Hr1 Hr2] _].
    cbn in *. split; cbn; rewrite ?Hir, ?Hrf; done.
Qed.

Section Setters.
  Context (h : heap) (F : forest) (x : positive) (n : tree).
  Hypothesis W : WF h F.
  Hypothesis Hx : find_tree x F = Some n.

  Let Hlive : x ∈ h_live h.
  Proof. apply (WF_ids_live _ _ _ W). destruct (find_tree_Some _ _ _ Hx) as [H <-]. by apply elem_of_list_fmap_1. Qed.
  Let Hdat : h_dat h !! x = Some (mk_dat (tdata n) (cids n)).
  Proof.
    destruct (find_tree_Some _ _ _ Hx) as [H <-]. apply (WF_lookup_dat _ _ _ _ _ W). apply (elem_of_flat _ _ H).
  Qed.

  (** cJSON_SetNumberHelper / the macro cJSON_SetNumberValue *)
  Lemma cJSON_SetNumberHelper_sim v :
    let F' := spec_update F x (fun d => rd_set_number d v) in
    let h' := set_dat h (<[x := mk_dat (rd_set_number (tdata n) v) (cids n)]> (h_dat h)) in
    cJSON_SetNumberHelper (Some x) v h = Ret (v, h') /\ WF h' F' /\ owned F' ≡ₚ owned F.
  Proof.
    intros F' h'. destruct (WF_update h F x n (fun d => rd_set_number d v) W Hx) as [W' Ho]; try done.
    split; [|done]. unfold cJSON_SetNumberHelper.
    rewrite (bindM_Ret _ _ _ _ _ (run_set_vint_plain _ _ _ (sat_int v) Hlive Hdat)).
    match goal with |- bindM _ _ ?hh = _ => set (h1 := hh) end.
    assert (Hd1 : h_dat h1 !! x = Some (nd_set_vint (mk_dat (tdata n) (cids n)) (sat_int v))) by (unfold h1; cbn; by rewrite lookup_insert).
    rewrite (bindM_Ret _ _ _ _ _ (run_set_vdbl_plain h1 _ _ v Hlive Hd1)).
    unfold ret. do 2 f_equal. unfold h1, h', set_dat, upd_maps. cbn. by rewrite insert_insert.
  Qed.

  (** the macro cJSON_SetIntValue *)
  Lemma cJSON_SetIntValue_sim v :
    let F' := spec_update F x (fun d => rd_set_int d v) in
    let h' := set_dat h (<[x := mk_dat (rd_set_int (tdata n) v) (cids n)]> (h_dat h)) in
    cJSON_SetIntValue (Some x) v h = Ret (v, h') /\ WF h' F' /\ owned F' ≡ₚ owned F.
  Proof.
    intros F' h'. destruct (WF_update h F x n (fun d => rd_set_int d v) W Hx) as [W' Ho]; try done.
    split; [|done]. unfold cJSON_SetIntValue. cbn [is_null].
    rewrite (bindM_Ret _ _ _ _ _ (run_set_vdbl_plain _ _ _ (dbl_of_int v) Hlive Hdat)).
    match goal with |- bindM _ _ ?hh = _ => set (h1 := hh) end.
    assert (Hd1 : h_dat h1 !! x = Some (nd_set_vdbl (mk_dat (tdata n) (cids n)) (dbl_of_int v))) by (unfold h1; cbn; by rewrite lookup_insert).
    rewrite (bindM_Ret _ _ _ _ _ (run_set_vint_plain h1 _ _ v Hlive Hd1)).
    unfold ret. do 2 f_equal. unfold h1, h', set_dat, upd_maps. cbn. by rewrite insert_insert.
  Qed.

  (** the macro cJSON_SetBoolValue: only on a True/False node, else cJSON_Invalid and no change *)
  Lemma cJSON_SetBoolValue_sim b :
    has_flag (rd_type (tdata n)) (Z.lor c_cJSON_False c_cJSON_True) = true ->
    let F' := spec_update F x (fun d => rd_set_bool d b) in
    let h' := set_dat h (<[x := mk_dat (rd_set_bool (tdata n) b) (cids n)]> (h_dat h)) in
    cJSON_SetBoolValue (Some x) b h = Ret (rd_type (rd_set_bool (tdata n) b), h') /\ WF h' F' /\ owned F' ≡ₚ owned F.
  Proof.
    intros Hf F' h'.
    assert (Hbits : forall m, Z.land (Z.lor c_cJSON_False c_cJSON_True) m = 0 ->
              Z.land (if b then c_cJSON_True else c_cJSON_False) m = 0 ->
              Z.land (rd_type (rd_set_bool (tdata n) b)) m = Z.land (rd_type (tdata n)) m).
    { intros m Hm1 Hm2. unfold rd_set_bool. cbn [rd_type]. rewrite Z.land_lor_distr_l, Hm2, Z.lor_0_r.
      rewrite <- Z.land_assoc. f_equal. apply Z.bits_inj'. intros k Hk.
      rewrite Z.land_spec, Z.lnot_spec by done.
      assert (Hk' : Z.testbit (Z.land (Z.lor c_cJSON_False c_cJSON_True) m) k = false) by (rewrite Hm1; apply Z.bits_0).
      rewrite Z.land_spec in Hk'. destruct (Z.testbit m k); [|by rewrite andb_false_r].
      rewrite andb_true_r in *. by rewrite Hk'. }
    destruct (WF_update h F x n (fun d => rd_set_bool d b) W Hx) as [W' Ho].
    { unfold owned_strs, is_ref, is_const. rewrite !Hbits by (by destruct b). reflexivity. }
    { unfold is_ref. rewrite Hbits by (by destruct b). reflexivity. }
    { reflexivity. }
    split; [|done]. unfold cJSON_SetBoolValue. cbn [is_null].
    rewrite (bindM_Ret _ _ _ _ _ (run_get_type_plain _ _ _ Hlive Hdat)).
    change (nd_type (mk_dat (tdata n) (cids n))) with (rd_type (tdata n)). rewrite Hf.
    rewrite (bindM_Ret _ _ _ _ _ (run_get_type_plain _ _ _ Hlive Hdat)).
    change (nd_type (mk_dat (tdata n) (cids n))) with (rd_type (tdata n)).
    rewrite (bindM_Ret _ _ _ _ _ (run_set_type_plain _ _ _ _ Hlive Hdat)). reflexivity.
  Qed.
  Lemma cJSON_SetBoolValue_refused b :
    has_flag (rd_type (tdata n)) (Z.lor c_cJSON_False c_cJSON_True) = false ->
    cJSON_SetBoolValue (Some x) b h = Ret (c_cJSON_Invalid, h).
  Proof.
    intros Hf. unfold cJSON_SetBoolValue. cbn [is_null].
    rewrite (bindM_Ret _ _ _ _ _ (run_get_type_plain _ _ _ Hlive Hdat)).
    change (nd_type (mk_dat (tdata n) (cids n))) with (rd_type (tdata n)). by rewrite Hf.
  Qed.
End Setters.
