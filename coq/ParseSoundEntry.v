(** ParseSoundEntry.v — C03 at the entry point: the soundness theorem transported along the
    refinement theorem of ParseRefine.v from the list-level specification to the buffer-level
    transliteration of cJSON_ParseWithLengthOpts (no allocation failure). *)
From CJ Require Import Base Dbl Tree ParseDefs ParseSpec Grammar ParseRefine ParseSound.
Local Open Scope Z_scope.

(** what the parser returns as a tree derives, in the lenient grammar, from the bytes before the
    published parse end; with required termination a zero byte is at the parse end *)
Theorem parse_with_length_sound : forall strtod content len rnt r t,
  strtod_ok strtod -> strtod_stable strtod -> (len <= length content)%nat ->
  cJSON_ParseWithLengthOpts strtod never_fails content len rnt = Ok r -> pr_tree r = Some t ->
  exists pre rest v,
    firstn len content = pre ++ rest /\ LEN_text strtod pre v /\ t = tree_of strtod v /\
    pr_end r = Some (length pre) /\ (rnt = true -> exists r', rest = 0 :: r').
Proof.
  intros strtod content len rnt r t Hok Hst Hlen Hr Ht.
  destruct (parse_refines_spec strtod content len rnt Hok Hlen) as (r0 & Hr0 & Hspec).
  rewrite Hr in Hr0. inversion Hr0; subst r0. clear Hr0.
  destruct (text_l strtod (firstn len content) rnt) as [[t0 rest]|] eqn:E.
  - destruct Hspec as [Ht0 Hend]. rewrite Ht in Ht0. inversion Ht0; subst t0.
    destruct (sound_text _ _ _ _ _ Hok Hst E) as (pre & v & Hl & Htxt & Htree & Hz).
    exists pre, rest, v. repeat split; try assumption.
    rewrite Hend. f_equal.
    assert (Hlen' : length (firstn len content) = len) by (apply firstn_length_le; exact Hlen).
    rewrite Hl, app_length in Hlen'. lia.
  - rewrite Ht in Hspec. discriminate.
Qed.

(** declared bytes no prefix of which is a text of the lenient dialect: NULL is returned *)
Theorem parse_with_length_rejects : forall strtod content len rnt,
  strtod_ok strtod -> strtod_stable strtod -> (len <= length content)%nat ->
  (forall pre rest v, firstn len content = pre ++ rest -> ~ LEN_text strtod pre v) ->
  exists r, cJSON_ParseWithLengthOpts strtod never_fails content len rnt = Ok r /\ pr_tree r = None.
Proof.
  intros strtod content len rnt Hok Hst Hlen Hno.
  destruct (parse_refines_spec strtod content len rnt Hok Hlen) as (r & Hr & Hspec).
  exists r. split; [exact Hr|].
  rewrite (reject_outside_dialect strtod _ rnt Hok Hst Hno) in Hspec. exact Hspec.
Qed.

(** any rejection proved of the specification is a NULL of the parser *)
Theorem parse_with_length_rejects_spec : forall strtod content len rnt,
  strtod_ok strtod -> (len <= length content)%nat ->
  text_l strtod (firstn len content) rnt = None ->
  exists r, cJSON_ParseWithLengthOpts strtod never_fails content len rnt = Ok r /\ pr_tree r = None.
Proof.
  intros strtod content len rnt Hok Hlen Hnone.
  destruct (parse_refines_spec strtod content len rnt Hok Hlen) as (r & Hr & Hspec).
  exists r. split; [exact Hr|]. rewrite Hnone in Hspec. exact Hspec.
Qed.
