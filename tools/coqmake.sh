#!/bin/sh
# coqmake.sh <targets...>  — `make -k -j8 <targets>` in coq/ under the build lock (never run make directly)
cd "$(dirname "$0")/.."
exec flock .coq.lock sh -c 'sh tools/coqproject.sh; cd coq && timeout 3000 make -k -j8 COQC="timeout 1500 coqc" "$@" 2>&1 | grep -v "^COQC\|^COQDEP\|conda\|pyenv\|shims"' coqmake "$@"
