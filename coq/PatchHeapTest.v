(** PatchHeapTest.v — stage 5: the heap-level [compare_json] (PatchHeapApplyDefs.v; it SORTS the objects it meets in
    place, [SortDefs.sort_object]) refines [PatchDefs.compare_json], and the [test] operation of [apply_patch].

    The two operands are nodes of two different roots: [ta] at path [pa] of the root [ra] (the document), [tb]
    at path [pb] of the root [rb] (the patch array); forest [F2 A B C ra rb = A ++ rb :: B ++ ra :: C].
    Afterwards the forest is [F2 A B C (put_t ra pa ta') (put_t rb pb tb')]: the same identities and node data,
    members of the objects met on the way reordered; [reify ta'], [reify tb'] are the operands the value-level
    model returns; strings, liveness, ownership tags and the allocator are untouched (so [NoLeak] is kept).
    Hypothesis [all_keyed]: every member of an object node of the operands has a name (the hypothesis of the
    C19 sort theorem). *)
From CJ Require Import Base Dbl Heap Forest ForestLemmas CoreSpec CoreDefs CoreRefineBase CoreRefine CoreRefineMore
  CoreRefineDelete CoreRefineReplace CoreRefineObject CoreRefineByKey CoreRefineFrame CoreRefineHistory CoreRefineAddObject
  CoreRefineHistoryObj CoreRefineCreate CoreRefineDupValue CoreRefineDupForest CoreLedgerGen CoreLedgerDup.
From CJ Require Import TierBridgeDefs TierBridgeForest TierBridgeLemmas TierBridgeSort TierBridgeSortHeap TierBridgeUtilsDefs TierBridgeUtils
  TierBridgeE2E2 TierBridgeEndToEndStr TierBridgeOverwriteDefs TierBridgeOverwrite
  MergeHeapDefs MergeHeapInv MergeHeapProofs PatchHeapDefs PatchHeapPath PatchHeapPointer PatchHeapStr PatchHeapSteps
  PatchHeapDetach PatchHeapApplyDefs PatchHeapOps PatchHeapFinish PatchHeapApply.
From CJ Require Tree PointerDefs PatchDefs CompareDefs MergeDefs SortDefs SortSpec PatchProofs.
From CJ.gen Require Import Constants.
From stdpp Require Import gmap.
From Coq Require Import Lia.
Local Open Scope Z_scope.

(** * paths: one more level *)
Lemma subtree_t_snoc t p x d cs (i : nat) :
  subtree_t t p = Some (T x d cs) -> subtree_t t (p ++ [i]) = cs !! i.
Proof. intros H. rewrite subtree_t_app, H. cbn. by destruct (cs !! i). Qed.

Lemma put_t_snoc t p x d cs (i : nat) c c' :
  subtree_t t p = Some (T x d cs) -> cs !! i = Some c ->
  put_t t (p ++ [i]) c' = put_t t p (T x d (<[i := c']> cs)).
Proof.
  revert t. induction p as [|j p IH]; intros t Hs Hi.
  - cbn in Hs. injection Hs as ->. cbn. by rewrite Hi.
  - cbn [app subtree_t put_t] in *. destruct (tchildren t !! j) as [cj|] eqn:E; [|done]. by rewrite (IH cj Hs Hi).
Qed.

(** * a forest with one tree in focus *)
Lemma set_children_at A B t pp p d cs cs' :
  NoDup (ids (A ++ t :: B)) -> subtree_t t pp = Some (T p d cs) ->
  set_children p cs' (A ++ t :: B) = A ++ put_t t pp (T p d cs') :: B.
Proof.
  intros ND Hs. pose proof (subtree_t_nodes _ _ _ Hs) as Hn.
  assert (Hpt : p ∈ ids_t t) by (apply elem_of_list_fmap; by exists (T p d cs)).
  rewrite ids_app, ids_cons in ND. apply NoDup_app in ND as (NDA & HdA & ND2). apply NoDup_app in ND2 as (NDt & HdB & NDB).
  unfold set_children. rewrite fmap_app, fmap_cons. f_equal; [|f_equal].
  - apply (set_children_notin p cs' A). intros Hin. apply (HdA p Hin). apply elem_of_app. by left.
  - by apply (set_children_t_put t pp p d cs cs').
  - apply (set_children_notin p cs' B). intros Hin. by apply (HdB p).
Qed.

Lemma find_tree_at A B t pp n :
  NoDup (ids (A ++ t :: B)) -> subtree_t t pp = Some n -> find_tree (tid n) (A ++ t :: B) = Some n.
Proof.
  intros ND Hs. apply find_tree_unique; [done| |done]. rewrite nodes_app, nodes_cons. apply elem_of_app. right.
  apply elem_of_app. left. by eapply subtree_t_nodes.
Qed.

(** the forest of the comparison: the patch root [rb] before the document root [ra] *)
Definition F2 (A B C : forest) (ra rb : tree) : forest := A ++ rb :: B ++ ra :: C.
Lemma F2_a A B C ra rb : F2 A B C ra rb = (A ++ rb :: B) ++ ra :: C.
Proof. unfold F2. by rewrite <- app_assoc. Qed.

(** * permuting the children of a node *)
Lemma datas_permute_children F p d cs cs' :
  NoDup (ids F) -> find_tree p F = Some (T p d cs) -> cs' ≡ₚ cs -> datas (set_children p cs' F) ≡ₚ datas F.
Proof.
  intros ND Hp HP. destruct (focus_container _ _ _ _ ND Hp) as (FL0 & E1 & E2).
  eapply datas_flat_focus; [exact E1|]. rewrite (E2 cs'). apply Permutation_skip. apply Permutation_app_tail. by apply flat_proper.
Qed.

Lemma HeapOK_same_shape h h' F F' :
  HeapOK h -> WF h F -> WF h' F' -> ids F' ≡ₚ ids F ->
  h_str h' = h_str h -> h_live h' = h_live h -> h_next h' = h_next h -> HeapOK h'.
Proof.
  intros K W W' HI Es El En. constructor.
  - intros b Hb. rewrite El in Hb. rewrite En. by apply (hk_live _ K).
  - intros b Hb. rewrite Es in Hb. destruct (hk_str _ K b Hb) as [Hl Hd]. split; [by rewrite El|].
    rewrite (wf_dat _ _ W'). apply heap_dat_of_lookup_None. rewrite HI. intros Hin.
    rewrite (wf_dat _ _ W) in Hd. pose proof (dom_heap_dat_of F) as Hdom.
    assert (b ∈ dom (heap_dat_of F)) by (rewrite Hdom; by apply elem_of_list_to_set).
    apply elem_of_dom in H as [? H]. congruence.
  - intros b Hb. rewrite (wf_dat _ _ W') in Hb. rewrite En.
    assert (Hin : b ∈ ids F').
    { apply elem_of_dom in Hb. rewrite dom_heap_dat_of in Hb. by apply elem_of_list_to_set in Hb. }
    apply (wf_fresh _ _ W). apply ids_subseteq_owned. by rewrite <- HI.
Qed.

(** * one sort *)
Lemma sort_step h F o d cs flag fuel :
  MInv h F -> find_tree o F = Some (T o d cs) -> Forall (has_key (h_str h)) cs -> (length cs + 2 <= fuel)%nat ->
  let cs' := sort_children (h_str h) flag cs in
  exists h', SortDefs.sort_object fuel (Some o) flag h = Ret (tt, h') /\ MInv h' (set_children o cs' F) /\
    h_str h' = h_str h /\ h_live h' = h_live h /\ h_own h' = h_own h /\ h_next h' = h_next h /\
    PatchDefs.sort_object (reify (h_str h) (T o d cs)) flag = Ok (reify (h_str h) (T o d cs')) /\ cs' ≡ₚ cs /\
    datas (set_children o cs' F) ≡ₚ datas F.
Proof.
  intros I Ho Hk Hf cs'. pose proof (mi_wf _ _ I) as W. pose proof Ho as Ho0. apply find_tree_Some in Ho0 as [Hn _].
  destruct (TierBridgeSortHeap.sort_object_forest h F o d cs W (MInv_KeysReadable _ _ I) Ho (node_not_ref h F I _ _ _ Hn) Hk flag fuel Hf)
    as (h' & Hrun & W' & Es & El & Eo & En & _ & Hv & _ & _).
  assert (HP : cs' ≡ₚ cs) by apply SortSpec.isort_perm.
  pose proof (datas_permute_children F o d cs cs' (wf_nodup _ _ W) Ho HP) as HD.
  exists h'. split; [exact Hrun|]. split; [|rewrite Es in Hv; done].
  apply (MInv_build h h' F _ I W').
  - apply (HeapOK_same_shape h h' F (set_children o cs' F)); try done; [apply I|].
    rewrite !ids_flat. unfold datas in HD. apply (fmap_Permutation fst) in HD. rewrite <- !list_fmap_compose in HD. exact HD.
  - intros e He. left. by rewrite <- HD.
  - intros b _ _. by rewrite Es.
Qed.

(** every member of an object node has a name *)
Definition all_keyed (St : gmap positive bytes) (t : tree) : Prop :=
  forall i d cs, T i d cs ∈ nodes_t t -> Z.land (rd_type d) 255 = c_cJSON_Object -> Forall (has_key St) cs.

Lemma all_keyed_child St i d cs c : all_keyed St (T i d cs) -> c ∈ cs -> all_keyed St c.
Proof.
  intros H Hc i' d' cs' Hn Ho. apply (H i' d' cs'); [|done]. rewrite nodes_t_unfold. right. apply elem_of_nodes. by exists c.
Qed.

(** * the loops of compare_json as standalone functions *)
Section CJLoops.
  Variable rec : ptr -> ptr -> M bool.
  Variable flag : bool.
  Fixpoint cj_arr_loop (lf : nat) (a b : ptr) {struct lf} : M bool :=
    match lf with
    | O => fail NoFuel
    | S lf' =>
        if negb (is_null a) && negb (is_null b) then
          identical <~ rec a b ;;
          if negb identical then ret false else
          a' <~ get_next a ;;
          b' <~ get_next b ;;
          cj_arr_loop lf' a' b'
        else
          if negb (is_null a) || negb (is_null b) then ret false else ret true
    end.
  Fixpoint cj_obj_loop (lf : nat) (a b : ptr) {struct lf} : M bool :=
    match lf with
    | O => fail NoFuel
    | S lf' =>
        if negb (is_null a) && negb (is_null b) then
          ka <~ get_key a ;;
          kb <~ get_key b ;;
          c <~ SortDefs.compare_strings ka kb flag ;;
          if negb (c =? 0) then ret false else
          identical <~ rec a b ;;
          if negb identical then ret false else
          a' <~ get_next a ;;
          b' <~ get_next b ;;
          cj_obj_loop lf' a' b'
        else
          if negb (is_null a) || negb (is_null b) then ret false else ret true
    end.
End CJLoops.

Lemma compare_json_fuel_S df lfuel a b flag :
  compare_json_fuel (S df) lfuel a b flag =
  (if is_null a || is_null b then ret false else
   ta <~ get_type a ;;
   tb <~ get_type b ;;
   if negb (Z.land ta 255 =? Z.land tb 255) then ret false else
   ta2 <~ get_type a ;;
   let k := Z.land ta2 255 in
   if k =? c_cJSON_Number then
     ai <~ get_vint a ;;
     bi <~ get_vint b ;;
     if negb (ai =? bi) then ret false else
     ad <~ get_vdbl a ;;
     bd <~ get_vdbl b ;;
     if negb (compare_double ad bd) then ret false else ret true
   else if k =? c_cJSON_String then
     av <~ get_vstr a ;;
     bv <~ get_vstr b ;;
     sa <~ ld_cstr av ;;
     sb <~ ld_cstr bv ;;
     if negb (strcmp sa sb =? 0) then ret false else ret true
   else if k =? c_cJSON_Array then
     a1 <~ get_child a ;;
     b1 <~ get_child b ;;
     cj_arr_loop (fun a b => compare_json_fuel df lfuel a b flag) lfuel a1 b1
   else if k =? c_cJSON_Object then
     SortDefs.sort_object (S (S lfuel)) a flag ;;;
     SortDefs.sort_object (S (S lfuel)) b flag ;;;
     a1 <~ get_child a ;;
     b1 <~ get_child b ;;
     cj_obj_loop (fun a b => compare_json_fuel df lfuel a b flag) flag lfuel a1 b1
   else ret true).
Proof. reflexivity. Qed.

(** * what a comparison of [ta] (at [pa] in [ra]) with [tb] (at [pb] in [rb]) delivers *)
Definition CmpSpec (flag : bool) (ta : tree) : Prop :=
  forall h A B C ra rb pa pb tb df lf vf r va' vb',
    MInv h (F2 A B C ra rb) -> subtree_t ra pa = Some ta -> subtree_t rb pb = Some tb ->
    all_keyed (h_str h) ta -> all_keyed (h_str h) tb ->
    (height ta < df)%nat -> (Pos.to_nat (h_next h) <= lf)%nat ->
    PatchDefs.compare_json vf (reify (h_str h) ta) (reify (h_str h) tb) flag = Ok (r, va', vb') ->
    exists h' ta' tb',
      compare_json_fuel df lf (Some (tid ta)) (Some (tid tb)) flag h = Ret (r, h') /\
      MInv h' (F2 A B C (put_t ra pa ta') (put_t rb pb tb')) /\
      h_str h' = h_str h /\ h_live h' = h_live h /\ h_own h' = h_own h /\ h_next h' = h_next h /\
      reify (h_str h) ta' = va' /\ reify (h_str h) tb' = vb' /\
      tid ta' = tid ta /\ tid tb' = tid tb /\ tdata ta' = tdata ta /\ tdata tb' = tdata tb /\
      datas (F2 A B C (put_t ra pa ta') (put_t rb pb tb')) ≡ₚ datas (F2 A B C ra rb).

(** ** reading node fields *)
Section Fields.
  Context (h : heap) (F : forest).
  Hypothesis I : MInv h F.
  Let W : WF h F := mi_wf _ _ I.
  Lemma node_live_dat p d cs : T p d cs ∈ nodes F -> p ∈ h_live h /\ h_dat h !! p = Some (mk_dat d (tid <$> cs)).
  Proof. intros Hn. exact (WF_live_dat _ _ _ _ _ W (node_find h F I _ Hn)). Qed.
  Lemma run_get_type p d cs : T p d cs ∈ nodes F -> get_type (Some p) h = Ret (rd_type d, h).
  Proof. intros Hn. destruct (node_live_dat p d cs Hn) as [Hl Hd]. exact (run_get_type_plain _ _ _ Hl Hd). Qed.
  Lemma run_get_vint p d cs : T p d cs ∈ nodes F -> get_vint (Some p) h = Ret (rd_vint d, h).
  Proof. intros Hn. destruct (node_live_dat p d cs Hn) as [Hl Hd]. unfold get_vint. by rewrite (bindM_Ret _ _ _ _ _ (run_ld_dat_plain _ _ _ Hl Hd)). Qed.
  Lemma run_get_vdbl p d cs : T p d cs ∈ nodes F -> get_vdbl (Some p) h = Ret (rd_vdbl d, h).
  Proof. intros Hn. destruct (node_live_dat p d cs Hn) as [Hl Hd]. unfold get_vdbl. by rewrite (bindM_Ret _ _ _ _ _ (run_ld_dat_plain _ _ _ Hl Hd)). Qed.
  Lemma run_get_key p d cs : T p d cs ∈ nodes F -> get_key (Some p) h = Ret (rd_key d, h).
  Proof. intros Hn. destruct (node_live_dat p d cs Hn) as [Hl Hd]. exact (run_get_key_plain _ _ _ Hl Hd). Qed.
  Lemma run_get_child p d cs : T p d cs ∈ nodes F -> get_child (Some p) h = Ret (tid <$> head cs, h).
  Proof.
    intros Hn. destruct (node_live_dat p d cs Hn) as [Hl Hd]. rewrite (run_get_child_plain _ _ _ Hl Hd).
    change (nd_child (mk_dat d (tid <$> cs))) with (child_of d (tid <$> cs)).
    rewrite (ref_ok_child_of _ _ _ _ (wf_ref _ _ W) (find_tree_flat _ _ _ _ (node_find h F I _ Hn)) (node_not_ref h F I _ _ _ Hn)).
    by destruct cs.
  Qed.
  Lemma run_get_next_child p d cs (k : nat) c : T p d cs ∈ nodes F -> cs !! k = Some c ->
    get_next (Some (tid c)) h = Ret (tid <$> cs !! S k, h).
  Proof.
    intros Hn Hk. exact (proj1 (proj2 (proj2 (goi_child h F p d cs W (MInv_KeysReadable _ _ I) (node_find h F I _ Hn) k c Hk)))).
  Qed.
  Lemma children_fuel p d cs : T p d cs ∈ nodes F -> (length cs < Pos.to_nat (h_next h))%nat.
  Proof.
    intros Hn. pose proof (chain_fuel _ _ _ _ _ W (find_tree_flat _ _ _ _ (node_find h F I _ Hn))) as H. by rewrite fmap_length in H.
  Qed.

  (** compare_strings on two keys *)
  Lemma strcmp_refl (s : bytes) : strcmp s s = 0.
  Proof. induction s as [|c r IH]; [done|]. cbn. by rewrite Z.eqb_refl. Qed.
  Lemma strcasecmp_refl (s : bytes) : strcasecmp_c s s = 0.
  Proof. induction s as [|c r IH]; [done|]. cbn. by rewrite Z.eqb_refl. Qed.
  Lemma run_compare_keys x y flag : x ∈ nodes F -> y ∈ nodes F ->
    SortDefs.compare_strings (rd_key (tdata x)) (rd_key (tdata y)) flag h =
    Ret (PatchDefs.compare_strings (key_string (h_str h) x) (key_string (h_str h) y) flag, h).
  Proof.
    intros Hx Hy. unfold SortDefs.compare_strings, PatchDefs.compare_strings, key_string.
    destruct (rd_key (tdata x)) as [a|] eqn:Ea; cbn [mbind option_bind]; [|done].
    destruct (proj2 (proj2 (MInv_node_data _ _ I _ Hx)) a Ea) as (Hal & sa & Has & Haz). unfold bytes in *. rewrite Has. cbn [mbind option_bind].
    destruct (rd_key (tdata y)) as [b|] eqn:Eb; cbn [mbind option_bind]; [|done].
    destruct (proj2 (proj2 (MInv_node_data _ _ I _ Hy)) b Eb) as (Hbl & sb & Hbs & Hbz). unfold bytes in *. rewrite Hbs. cbn [mbind option_bind].
    destruct (Pos.eqb_spec a b) as [->|Hne].
    - assert (sa = sb) as -> by congruence. destruct flag; [by rewrite strcmp_refl|by rewrite strcasecmp_refl].
    - rewrite (bindM_Ret _ _ _ _ _ (run_ld_cstr _ _ _ Hal Has Haz)). rewrite (bindM_Ret _ _ _ _ _ (run_ld_cstr _ _ _ Hbl Hbs Hbz)). done.
  Qed.
End Fields.

(** ** nodes of the two roots *)
Lemma F2_node_a A B C ra rb pa n : subtree_t ra pa = Some n -> n ∈ nodes (F2 A B C ra rb).
Proof.
  intros Hs. unfold F2. rewrite nodes_app, nodes_cons, nodes_app, nodes_cons. apply elem_of_app. right. apply elem_of_app. right.
  apply elem_of_app. right. apply elem_of_app. left. by eapply subtree_t_nodes.
Qed.
Lemma F2_node_b A B C ra rb pb n : subtree_t rb pb = Some n -> n ∈ nodes (F2 A B C ra rb).
Proof.
  intros Hs. unfold F2. rewrite nodes_app, nodes_cons. apply elem_of_app. right. apply elem_of_app. left. by eapply subtree_t_nodes.
Qed.

Lemma insert_middle {X} (pre : list X) x x' rest : <[length pre := x']> (pre ++ x :: rest) = pre ++ x' :: rest.
Proof. rewrite insert_app_r_alt by lia. by rewrite Nat.sub_diag. Qed.
Lemma lookup_middle_S {X} (pre : list X) x rest : (pre ++ x :: rest) !! S (length pre) = head rest.
Proof. rewrite lookup_app_r by lia. replace (S (length pre) - length pre)%nat with 1%nat by lia. by destruct rest. Qed.

(** ** one pair of children *)
Lemma pair_step flag h A B C ra rb pa pb a da prea x resta b db preb y restb df lf vf r xv yv :
  CmpSpec flag x -> MInv h (F2 A B C ra rb) ->
  subtree_t ra pa = Some (T a da (prea ++ x :: resta)) -> subtree_t rb pb = Some (T b db (preb ++ y :: restb)) ->
  length prea = length preb -> all_keyed (h_str h) x -> all_keyed (h_str h) y ->
  (height x < df)%nat -> (Pos.to_nat (h_next h) <= lf)%nat ->
  PatchDefs.compare_json vf (reify (h_str h) x) (reify (h_str h) y) flag = Ok (r, xv, yv) ->
  exists h' x' y',
    compare_json_fuel df lf (Some (tid x)) (Some (tid y)) flag h = Ret (r, h') /\
    MInv h' (F2 A B C (put_t ra pa (T a da (prea ++ x' :: resta))) (put_t rb pb (T b db (preb ++ y' :: restb)))) /\
    h_str h' = h_str h /\ h_live h' = h_live h /\ h_own h' = h_own h /\ h_next h' = h_next h /\
    reify (h_str h) x' = xv /\ reify (h_str h) y' = yv /\ tid x' = tid x /\ tid y' = tid y /\ tdata x' = tdata x /\ tdata y' = tdata y /\
    get_next (Some (tid x)) h' = Ret (tid <$> head resta, h') /\ get_next (Some (tid y)) h' = Ret (tid <$> head restb, h') /\
    datas (F2 A B C (put_t ra pa (T a da (prea ++ x' :: resta))) (put_t rb pb (T b db (preb ++ y' :: restb)))) ≡ₚ datas (F2 A B C ra rb).
Proof.
  intros Hspec I Ha Hb Hlen Hkx Hky Hh Hlf Hv.
  set (k := length prea).
  assert (Hxa : subtree_t ra (pa ++ [k]) = Some x) by (rewrite (subtree_t_snoc _ _ _ _ _ k Ha); apply list_lookup_middle; done).
  assert (Hyb : subtree_t rb (pb ++ [k]) = Some y) by (rewrite (subtree_t_snoc _ _ _ _ _ k Hb); apply list_lookup_middle; unfold k; lia).
  destruct (Hspec h A B C ra rb (pa ++ [k]) (pb ++ [k]) y df lf vf r xv yv I Hxa Hyb Hkx Hky Hh Hlf Hv)
    as (h' & x' & y' & Hrun & I' & Es & El & Eo & En & Hrx & Hry & Htx & Hty & Hdx & Hdy & HDD).
  rewrite (put_t_snoc ra pa a da (prea ++ x :: resta) k x x' Ha ltac:(by apply list_lookup_middle)) in I', HDD.
  rewrite (put_t_snoc rb pb b db (preb ++ y :: restb) k y y' Hb ltac:(apply list_lookup_middle; unfold k; lia)) in I', HDD.
  unfold k in I', HDD. rewrite insert_middle in I', HDD. rewrite Hlen, insert_middle in I', HDD.
  exists h', x', y'. split; [exact Hrun|]. split; [exact I'|]. do 10 (split; [done|]).
  set (ra1 := put_t ra pa (T a da (prea ++ x' :: resta))) in *. set (rb1 := put_t rb pb (T b db (preb ++ y' :: restb))) in *.
  assert (Hna : T a da (prea ++ x' :: resta) ∈ nodes (F2 A B C ra1 rb1)).
  { apply (F2_node_a A B C ra1 rb1 pa). unfold ra1. by eapply subtree_t_put. }
  assert (Hnb : T b db (preb ++ y' :: restb) ∈ nodes (F2 A B C ra1 rb1)).
  { apply (F2_node_b A B C ra1 rb1 pb). unfold rb1. by eapply subtree_t_put. }
  split; [|split; [|exact HDD]].
  - rewrite <- Htx. rewrite (run_get_next_child h' _ I' a da _ (length prea) x' Hna ltac:(by apply list_lookup_middle)).
    by rewrite lookup_middle_S.
  - rewrite <- Hty. rewrite (run_get_next_child h' _ I' b db _ (length preb) y' Hnb ltac:(by apply list_lookup_middle)).
    by rewrite lookup_middle_S.
Qed.

(** ** the array loop *)
Lemma arr_loop_sim flag df lfuel vf : forall resta, Forall (CmpSpec flag) resta ->
  forall restb h A B C ra rb pa pb a da prea b db preb lf r la2 lb2,
    MInv h (F2 A B C ra rb) ->
    subtree_t ra pa = Some (T a da (prea ++ resta)) -> subtree_t rb pb = Some (T b db (preb ++ restb)) ->
    length prea = length preb ->
    Forall (all_keyed (h_str h)) resta -> Forall (all_keyed (h_str h)) restb ->
    (forall x, x ∈ resta -> height x < df)%nat -> (Pos.to_nat (h_next h) <= lfuel)%nat -> (length resta < lf)%nat ->
    PatchDefs.cmp_arr (fun x y => PatchDefs.compare_json vf x y flag) (map (reify (h_str h)) resta) (map (reify (h_str h)) restb) = Ok (r, la2, lb2) ->
    exists h' resta' restb',
      cj_arr_loop (fun a b => compare_json_fuel df lfuel a b flag) lf (tid <$> head resta) (tid <$> head restb) h = Ret (r, h') /\
      MInv h' (F2 A B C (put_t ra pa (T a da (prea ++ resta'))) (put_t rb pb (T b db (preb ++ restb')))) /\
      h_str h' = h_str h /\ h_live h' = h_live h /\ h_own h' = h_own h /\ h_next h' = h_next h /\
      map (reify (h_str h)) resta' = la2 /\ map (reify (h_str h)) restb' = lb2 /\
      datas (F2 A B C (put_t ra pa (T a da (prea ++ resta'))) (put_t rb pb (T b db (preb ++ restb')))) ≡ₚ datas (F2 A B C ra rb).
Proof.
  induction resta as [|x resta IH]; intros Hspec restb h A B C ra rb pa pb a da prea b db preb lf r la2 lb2 I Ha Hb Hlen Hka Hkb Hh Hlf Hfuel Hv;
    (destruct lf as [|lf]; [cbn in Hfuel; lia|]); cbn [cj_arr_loop head fmap option_fmap option_map is_null negb andb].
  - (* a exhausted *)
    destruct restb as [|y restb]; cbn [map PatchDefs.cmp_arr head fmap option_fmap option_map is_null negb orb] in *.
    + injection Hv as <- <- <-. exists h, [], []. rewrite (put_t_id ra pa _ Ha), (put_t_id rb pb _ Hb). done.
    + injection Hv as <- <- <-. exists h, [], (y :: restb). rewrite (put_t_id ra pa _ Ha), (put_t_id rb pb _ Hb). done.
  - destruct restb as [|y restb]; cbn [map PatchDefs.cmp_arr head fmap option_fmap option_map is_null negb andb orb] in *.
    + injection Hv as <- <- <-. exists h, (x :: resta), []. rewrite (put_t_id ra pa _ Ha), (put_t_id rb pb _ Hb). done.
    + apply Forall_cons in Hspec as [Hsx Hsr]. apply Forall_cons in Hka as [Hkx Hkar]. apply Forall_cons in Hkb as [Hky Hkbr].
      destruct (PatchDefs.compare_json vf (reify (h_str h) x) (reify (h_str h) y) flag) as [[[r1 xv] yv]| |] eqn:Ev; cbn [bind] in Hv; [|done|done].
      destruct (pair_step flag h A B C ra rb pa pb a da prea x resta b db preb y restb df lfuel vf r1 xv yv Hsx I Ha Hb Hlen Hkx Hky
                  (Hh x ltac:(by left)) Hlf Ev)
        as (h1 & x' & y' & Hrun & I1 & Es & El & Eo & En & Hrx & Hry & Htx & Hty & Hdx & Hdy & Hnx & Hny & HD1).
      rewrite (bindM_Ret _ _ _ _ _ Hrun). destruct r1; cbn [negb].
      * rewrite (bindM_Ret _ _ _ _ _ Hnx), (bindM_Ret _ _ _ _ _ Hny).
        destruct (PatchDefs.cmp_arr (fun x y => PatchDefs.compare_json vf x y flag) (map (reify (h_str h)) resta) (map (reify (h_str h)) restb))
          as [[[r2 la3] lb3]| |] eqn:Ev2; cbn [bind] in Hv; [|done|done]. injection Hv as <- <- <-.
        set (ra1 := put_t ra pa (T a da (prea ++ x' :: resta))) in *. set (rb1 := put_t rb pb (T b db (preb ++ y' :: restb))) in *.
        destruct (IH Hsr restb h1 A B C ra1 rb1 pa pb a da (prea ++ [x']) b db (preb ++ [y']) lf r2 la3 lb3 I1) as (h2 & ra' & rb' & Hrun2 & I2 & Es2 & El2 & Eo2 & En2 & Hra & Hrb & HD2).
        { unfold ra1. rewrite <- app_assoc. by eapply subtree_t_put. }
        { unfold rb1. rewrite <- app_assoc. by eapply subtree_t_put. }
        { rewrite !app_length. cbn. lia. }
        { by rewrite Es. } { by rewrite Es. }
        { intros z Hz. apply Hh. by right. }
        { by rewrite En. } { cbn in Hfuel. lia. }
        { by rewrite Es. }
        exists h2, (x' :: ra'), (y' :: rb'). split; [exact Hrun2|].
        unfold ra1, rb1 in I2, HD2. rewrite (put_t_put ra pa _ _ _ Ha), (put_t_put rb pb _ _ _ Hb), <- !app_assoc in I2, HD2.
        split; [exact I2|]. rewrite Es2, El2, Eo2, En2. do 4 (split; [done|]).
        rewrite Es in Hra, Hrb. cbn [map]. split; [by rewrite Hrx, Hra|]. split; [by rewrite Hry, Hrb|]. by rewrite HD2.
      * injection Hv as <- <- <-. exists h1, (x' :: resta), (y' :: restb). split; [done|]. split; [exact I1|].
        do 4 (split; [done|]). cbn [map]. split; [by rewrite Hrx|]. split; [by rewrite Hry|]. exact HD1.
Qed.

(** ** the object loop *)
Lemma obj_loop_sim flag df lfuel vf : forall resta, Forall (CmpSpec flag) resta ->
  forall restb h A B C ra rb pa pb a da prea b db preb lf r la2 lb2,
    MInv h (F2 A B C ra rb) ->
    subtree_t ra pa = Some (T a da (prea ++ resta)) -> subtree_t rb pb = Some (T b db (preb ++ restb)) ->
    length prea = length preb ->
    Forall (all_keyed (h_str h)) resta -> Forall (all_keyed (h_str h)) restb ->
    (forall x, x ∈ resta -> height x < df)%nat -> (Pos.to_nat (h_next h) <= lfuel)%nat -> (length resta < lf)%nat ->
    PatchDefs.cmp_obj (fun x y => PatchDefs.compare_json vf x y flag) flag (map (reify (h_str h)) resta) (map (reify (h_str h)) restb) = Ok (r, la2, lb2) ->
    exists h' resta' restb',
      cj_obj_loop (fun a b => compare_json_fuel df lfuel a b flag) flag lf (tid <$> head resta) (tid <$> head restb) h = Ret (r, h') /\
      MInv h' (F2 A B C (put_t ra pa (T a da (prea ++ resta'))) (put_t rb pb (T b db (preb ++ restb')))) /\
      h_str h' = h_str h /\ h_live h' = h_live h /\ h_own h' = h_own h /\ h_next h' = h_next h /\
      map (reify (h_str h)) resta' = la2 /\ map (reify (h_str h)) restb' = lb2 /\
      datas (F2 A B C (put_t ra pa (T a da (prea ++ resta'))) (put_t rb pb (T b db (preb ++ restb')))) ≡ₚ datas (F2 A B C ra rb).
Proof.
  induction resta as [|x resta IH]; intros Hspec restb h A B C ra rb pa pb a da prea b db preb lf r la2 lb2 I Ha Hb Hlen Hka Hkb Hh Hlf Hfuel Hv;
    (destruct lf as [|lf]; [cbn in Hfuel; lia|]); cbn [cj_obj_loop head fmap option_fmap option_map is_null negb andb].
  - destruct restb as [|y restb]; cbn [map PatchDefs.cmp_obj head fmap option_fmap option_map is_null negb orb] in *.
    + injection Hv as <- <- <-. exists h, [], []. rewrite (put_t_id ra pa _ Ha), (put_t_id rb pb _ Hb). done.
    + injection Hv as <- <- <-. exists h, [], (y :: restb). rewrite (put_t_id ra pa _ Ha), (put_t_id rb pb _ Hb). done.
  - destruct restb as [|y restb]; cbn [map PatchDefs.cmp_obj head fmap option_fmap option_map is_null negb andb orb] in *.
    + injection Hv as <- <- <-. exists h, (x :: resta), []. rewrite (put_t_id ra pa _ Ha), (put_t_id rb pb _ Hb). done.
    + apply Forall_cons in Hspec as [Hsx Hsr]. apply Forall_cons in Hka as [Hkx Hkar]. apply Forall_cons in Hkb as [Hky Hkbr].
      set (k := length prea).
      assert (Hxn : x ∈ nodes (F2 A B C ra rb)).
      { apply (F2_node_a A B C ra rb (pa ++ [k])). rewrite (subtree_t_snoc _ _ _ _ _ k Ha). by apply list_lookup_middle. }
      assert (Hyn : y ∈ nodes (F2 A B C ra rb)).
      { apply (F2_node_b A B C ra rb (pb ++ [k])). rewrite (subtree_t_snoc _ _ _ _ _ k Hb). apply list_lookup_middle. unfold k. lia. }
      destruct x as [xi xd xcs] eqn:Ex. destruct y as [yi yd ycs] eqn:Ey. rewrite <- Ex, <- Ey in *.
      assert (Hgx : get_key (Some (tid x)) h = Ret (rd_key (tdata x), h)) by (rewrite Ex; exact (run_get_key h _ I xi xd xcs ltac:(by rewrite <- Ex))).
      assert (Hgy : get_key (Some (tid y)) h = Ret (rd_key (tdata y), h)) by (rewrite Ey; exact (run_get_key h _ I yi yd ycs ltac:(by rewrite <- Ey))).
      rewrite (bindM_Ret _ _ _ _ _ Hgx), (bindM_Ret _ _ _ _ _ Hgy).
      rewrite (bindM_Ret _ _ _ _ _ (run_compare_keys h _ I x y flag Hxn Hyn)).
      rewrite !reify_key in Hv.
      destruct (negb (PatchDefs.compare_strings (key_string (h_str h) x) (key_string (h_str h) y) flag =? 0)) eqn:Ekey.
      { injection Hv as <- <- <-. exists h, (x :: resta), (y :: restb). rewrite (put_t_id ra pa _ Ha), (put_t_id rb pb _ Hb). done. }
      destruct (PatchDefs.compare_json vf (reify (h_str h) x) (reify (h_str h) y) flag) as [[[r1 xv] yv]| |] eqn:Ev; cbn [bind] in Hv; [|done|done].
      destruct (pair_step flag h A B C ra rb pa pb a da prea x resta b db preb y restb df lfuel vf r1 xv yv Hsx I Ha Hb Hlen Hkx Hky
                  (Hh x ltac:(by left)) Hlf Ev)
        as (h1 & x' & y' & Hrun & I1 & Es & El & Eo & En & Hrx & Hry & Htx & Hty & Hdx & Hdy & Hnx & Hny & HD1).
      rewrite (bindM_Ret _ _ _ _ _ Hrun). destruct r1; cbn [negb].
      * rewrite (bindM_Ret _ _ _ _ _ Hnx), (bindM_Ret _ _ _ _ _ Hny).
        destruct (PatchDefs.cmp_obj (fun x y => PatchDefs.compare_json vf x y flag) flag (map (reify (h_str h)) resta) (map (reify (h_str h)) restb))
          as [[[r2 la3] lb3]| |] eqn:Ev2; cbn [bind] in Hv; [|done|done]. injection Hv as <- <- <-.
        set (ra1 := put_t ra pa (T a da (prea ++ x' :: resta))) in *. set (rb1 := put_t rb pb (T b db (preb ++ y' :: restb))) in *.
        destruct (IH Hsr restb h1 A B C ra1 rb1 pa pb a da (prea ++ [x']) b db (preb ++ [y']) lf r2 la3 lb3 I1) as (h2 & ra' & rb' & Hrun2 & I2 & Es2 & El2 & Eo2 & En2 & Hra & Hrb & HD2).
        { unfold ra1. rewrite <- app_assoc. by eapply subtree_t_put. }
        { unfold rb1. rewrite <- app_assoc. by eapply subtree_t_put. }
        { rewrite !app_length. cbn. lia. }
        { by rewrite Es. } { by rewrite Es. }
        { intros z Hz. apply Hh. by right. }
        { by rewrite En. } { cbn in Hfuel. lia. }
        { by rewrite Es. }
        exists h2, (x' :: ra'), (y' :: rb'). split; [exact Hrun2|].
        unfold ra1, rb1 in I2, HD2. rewrite (put_t_put ra pa _ _ _ Ha), (put_t_put rb pb _ _ _ Hb), <- !app_assoc in I2, HD2.
        split; [exact I2|]. rewrite Es2, El2, Eo2, En2. do 4 (split; [done|]).
        rewrite Es in Hra, Hrb. cbn [map]. split; [by rewrite Hrx, Hra|]. split; [by rewrite Hry, Hrb|]. by rewrite HD2.
      * injection Hv as <- <- <-. exists h1, (x' :: resta), (y' :: restb). split; [done|]. split; [exact I1|].
        do 4 (split; [done|]). cbn [map]. split; [by rewrite Hrx|]. split; [by rewrite Hry|]. exact HD1.
Qed.

(** * compare_json *)
Lemma all_keyed_children St i d cs : all_keyed St (T i d cs) -> Forall (all_keyed St) cs.
Proof. intros H. apply Forall_forall. intros c Hc. by eapply all_keyed_child. Qed.
Lemma all_keyed_self St i d cs : all_keyed St (T i d cs) -> Z.land (rd_type d) 255 = c_cJSON_Object -> Forall (has_key St) cs.
Proof. intros H Ho. apply (H i d cs); [apply nodes_t_self|done]. Qed.
Lemma all_keyed_perm St cs cs' : cs' ≡ₚ cs -> Forall (all_keyed St) cs -> Forall (all_keyed St) cs'.
Proof. intros HP H. by rewrite HP. Qed.

Theorem compare_rec flag : forall ta, CmpSpec flag ta.
Proof.
  induction ta as [a da csa IH] using tree_ind'.
  intros h A B C ra rb pa pb tb df lf vf r va' vb' I Ha Hb Hka Hkb Hh Hlf Hv.
  destruct tb as [b db csb]. destruct df as [|df]; [lia|]. destruct vf as [|vf]; [done|].
  set (F := F2 A B C ra rb) in *.
  pose proof (F2_node_a A B C ra rb pa _ Ha) as Hna. pose proof (F2_node_b A B C ra rb pb _ Hb) as Hnb. fold F in Hna, Hnb.
  cbn [tid]. cbn [PatchDefs.compare_json] in Hv. unfold Tree.tymask in Hv.
  change (Tree.n_ty (reify (h_str h) (T a da csa))) with (rd_type da) in Hv. change (Tree.n_ty (reify (h_str h) (T b db csb))) with (rd_type db) in Hv.
  assert (Hrun0 : forall K : Z -> Z -> Z -> M bool,
    (ta0 <~ get_type (Some a) ;; tb0 <~ get_type (Some b) ;;
     if negb (Z.land ta0 255 =? Z.land tb0 255) then ret false else ta2 <~ get_type (Some a) ;; K ta0 tb0 ta2) h =
    (if negb (Z.land (rd_type da) 255 =? Z.land (rd_type db) 255) then ret false else K (rd_type da) (rd_type db) (rd_type da)) h).
  { intros K. rewrite (bindM_Ret _ _ _ _ _ (run_get_type h F I a da csa Hna)). rewrite (bindM_Ret _ _ _ _ _ (run_get_type h F I b db csb Hnb)).
    destruct (negb _); [done|]. by rewrite (bindM_Ret _ _ _ _ _ (run_get_type h F I a da csa Hna)). }
  rewrite compare_json_fuel_S. cbn [is_null orb]. rewrite Hrun0. clear Hrun0.
  destruct (negb (Z.land (rd_type da) 255 =? Z.land (rd_type db) 255)) eqn:Ety.
  { injection Hv as <- <- <-. exists h, (T a da csa), (T b db csb). rewrite (put_t_id ra pa _ Ha), (put_t_id rb pb _ Hb). done. }
  cbv zeta.
  destruct (Z.land (rd_type da) 255 =? c_cJSON_Number) eqn:Enum.
  { (* numbers *)
    rewrite (bindM_Ret _ _ _ _ _ (run_get_vint h F I a da csa Hna)). rewrite (bindM_Ret _ _ _ _ _ (run_get_vint h F I b db csb Hnb)).
    change (Tree.n_vint (reify (h_str h) (T a da csa))) with (rd_vint da) in Hv. change (Tree.n_vint (reify (h_str h) (T b db csb))) with (rd_vint db) in Hv.
    change (Tree.n_vdbl (reify (h_str h) (T a da csa))) with (rd_vdbl da) in Hv. change (Tree.n_vdbl (reify (h_str h) (T b db csb))) with (rd_vdbl db) in Hv.
    injection Hv as <- <- <-.
    destruct (rd_vint da =? rd_vint db); cbn [negb orb].
    - rewrite (bindM_Ret _ _ _ _ _ (run_get_vdbl h F I a da csa Hna)). rewrite (bindM_Ret _ _ _ _ _ (run_get_vdbl h F I b db csb Hnb)).
      exists h, (T a da csa), (T b db csb). rewrite (put_t_id ra pa _ Ha), (put_t_id rb pb _ Hb).
      split; [by destruct (compare_double (rd_vdbl da) (rd_vdbl db))|]. done.
    - exists h, (T a da csa), (T b db csb). rewrite (put_t_id ra pa _ Ha), (put_t_id rb pb _ Hb). done. }
  destruct (Z.land (rd_type da) 255 =? c_cJSON_String) eqn:Estr.
  { (* strings *)
    destruct (node_vstr h F I a da csa Hna) as (Hga & Hsa & Hnona). destruct (node_vstr h F I b db csb Hnb) as (Hgb & Hsb & Hnonb).
    rewrite (bindM_Ret _ _ _ _ _ Hga), (bindM_Ret _ _ _ _ _ Hgb).
    destruct (rd_vstr da) as [va|] eqn:Eva; [|rewrite (Hnona eq_refl) in Hv; done].
    destruct (Hsa va eq_refl) as (sa & Hal & Has & Haz & Hav). rewrite Hav in Hv.
    destruct (rd_vstr db) as [vb|] eqn:Evb; [|rewrite (Hnonb eq_refl) in Hv; done].
    destruct (Hsb vb eq_refl) as (sb & Hbl & Hbs & Hbz & Hbv). rewrite Hbv in Hv. injection Hv as <- <- <-.
    rewrite (bindM_Ret _ _ _ _ _ (run_ld_cstr _ _ _ Hal Has Haz)), (bindM_Ret _ _ _ _ _ (run_ld_cstr _ _ _ Hbl Hbs Hbz)).
    exists h, (T a da csa), (T b db csb). rewrite (put_t_id ra pa _ Ha), (put_t_id rb pb _ Hb).
    split; [by destruct (strcmp (cstr sa) (cstr sb) =? 0)|]. done. }
  assert (Hhc : forall x, x ∈ csa -> (height x < df)%nat).
  { intros x Hx. pose proof (height_list_elem x csa Hx). rewrite height_unfold in Hh. lia. }
  destruct (Z.land (rd_type da) 255 =? c_cJSON_Array) eqn:Earr.
  { (* arrays *)
    rewrite (bindM_Ret _ _ _ _ _ (run_get_child h F I a da csa Hna)), (bindM_Ret _ _ _ _ _ (run_get_child h F I b db csb Hnb)).
    rewrite !reify_children in Hv. cbn [tchildren] in Hv.
    destruct (PatchDefs.cmp_arr (fun x y => PatchDefs.compare_json vf x y flag) (map (reify (h_str h)) csa) (map (reify (h_str h)) csb)) as [[[r1 ca] cb]| |] eqn:Ec;
      cbn [bind] in Hv; [|done|done]. injection Hv as <- <- <-.
    destruct (arr_loop_sim flag df lf vf csa IH csb h A B C ra rb pa pb a da [] b db [] lf r1 ca cb I Ha Hb eq_refl
                (all_keyed_children _ _ _ _ Hka) (all_keyed_children _ _ _ _ Hkb) Hhc Hlf
                ltac:(pose proof (children_fuel h F I a da csa Hna); lia) Ec)
      as (h' & csa' & csb' & Hrun & I' & Es & El & Eo & En & Hra & Hrb & HDD).
    exists h', (T a da csa'), (T b db csb'). split; [exact Hrun|]. split; [exact I'|]. do 4 (split; [done|]).
    split; [by rewrite <- Hra|]. split; [by rewrite <- Hrb|]. done. }
  destruct (Z.land (rd_type da) 255 =? c_cJSON_Object) eqn:Eobj.
  2:{ injection Hv as <- <- <-. exists h, (T a da csa), (T b db csb). rewrite (put_t_id ra pa _ Ha), (put_t_id rb pb _ Hb). done. }
  (* objects: sort both, then compare member by member *)
  apply Z.eqb_eq in Eobj. apply negb_false_iff, Z.eqb_eq in Ety.
  pose proof (wf_nodup _ _ (mi_wf _ _ I)) as ND.
  assert (Hfa : find_tree a F = Some (T a da csa)) by (exact (node_find h F I _ Hna)).
  pose proof (children_fuel h F I a da csa Hna) as Hfla.
  destruct (sort_step h F a da csa flag (S (S lf)) I Hfa (all_keyed_self _ _ _ _ Hka Eobj) ltac:(lia)) as (h1 & Hs1 & I1 & Es1 & El1 & Eo1 & En1 & Hv1 & HP1 & HD1).
  set (csa1 := sort_children (h_str h) flag csa) in *.
  assert (EF1 : set_children a csa1 F = F2 A B C (put_t ra pa (T a da csa1)) rb).
  { unfold F. rewrite !F2_a. apply (set_children_at (A ++ rb :: B) C ra pa a da csa csa1); [|done]. by rewrite <- F2_a. }
  rewrite EF1 in I1, HD1. set (ra1 := put_t ra pa (T a da csa1)) in *. set (F1 := F2 A B C ra1 rb) in *.
  pose proof (F2_node_b A B C ra1 rb pb _ Hb) as Hnb1. fold F1 in Hnb1.
  assert (Hfb1 : find_tree b F1 = Some (T b db csb)) by (exact (node_find h1 F1 I1 _ Hnb1)).
  pose proof (children_fuel h1 F1 I1 b db csb Hnb1) as Hflb.
  destruct (sort_step h1 F1 b db csb flag (S (S lf)) I1 Hfb1 ltac:(rewrite Es1; apply (all_keyed_self _ _ _ _ Hkb); congruence) ltac:(rewrite En1 in Hflb; lia))
    as (h2 & Hs2 & I2 & Es2 & El2 & Eo2 & En2 & Hv2 & HP2 & HD2).
  rewrite Es1 in Hv2, HP2, I2, HD2. set (csb1 := sort_children (h_str h) flag csb) in *.
  assert (EF2 : set_children b csb1 F1 = F2 A B C ra1 (put_t rb pb (T b db csb1))).
  { unfold F1, F2. apply (set_children_at A (B ++ ra1 :: C) rb pb b db csb csb1); [|done]. exact (wf_nodup _ _ (mi_wf _ _ I1)). }
  rewrite EF2 in I2, HD2. set (rb1 := put_t rb pb (T b db csb1)) in *. set (F2' := F2 A B C ra1 rb1) in *.
  rewrite (bindM_Ret _ _ _ _ _ Hs1), (bindM_Ret _ _ _ _ _ Hs2).
  assert (Ha2 : subtree_t ra1 pa = Some (T a da csa1)) by (unfold ra1; by eapply subtree_t_put).
  assert (Hb2 : subtree_t rb1 pb = Some (T b db csb1)) by (unfold rb1; by eapply subtree_t_put).
  pose proof (F2_node_a A B C ra1 rb1 pa _ Ha2) as Hna2. pose proof (F2_node_b A B C ra1 rb1 pb _ Hb2) as Hnb2. fold F2' in Hna2, Hnb2.
  rewrite (bindM_Ret _ _ _ _ _ (run_get_child h2 F2' I2 a da csa1 Hna2)), (bindM_Ret _ _ _ _ _ (run_get_child h2 F2' I2 b db csb1 Hnb2)).
  rewrite Hv1, Hv2 in Hv. cbn [bind] in Hv. rewrite !reify_children in Hv. cbn [tchildren] in Hv.
  destruct (PatchDefs.cmp_obj (fun x y => PatchDefs.compare_json vf x y flag) flag (map (reify (h_str h)) csa1) (map (reify (h_str h)) csb1)) as [[[r1 ca] cb]| |] eqn:Ec;
    cbn [bind] in Hv; [|done|done]. injection Hv as <- <- <-.
  assert (Es12 : h_str h2 = (h_str h)) by (rewrite Es2; exact Es1).
  destruct (obj_loop_sim flag df lf vf csa1 ltac:(rewrite HP1; exact IH) csb1 h2 A B C ra1 rb1 pa pb a da [] b db [] lf r1 ca cb I2 Ha2 Hb2 eq_refl)
    as (h' & csa' & csb' & Hrun & I' & Es & El & Eo & En & Hra & Hrb & HD3).
  { rewrite Es12. apply (all_keyed_perm (h_str h) csa csa1 HP1). by eapply all_keyed_children. }
  { rewrite Es12. apply (all_keyed_perm (h_str h) csb csb1 HP2). by eapply all_keyed_children. }
  { intros x Hx. apply Hhc. by rewrite <- HP1. }
  { rewrite En2, En1. exact Hlf. }
  { rewrite HP1. lia. }
  { rewrite Es12. exact Ec. }
  exists h', (T a da csa'), (T b db csb'). split; [exact Hrun|].
  unfold ra1, rb1 in I', HD3. rewrite (put_t_put ra pa _ _ _ Ha), (put_t_put rb pb _ _ _ Hb) in I', HD3. cbn [app] in I', HD3.
  split; [exact I'|]. rewrite Es, El, Eo, En, Es12, El2, El1, Eo2, Eo1, En2, En1. do 4 (split; [done|]).
  rewrite Es12 in Hra, Hrb. split; [by rewrite <- Hra|]. split; [by rewrite <- Hrb|]. do 4 (split; [done|]).
  etrans; [exact HD3|]. etrans; [exact HD2|]. exact HD1.
Qed.

(** * the [test] operation *)
Lemma height_lt_tsize t : (height t < tsize t)%nat.
Proof.
  induction t as [i d cs IH] using tree_ind'. unfold tsize. rewrite nodes_t_unfold, height_unfold. cbn [length].
  assert (H : (height_list cs <= length (nodes cs))%nat); [|lia].
  induction cs as [|c r IHr]; [done|]. apply Forall_cons in IH as [Hc Hr]. rewrite nodes_cons, app_length. cbn [height_list].
  specialize (IHr Hr). unfold tsize in Hc. lia.
Qed.

Lemma compare_json_null (a b : ptr) flag h : is_null a || is_null b = true -> compare_json a b flag h = Ret (false, h).
Proof.
  intros H. unfold compare_json, heap_fuel. unfold bindM at 1. destruct (Pos.to_nat (h_next h)) as [|n] eqn:E; [lia|].
  cbn [compare_json_fuel]. by rewrite H.
Qed.

Lemma all_keyed_sub St t n : all_keyed St t -> n ∈ nodes_t t -> all_keyed St n.
Proof. intros H Hn i d cs Hi Ho. apply (H i d cs); [|done]. by eapply TierBridgeForest.nodes_t_trans. Qed.

Lemma lib_live_same h h' : h_live h' = h_live h -> h_own h' = h_own h -> lib_live h' = lib_live h.
Proof. intros El Eo. unfold lib_live. by rewrite El, Eo. Qed.

Section Test.
  Context (h : heap) (A B : forest) (doc rb : tree) (ppt : Tree.path) (pid : positive) (dpt : rdata) (cpt : list tree) (flag : bool).
  Notation F := (F2 A B [] doc rb).
  Notation St := (h_str h).
  Notation pt := (T pid dpt cpt).
  Hypothesis I : MInv h F.
  Hypothesis Hpt : subtree_t rb ppt = Some pt.
  Hypothesis Hkd : all_keyed St doc.
  Hypothesis Hkp : all_keyed St pt.

  Definition test_post (o : out (Z * heap)) (vres : Base.res (Z * Tree.node * Tree.node)%type) : Prop :=
    match vres with
    | Ok (st, doc', pt') =>
        exists h' docT ptT,
          o = Ret (st, h') /\ MInv h' (F2 A B [] docT (put_t rb ppt ptT)) /\
          tid docT = tid doc /\ tid ptT = pid /\ tdata ptT = dpt /\ tid <$> tchildren ptT = tid <$> cpt /\
          reify St docT = doc' /\ reify St ptT = pt' /\
          h_str h' = St /\ h_next h' = h_next h /\ (NoLeak h F -> NoLeak h' (F2 A B [] docT (put_t rb ppt ptT))) /\
          datas (F2 A B [] docT (put_t rb ppt ptT)) ≡ₚ datas F
    | _ => True
    end.

  Lemma test_post_unchanged st : test_post (Ret (st, h)) (Ok (st, reify St doc, reify St pt)).
  Proof.
    exists h, doc, pt. rewrite (put_t_id rb ppt _ Hpt). split_and!; done.
  Qed.

  Theorem apply_patch_test_refines :
    PatchDefs.decode_patch_operation (reify St pt) flag = Ok PatchDefs.TEST ->
    test_post (apply_patch nofail (Some (tid doc)) (Some pid) flag h) (PatchDefs.apply_patch (reify St doc) (reify St pt) flag).
  Proof.
    intros Edec. pose proof (F2_node_b A B [] doc rb ppt _ Hpt) as HptF.
    assert (HdocF : doc ∈ nodes F) by (exact (F2_node_a A B [] doc rb [] doc eq_refl)).
    unfold apply_patch, PatchDefs.apply_patch.
    destruct (run_member h F I pid dpt cpt PatchDefs.s_path flag HptF zf_path) as [Hrun Hval]. rewrite Hval. stp Hrun.
    destruct (found_member St flag PatchDefs.s_path cpt) as [[j pathn]|] eqn:Efm; cbn [fmap option_fmap option_map fst snd].
    2:{ unfold cJSON_IsString. cbn [is_null]. rewrite bindM_ret. cbn [negb]. rewrite cleanup_none. apply test_post_unchanged. }
    destruct pathn as [pn dpn cpn]. cbn [tid].
    destruct (member_node h F pid dpt cpt _ _ _ _ HptF Efm) as [HpnF _].
    stp (run_is_string h F I pn dpn cpn HpnF).
    destruct (Tree.is_string (reify St (T pn dpn cpn))); cbn [negb]; [|rewrite cleanup_none; apply test_post_unchanged].
    rewrite Edec. cbn [bind]. stp (run_decode h F I pid dpt cpt flag _ HptF Edec).
    destruct (node_vstr h F I pn dpn cpn HpnF) as (Hgv & Hsome & Hnone). stp Hgv.
    destruct (run_member h F I pid dpt cpt PatchDefs.s_value flag HptF zf_value) as [Hrunv Hvalv]. rewrite Hvalv.
    assert (Hnull : forall a0 b0 : ptr, is_null a0 || is_null b0 = true ->
              test_post ((r <~ compare_json a0 b0 flag ;; cleanup None None (if r then 0 else 1)) h) (Ok (1, reify St doc, reify St pt))).
    { intros a0 b0 Hn. rewrite (bindM_Ret _ _ _ _ _ (compare_json_null a0 b0 flag h Hn)). rewrite cleanup_none. apply test_post_unchanged. }
    destruct (rd_vstr dpn) as [pb|] eqn:Evs.
    2:{ rewrite (Hnone eq_refl). cbn [cs_of_ptr]. unfold get_item_from_pointer at 1. cbn [cs_is_null]. rewrite bindM_ret. stp Hrunv.
        by apply Hnull. }
    destruct (Hsome pb eq_refl) as (sp & Hpl & Hps & Hpz & Hv). rewrite Hv. cbn [cs_of_ptr].
    stp (get_item_from_pointer_refines h F I doc (CAt pb 0) (cstr sp) flag HdocF (CsReads_block h pb sp Hpl Hps Hpz)).
    stp Hrunv.
    destruct (PointerDefs.get_item_from_pointer (reify St doc) (cstr sp) flag) as [tp|] eqn:Egip; cbn [mbind option_bind].
    2:{ cbn [fmap option_fmap option_map]. by apply Hnull. }
    destruct (get_item_loop_subtree h flag _ _ _ _ Egip) as [n Hn]. rewrite Hn. cbn [fmap option_fmap option_map].
    destruct (found_member St flag PatchDefs.s_value cpt) as [[vi m]|] eqn:Efv; cbn [fmap option_fmap option_map fst snd].
    2:{ apply Hnull. apply orb_true_r. }
    rewrite reify_subtree, Hn. cbn [fmap option_fmap option_map].
    pose proof (found_member_lookup _ _ _ _ _ _ Efv) as Hvi.
    assert (Hmb : subtree_t rb (ppt ++ [vi]) = Some m) by (by rewrite (subtree_t_snoc _ _ _ _ _ vi Hpt)).
    destruct (PatchDefs.compare_json (Tree.node_depth (reify St n)) (reify St n) (reify St m) flag) as [[[r a'] v']| |] eqn:Ecmp; cbn [bind]; [|done|done].
    pose proof (F2_node_a A B [] doc rb tp n Hn) as HnF.
    assert (Hhn : (height n < Pos.to_nat (h_next h))%nat).
    { pose proof (tsize_fuel h F n (mi_wf _ _ I) HnF). pose proof (height_lt_tsize n). lia. }
    destruct (compare_rec flag n h A B [] doc rb tp (ppt ++ [vi]) m (Pos.to_nat (h_next h)) (Pos.to_nat (h_next h)) _ r a' v' I Hn Hmb
                (all_keyed_sub St doc n Hkd (subtree_t_nodes _ _ _ Hn))
                (all_keyed_child St pid dpt cpt m Hkp ltac:(by eapply elem_of_list_lookup_2)) Hhn ltac:(lia) Ecmp)
      as (h' & ta' & tb' & Hcr & I' & Es & El & Eo & En & Hra & Hrb & Hta & Htb & Hda & Hdb & HDD).
    assert (Hcj : compare_json (Some (tid n)) (Some (tid m)) flag h = Ret (r, h')).
    { unfold compare_json, heap_fuel. unfold bindM at 1. exact Hcr. }
    stp Hcj. rewrite cleanup_none.
    rewrite (put_t_snoc rb ppt pid dpt cpt vi m tb' Hpt Hvi) in I', HDD.
    exists h', (put_t doc tp ta'), (T pid dpt (<[vi := tb']> cpt)).
    split; [done|]. split; [exact I'|]. split; [|split; [done|split; [done|split]]].
    - destruct tp as [|i0 tp0]; [cbn in Hn |- *; injection Hn as <-; done|by apply tid_put_t].
    - cbn [tchildren]. rewrite list_fmap_insert, Htb. apply list_insert_id. by rewrite list_lookup_fmap, Hvi.
    - split; [by rewrite <- reify_put, Hra|]. split.
      + rewrite replace_nth_insert, reify_children. cbn [tchildren]. rewrite <- Hrb, <- map_list_insert. symmetry. apply reify_set_children.
      + split; [done|]. split; [done|]. split; [|exact HDD].
        intros NL b Hb. rewrite (lib_live_same h h' El Eo) in Hb. rewrite (owned_of_datas_perm _ _ HDD). by apply NL.
  Qed.
End Test.
