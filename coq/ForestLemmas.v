(** ForestLemmas.v — second half of the lemma library under every simulation proof of the DOM
    API (re-exports ForestLinks.v, the first half: PART A lookup in [links], PART B the map
    equations of one chain).

    PART C  structure of forests: unfolding of [nodes]/[ids]/[flat]; a node is determined by
            its id ([nodes_unique], [flat_unique]); [find_tree]/[find_root] ([find_tree_Some],
            [find_tree_unique], [find_root_split]); [set_children] ([roots_set_children],
            [set_children_notin]) and THE structural lemma [flat_set_children]: replacing the
            children list of node [p] changes exactly one flat entry and exchanges the flat
            entries of the old children's subtrees for those of the new ones.
    PART D  the encoding: every node is a root or a child of exactly one node
            ([lnk_keys_ids]); permutation invariance ([lnk_of_perm], [dat_of_perm]); one-step
            decompositions ([lnk_of_cons_root], [lnk_of_cons_node], [dat_of_cons]); lookup in
            [heap_lnk_of]/[heap_dat_of] ([heap_lnk_of_lookup_root/_child/_None],
            [heap_dat_of_lookup/_None]: a node's entry depends only on its parent's children
            list); the FOCUS lemmas [heap_lnk_of_focus]/[heap_dat_of_focus]; the FRAME lemma
            [heap_lnk_of_frame].
    PART E  ownership and [WF] transfer: [WF_refocus] (re-establish [WF] after an edit of one
            children list), [WF_lookup_*] (what the heap contains at a node of the forest).
    PART F  data changes: [set_data] ([flat_set_data]: exactly one flat entry changes),
            [WF_set_data] (re-establish [WF] after a change of one node's data, possibly with
            a different set of owned strings).
    See FOREST_NOTES.md for how these are combined in a simulation proof. *)
From CJ Require Import Base Dbl Heap Forest.
From CJ Require Export ForestLinks.
From stdpp Require Import gmap.

Implicit Types (l : list positive) (p x y i : positive) (k : nat) (t n : tree) (F ts cs : list tree)
  (FL : list fnode) (R : list positive) (d : rdata).

(** * PART C: structure of forests *)

Lemma nodes_t_unfold i d cs : nodes_t (T i d cs) = T i d cs :: nodes cs.
Proof. reflexivity. Qed.
Lemma nodes_cons t F : nodes (t :: F) = nodes_t t ++ nodes F.
Proof. reflexivity. Qed.
Lemma nodes_app F1 F2 : nodes (F1 ++ F2) = nodes F1 ++ nodes F2.
Proof. unfold nodes. apply bind_app. Qed.
Lemma flat_t_unfold i d cs : flat_t (T i d cs) = (i, d, tid <$> cs) :: flat cs.
Proof. reflexivity. Qed.
Lemma flat_cons t F : flat (t :: F) = flat_t t ++ flat F.
Proof. unfold flat, flat_t. rewrite nodes_cons. by rewrite fmap_app. Qed.
Lemma flat_app F1 F2 : flat (F1 ++ F2) = flat F1 ++ flat F2.
Proof. unfold flat. rewrite nodes_app. by rewrite fmap_app. Qed.
Lemma flat_nil : flat [] = [].
Proof. reflexivity. Qed.
Lemma ids_flat F : ids F = fn_id <$> flat F.
Proof. unfold ids, flat. rewrite <- list_fmap_compose. reflexivity. Qed.
Lemma ids_t_flat t : ids_t t = fn_id <$> flat_t t.
Proof. unfold ids_t, flat_t. rewrite <- list_fmap_compose. reflexivity. Qed.
Lemma ids_cons t F : ids (t :: F) = ids_t t ++ ids F.
Proof. unfold ids, ids_t. rewrite nodes_cons. by rewrite fmap_app. Qed.
Lemma ids_app F1 F2 : ids (F1 ++ F2) = ids F1 ++ ids F2.
Proof. unfold ids. rewrite nodes_app. by rewrite fmap_app. Qed.
Lemma ids_t_unfold i d cs : ids_t (T i d cs) = i :: ids cs.
Proof. reflexivity. Qed.
Lemma roots_app F1 F2 : roots (F1 ++ F2) = roots F1 ++ roots F2.
Proof. apply fmap_app. Qed.

Lemma nodes_t_self t : t ∈ nodes_t t.
Proof. destruct t. rewrite nodes_t_unfold. by left. Qed.
Lemma elem_of_nodes n F : n ∈ nodes F <-> exists t, t ∈ F /\ n ∈ nodes_t t.
Proof. unfold nodes. rewrite elem_of_list_bind. naive_solver. Qed.
Lemma roots_in_nodes t F : t ∈ F -> t ∈ nodes F.
Proof. intros H. apply elem_of_nodes. eauto using nodes_t_self. Qed.
Lemma roots_subseteq_ids F x : x ∈ roots F -> x ∈ ids F.
Proof.
  intros H. apply elem_of_list_fmap in H as (t & -> & Ht).
  apply elem_of_list_fmap. eauto using roots_in_nodes.
Qed.
Lemma elem_of_ids_t_self t : tid t ∈ ids_t t.
Proof. apply elem_of_list_fmap. eauto using nodes_t_self. Qed.

(** distinct ids: a node is determined by its id *)
Lemma NoDup_fmap_inj_on {A B} (f : A -> B) (l : list A) (a b : A) :
  NoDup (f <$> l) -> a ∈ l -> b ∈ l -> f a = f b -> a = b.
Proof.
  induction l as [|c l IH]; intros ND Ha Hb Hab; [by apply elem_of_nil in Ha|].
  rewrite fmap_cons in ND. apply NoDup_cons in ND as [Hc ND].
  apply elem_of_cons in Ha as [->|Ha]; apply elem_of_cons in Hb as [->|Hb]; [done| | |by apply IH].
  - exfalso. apply Hc. rewrite Hab. by apply elem_of_list_fmap_1.
  - exfalso. apply Hc. rewrite <- Hab. by apply elem_of_list_fmap_1.
Qed.
Lemma nodes_unique F n1 n2 : NoDup (ids F) -> n1 ∈ nodes F -> n2 ∈ nodes F -> tid n1 = tid n2 -> n1 = n2.
Proof. apply NoDup_fmap_inj_on. Qed.
Lemma flat_unique F (a b : fnode) : NoDup (ids F) -> a ∈ flat F -> b ∈ flat F -> fn_id a = fn_id b -> a = b.
Proof. rewrite ids_flat. apply NoDup_fmap_inj_on. Qed.

Lemma elem_of_flat F n : n ∈ nodes F -> flat_of n ∈ flat F.
Proof. apply elem_of_list_fmap_1. Qed.

(** [find_tree] / [find_root] *)
Lemma find_tree_Some p F n : find_tree p F = Some n -> n ∈ nodes F /\ tid n = p.
Proof.
  unfold find_tree. intros H. apply find_some in H as [H1 H2].
  apply elem_of_list_In in H1. by apply bool_decide_eq_true in H2.
Qed.
Lemma find_tree_is_Some p F : p ∈ ids F -> is_Some (find_tree p F).
Proof.
  intros H. apply elem_of_list_fmap in H as (n & -> & Hn).
  destruct (find_tree (tid n) F) eqn:E; [eauto|]. exfalso.
  unfold find_tree in E. apply elem_of_list_In in Hn.
  pose proof (find_none _ _ E _ Hn) as H. cbn in H. by apply bool_decide_eq_false in H.
Qed.
Lemma find_tree_unique p F n : NoDup (ids F) -> n ∈ nodes F -> tid n = p -> find_tree p F = Some n.
Proof.
  intros ND Hn Hp. destruct (find_tree_is_Some p F) as [n' E].
  { subst p. by apply elem_of_list_fmap_1. }
  rewrite E. f_equal. apply find_tree_Some in E as [H1 H2].
  eapply nodes_unique; eauto. congruence.
Qed.
Lemma find_root_Some x F t : find_root x F = Some t -> t ∈ F /\ tid t = x.
Proof.
  unfold find_root. intros H. apply find_some in H as [H1 H2].
  apply elem_of_list_In in H1. by apply bool_decide_eq_true in H2.
Qed.
Lemma remove_root_notin x (G : list tree) : x ∉ roots G -> remove_root x G = G.
Proof.
  unfold remove_root, roots. induction G as [|g G IH]; intros HG; [done|]. cbn. rewrite fmap_cons in HG.
  apply not_elem_of_cons in HG as [H1 H2]. rewrite bool_decide_eq_false_2 by done. cbn. by rewrite IH.
Qed.
Lemma find_root_split x F t : NoDup (roots F) -> find_root x F = Some t ->
  exists F1 F2, F = F1 ++ t :: F2 /\ remove_root x F = F1 ++ F2.
Proof.
  intros ND H. apply find_root_Some in H as [Ht Hx]. apply elem_of_list_split in Ht as (F1 & F2 & ->).
  exists F1, F2. split; [done|].
  rewrite roots_app in ND. cbn in ND. apply NoDup_app in ND as (N1 & N2 & N3).
  apply NoDup_cons in N3 as [N3 _].
  unfold remove_root. rewrite List.filter_app. cbn.
  rewrite bool_decide_eq_true_2 by done. cbn.
  fold (remove_root x F1). fold (remove_root x F2).
  rewrite !remove_root_notin; [done| |].
  - by rewrite <- Hx.
  - intros Hin. apply (N2 _ Hin). rewrite Hx. by left.
Qed.

(** [set_children] *)
Lemma tid_set_children_t p cs' t : tid (set_children_t p cs' t) = tid t.
Proof. destruct t as [i d cs]. cbn. by destruct (decide (i = p)). Qed.
Lemma roots_set_children p cs' F : roots (set_children p cs' F) = roots F.
Proof.
  unfold roots, set_children. rewrite <- list_fmap_compose. apply list_fmap_ext.
  intros ? t _. apply tid_set_children_t.
Qed.

Lemma set_children_t_notin p cs' t : p ∉ ids_t t -> set_children_t p cs' t = t.
Proof.
  induction t as [i d cs IH] using tree_ind'. intros Hp. rewrite ids_t_unfold in Hp.
  apply not_elem_of_cons in Hp as [Hpi Hp]. cbn. rewrite decide_False by done. f_equal.
  induction cs as [|c cs IHcs]; [done|]. rewrite fmap_cons.
  rewrite ids_cons in Hp. apply not_elem_of_app in Hp as [Hp1 Hp2].
  apply Forall_cons in IH as [IH1 IH2]. f_equal; [by apply IH1|by apply IHcs].
Qed.
Lemma set_children_notin p cs' F : p ∉ ids F -> set_children p cs' F = F.
Proof.
  induction F as [|t F IH]; intros Hp; [done|]. rewrite ids_cons in Hp.
  apply not_elem_of_app in Hp as [Hp1 Hp2]. unfold set_children. rewrite fmap_cons.
  f_equal; [by apply set_children_t_notin|by apply IH].
Qed.

(** THE structural lemma: replacing the children list of the (unique) node [p] changes exactly
    one flat entry, and exchanges the flat entries of the old children's subtrees for those
    of the new ones. *)
Definition set_children_spec (flatX : list fnode) (flatX' : list tree -> list fnode) p d cs : Prop :=
  exists FL, flatX ≡ₚ (p, d, tid <$> cs) :: flat cs ++ FL /\
             forall cs', flatX' cs' ≡ₚ (p, d, tid <$> cs') :: flat cs' ++ FL.

Lemma flat_set_children_list ts p d cs :
  Forall (fun t => NoDup (ids_t t) -> T p d cs ∈ nodes_t t ->
                   set_children_spec (flat_t t) (fun cs' => flat_t (set_children_t p cs' t)) p d cs) ts ->
  NoDup (ids ts) -> T p d cs ∈ nodes ts ->
  set_children_spec (flat ts) (fun cs' => flat (set_children p cs' ts)) p d cs.
Proof.
  intros IH ND Hin. apply elem_of_nodes in Hin as (t & Ht & Hn).
  apply elem_of_list_split in Ht as (l1 & l2 & ->).
  rewrite ids_app, ids_cons in ND. apply NoDup_app in ND as (N1 & N12 & N2).
  apply NoDup_app in N2 as (Nt & Nt2 & N2).
  assert (Hp : p ∈ ids_t t) by (apply elem_of_list_fmap; exists (T p d cs); done).
  apply Forall_app in IH as [_ IH]. apply Forall_cons in IH as [IHt _].
  destruct (IHt Nt Hn) as (FL & E1 & E2).
  exists (flat l1 ++ FL ++ flat l2). split.
  - rewrite flat_app, flat_cons, E1. cbn. rewrite <- Permutation_middle. apply Permutation_skip.
    rewrite <- !app_assoc. rewrite (Permutation_app_comm (flat l1)). rewrite <- !app_assoc.
    apply Permutation_app_head. rewrite (Permutation_app_comm (flat l1)). by rewrite <- !app_assoc.
  - intros cs'. unfold set_children. rewrite fmap_app, fmap_cons.
    fold (set_children p cs' l1). fold (set_children p cs' l2).
    rewrite (set_children_notin _ _ l1), (set_children_notin _ _ l2).
    + rewrite flat_app, flat_cons, E2. cbn. rewrite <- Permutation_middle. apply Permutation_skip.
      rewrite <- !app_assoc. rewrite (Permutation_app_comm (flat l1)). rewrite <- !app_assoc.
      apply Permutation_app_head. rewrite (Permutation_app_comm (flat l1)). by rewrite <- !app_assoc.
    + intros Hin. by apply (Nt2 _ Hp).
    + intros Hin. apply (N12 _ Hin). apply elem_of_app. by left.
Qed.

Lemma flat_set_children_t t p d cs :
  NoDup (ids_t t) -> T p d cs ∈ nodes_t t ->
  set_children_spec (flat_t t) (fun cs' => flat_t (set_children_t p cs' t)) p d cs.
Proof.
  induction t as [i d0 cs0 IH] using tree_ind'. intros ND Hin.
  rewrite ids_t_unfold in ND. apply NoDup_cons in ND as [Hi ND].
  rewrite nodes_t_unfold in Hin. apply elem_of_cons in Hin as [Heq|Hin].
  - inversion Heq; subst. exists []. split.
    + rewrite flat_t_unfold. by rewrite app_nil_r.
    + intros cs'. cbn [set_children_t]. rewrite decide_True by done. rewrite flat_t_unfold. by rewrite app_nil_r.
  - assert (Hp : p ∈ ids cs0) by (apply elem_of_list_fmap; exists (T p d cs); done).
    assert (i <> p) by (intros ->; done).
    destruct (flat_set_children_list cs0 p d cs IH ND Hin) as (FL & E1 & E2).
    exists ((i, d0, tid <$> cs0) :: FL). split.
    + rewrite flat_t_unfold, E1. cbn. rewrite <- (Permutation_middle _ FL). apply perm_swap.
    + intros cs'. cbn [set_children_t]. rewrite decide_False by done. rewrite flat_t_unfold.
      fold (set_children p cs' cs0). pose proof (roots_set_children p cs' cs0) as Hr. unfold roots in Hr.
      rewrite Hr, E2. cbn. rewrite <- (Permutation_middle _ FL). apply perm_swap.
Qed.

Lemma flat_set_children F p d cs :
  NoDup (ids F) -> T p d cs ∈ nodes F ->
  exists FL, flat F ≡ₚ (p, d, tid <$> cs) :: flat cs ++ FL /\
             forall cs', flat (set_children p cs' F) ≡ₚ (p, d, tid <$> cs') :: flat cs' ++ FL.
Proof.
  intros ND Hin. apply flat_set_children_list; [|done|done].
  apply Forall_forall. intros t _. apply flat_set_children_t.
Qed.

(** * PART D: the canonical encoding *)

(** ** keys of the entry lists *)
Definition lnk_keys R FL : list positive := R ++ (FL ≫= fn_cids).

Lemma root_entries_fst R : (root_entries R).*1 = R.
Proof. unfold root_entries. rewrite <- list_fmap_compose. apply list_fmap_id. Qed.
Lemma lnk_entries_fst R FL : (lnk_entries R FL).*1 = lnk_keys R FL.
Proof.
  unfold lnk_entries, lnk_keys. rewrite fmap_app, root_entries_fst. f_equal.
  induction FL as [|n FL IH]; [done|]. rewrite !bind_cons, fmap_app, chain_entries_fst. by rewrite IH.
Qed.
Lemma dat_entries_fst FL : (dat_entries FL).*1 = fn_id <$> FL.
Proof. unfold dat_entries. rewrite <- list_fmap_compose. reflexivity. Qed.

(** every node is a root or a child of exactly one node *)
Lemma lnk_keys_ids_list ts :
  Forall (fun t => tid t :: (flat_t t ≫= fn_cids) ≡ₚ ids_t t) ts ->
  roots ts ++ (flat ts ≫= fn_cids) ≡ₚ ids ts.
Proof.
  induction ts as [|t ts IH]; intros HF; [done|]. apply Forall_cons in HF as [Ht HF].
  rewrite ids_cons, flat_cons, bind_app. cbn. rewrite <- Ht, <- (IH HF). cbn. apply Permutation_skip.
  rewrite !app_assoc. apply Permutation_app_tail. apply Permutation_app_comm.
Qed.
Lemma lnk_keys_ids_t t : tid t :: (flat_t t ≫= fn_cids) ≡ₚ ids_t t.
Proof.
  induction t as [i d cs IH] using tree_ind'. rewrite flat_t_unfold, ids_t_unfold, bind_cons. cbn.
  apply Permutation_skip. apply (lnk_keys_ids_list cs IH).
Qed.
Lemma lnk_keys_ids F : lnk_keys (roots F) (flat F) ≡ₚ ids F.
Proof. apply lnk_keys_ids_list. apply Forall_forall. intros t _. apply lnk_keys_ids_t. Qed.

Global Instance lnk_keys_proper : Proper ((≡ₚ) ==> (≡ₚ) ==> (≡ₚ)) lnk_keys.
Proof. intros R R' HR FL FL' HFL. unfold lnk_keys. by rewrite HR, HFL. Qed.
Global Instance lnk_entries_proper : Proper ((≡ₚ) ==> (≡ₚ) ==> (≡ₚ)) lnk_entries.
Proof. intros R R' HR FL FL' HFL. unfold lnk_entries, root_entries. by rewrite HR, HFL. Qed.
Global Instance dat_entries_proper : Proper ((≡ₚ) ==> (≡ₚ)) dat_entries.
Proof. intros FL FL' HFL. unfold dat_entries. by rewrite HFL. Qed.

(** ** permutation invariance *)
Lemma lnk_of_perm R R' FL FL' :
  NoDup (lnk_keys R FL) -> R ≡ₚ R' -> FL ≡ₚ FL' -> lnk_of R FL = lnk_of R' FL'.
Proof.
  intros ND HR HFL. unfold lnk_of. apply list_to_map_proper.
  - by rewrite lnk_entries_fst.
  - by rewrite HR, HFL.
Qed.
Lemma dat_of_perm FL FL' : NoDup (fn_id <$> FL) -> FL ≡ₚ FL' -> dat_of FL = dat_of FL'.
Proof.
  intros ND HFL. unfold dat_of. apply list_to_map_proper.
  - by rewrite dat_entries_fst.
  - by rewrite HFL.
Qed.

(** ** one-step decompositions *)
Lemma lnk_of_cons_root x R FL : lnk_of (x :: R) FL = <[x := (None, None)]> (lnk_of R FL).
Proof. reflexivity. Qed.
Lemma dat_of_cons (n : fnode) FL : dat_of (n :: FL) = <[fn_id n := mk_dat (fn_data n) (fn_cids n)]> (dat_of FL).
Proof. reflexivity. Qed.
Lemma lnk_of_nil_nil : lnk_of [] [] = ∅.
Proof. reflexivity. Qed.

Lemma dom_lnk_of R FL : dom (lnk_of R FL) = list_to_set (lnk_keys R FL).
Proof. unfold lnk_of. rewrite dom_list_to_map_L. by rewrite lnk_entries_fst. Qed.
Lemma lnk_of_lookup_None R FL i : i ∉ lnk_keys R FL -> lnk_of R FL !! i = None.
Proof. intros H. apply not_elem_of_list_to_map_1. by rewrite lnk_entries_fst. Qed.
Lemma lnk_of_lookup_is_Some R FL i : is_Some (lnk_of R FL !! i) <-> i ∈ lnk_keys R FL.
Proof.
  rewrite <- elem_of_dom, dom_lnk_of. apply elem_of_list_to_set.
Qed.
Lemma dom_dat_of FL : dom (dat_of FL) = list_to_set (fn_id <$> FL).
Proof. unfold dat_of. rewrite dom_list_to_map_L. by rewrite dat_entries_fst. Qed.
Lemma dat_of_lookup_None FL i : i ∉ fn_id <$> FL -> dat_of FL !! i = None.
Proof. intros H. apply not_elem_of_list_to_map_1. by rewrite dat_entries_fst. Qed.

Lemma lnk_of_cons_node (n : fnode) R FL :
  NoDup (lnk_keys R (n :: FL)) -> lnk_of R (n :: FL) = links (fn_cids n) ∪ lnk_of R FL.
Proof.
  intros ND. unfold lnk_of, links. rewrite <- list_to_map_app.
  apply list_to_map_proper; [by rewrite lnk_entries_fst|].
  unfold lnk_entries. rewrite bind_cons. rewrite !app_assoc. apply Permutation_app_tail.
  apply Permutation_app_comm.
Qed.

(** ** lookup in the canonical maps of a forest *)
Lemma heap_lnk_of_lookup_root F x : NoDup (ids F) -> x ∈ roots F -> heap_lnk_of F !! x = Some (None, None).
Proof.
  intros ND Hx. unfold heap_lnk_of, lnk_of. apply elem_of_list_to_map.
  - by rewrite lnk_entries_fst, lnk_keys_ids.
  - unfold lnk_entries. apply elem_of_app. left. unfold root_entries.
    apply elem_of_list_fmap. eauto.
Qed.
Lemma heap_lnk_of_lookup_child F p d (cs : list positive) k x :
  NoDup (ids F) -> (p, d, cs) ∈ flat F -> cs !! k = Some x -> heap_lnk_of F !! x = Some (link_at cs k).
Proof.
  intros ND Hn Hk. unfold heap_lnk_of, lnk_of. apply elem_of_list_to_map.
  - by rewrite lnk_entries_fst, lnk_keys_ids.
  - unfold lnk_entries. apply elem_of_app. right. apply elem_of_list_bind.
    exists (p, d, cs). split; [|done]. cbn. unfold chain_entries. apply elem_of_lookup_imap. eauto.
Qed.
Lemma heap_lnk_of_lookup_None F x : x ∉ ids F -> heap_lnk_of F !! x = None.
Proof. intros H. apply lnk_of_lookup_None. by rewrite lnk_keys_ids. Qed.
Lemma dom_heap_lnk_of F : dom (heap_lnk_of F) = list_to_set (ids F).
Proof.
  unfold heap_lnk_of. rewrite dom_lnk_of. apply set_eq. intros x.
  rewrite !elem_of_list_to_set. by rewrite lnk_keys_ids.
Qed.
Lemma heap_dat_of_lookup F p d (cs : list positive) :
  NoDup (ids F) -> (p, d, cs) ∈ flat F -> heap_dat_of F !! p = Some (mk_dat d cs).
Proof.
  intros ND Hn. unfold heap_dat_of, dat_of. apply elem_of_list_to_map.
  - by rewrite dat_entries_fst, <- ids_flat.
  - unfold dat_entries. apply elem_of_list_fmap. exists (p, d, cs). done.
Qed.
Lemma heap_dat_of_lookup_None F x : x ∉ ids F -> heap_dat_of F !! x = None.
Proof. intros H. apply dat_of_lookup_None. by rewrite <- ids_flat. Qed.
Lemma dom_heap_dat_of F : dom (heap_dat_of F) = list_to_set (ids F).
Proof. unfold heap_dat_of. rewrite dom_dat_of. by rewrite ids_flat. Qed.

(** ** FOCUS: decompose the canonical maps around one parent [p] with children ids [cs] *)
Lemma heap_lnk_of_focus F R p d (cs : list positive) FL :
  NoDup (ids F) -> roots F ≡ₚ R -> flat F ≡ₚ (p, d, cs) :: FL ->
  heap_lnk_of F = links cs ∪ lnk_of R FL /\ NoDup (cs ++ lnk_keys R FL).
Proof.
  intros ND HR HFL.
  assert (NDk : NoDup (lnk_keys (roots F) (flat F))) by (by rewrite lnk_keys_ids).
  assert (NDk' : NoDup (lnk_keys R ((p, d, cs) :: FL))) by (by rewrite <- HR, <- HFL).
  split.
  - unfold heap_lnk_of. rewrite (lnk_of_perm _ _ _ _ NDk HR HFL).
    exact (lnk_of_cons_node (p, d, cs) R FL NDk').
  - unfold lnk_keys in *. rewrite bind_cons in NDk'. cbn in NDk'.
    rewrite app_assoc in NDk'. rewrite (Permutation_app_comm R) in NDk'. by rewrite <- app_assoc in NDk'.
Qed.
Lemma heap_dat_of_focus F p d (cs : list positive) FL :
  NoDup (ids F) -> flat F ≡ₚ (p, d, cs) :: FL ->
  heap_dat_of F = <[p := mk_dat d cs]> (dat_of FL) /\ p ∉ fn_id <$> FL.
Proof.
  intros ND HFL. rewrite ids_flat in ND. split.
  - unfold heap_dat_of. by rewrite (dat_of_perm _ _ ND HFL).
  - rewrite HFL in ND. cbn in ND. by apply NoDup_cons in ND as [? _].
Qed.

(** ** FRAME: an edit of the children list of one node (and of the root list) changes
    [heap_lnk_of] only on the old and new children and on the roots that come or go *)
Lemma heap_lnk_of_frame F F' p d d' (cs cs' : list positive) FL R R' x :
  NoDup (ids F) -> NoDup (ids F') ->
  roots F ≡ₚ R -> flat F ≡ₚ (p, d, cs) :: FL ->
  roots F' ≡ₚ R' -> flat F' ≡ₚ (p, d', cs') :: FL ->
  x ∉ cs -> x ∉ cs' -> (x ∈ R <-> x ∈ R') ->
  heap_lnk_of F' !! x = heap_lnk_of F !! x.
Proof.
  intros ND ND' HR HFL HR' HFL' Hx Hx' HxR.
  destruct (heap_lnk_of_focus _ _ _ _ _ _ ND HR HFL) as [-> N1].
  destruct (heap_lnk_of_focus _ _ _ _ _ _ ND' HR' HFL') as [-> N2].
  rewrite !lookup_union. rewrite (links_lookup_None _ _ Hx), (links_lookup_None _ _ Hx').
  rewrite !(left_id_L None _).
  apply NoDup_app in N1 as (_ & _ & N1). apply NoDup_app in N2 as (_ & _ & N2).
  destruct (decide (x ∈ R)) as [HinR|HninR].
  - pose proof (proj1 HxR HinR) as HinR'.
    transitivity (Some (@None positive, @None positive)); [|symmetry].
    + apply elem_of_list_to_map; [by rewrite lnk_entries_fst|].
      apply elem_of_app. left. apply elem_of_list_fmap. eauto.
    + apply elem_of_list_to_map; [by rewrite lnk_entries_fst|].
      apply elem_of_app. left. apply elem_of_list_fmap. eauto.
  - assert (HninR' : x ∉ R') by tauto.
    unfold lnk_of, lnk_entries. rewrite !list_to_map_app, !lookup_union.
    rewrite (not_elem_of_list_to_map_1 (root_entries R)) by (by rewrite root_entries_fst).
    rewrite (not_elem_of_list_to_map_1 (root_entries R')) by (by rewrite root_entries_fst).
    done.
Qed.

(** * PART E: ownership and [WF] transfer *)

Lemma owned_fl_cons (n : fnode) FL : owned_fl (n :: FL) = owned_fn n ++ owned_fl FL.
Proof. reflexivity. Qed.
Lemma owned_fl_app FL1 FL2 : owned_fl (FL1 ++ FL2) = owned_fl FL1 ++ owned_fl FL2.
Proof. unfold owned_fl. apply bind_app. Qed.
Global Instance owned_fl_proper : Proper ((≡ₚ) ==> (≡ₚ)) owned_fl.
Proof. intros FL FL' H. unfold owned_fl. by rewrite H. Qed.

Lemma elem_of_owned_fl FL (b : positive) : b ∈ owned_fl FL <-> exists e : fnode, e ∈ FL /\ b ∈ owned_fn e.
Proof. unfold owned_fl. rewrite elem_of_list_bind. naive_solver. Qed.
Lemma ids_subseteq_owned F x : x ∈ ids F -> x ∈ owned F.
Proof.
  rewrite ids_flat. intros H. apply elem_of_list_fmap in H as (e & -> & He).
  apply elem_of_owned_fl. exists e. split; [done|]. by left.
Qed.

Lemma WF_ids_live h F x : WF h F -> x ∈ ids F -> x ∈ h_live h.
Proof. intros W H. apply (wf_owned_live _ _ W). by apply ids_subseteq_owned. Qed.
Lemma WF_ids_lib h F x : WF h F -> x ∈ ids F -> h_own h !! x = Some Lib.
Proof. intros W H. apply (wf_owned_lib _ _ W). by apply ids_subseteq_owned. Qed.
Lemma WF_ids_fresh h F x : WF h F -> x ∈ ids F -> (x < h_next h)%positive.
Proof. intros W H. apply (wf_fresh _ _ W). by apply ids_subseteq_owned. Qed.

(** what the heap holds at the nodes of the forest *)
Lemma WF_lookup_dat h F p d (cs : list positive) :
  WF h F -> (p, d, cs) ∈ flat F -> h_dat h !! p = Some (mk_dat d cs).
Proof. intros W H. rewrite (wf_dat _ _ W). apply heap_dat_of_lookup; [apply W|done]. Qed.
Lemma WF_lookup_lnk_child h F p d (cs : list positive) k x :
  WF h F -> (p, d, cs) ∈ flat F -> cs !! k = Some x -> h_lnk h !! x = Some (link_at cs k).
Proof. intros W H Hk. rewrite (wf_lnk _ _ W). eapply heap_lnk_of_lookup_child; [apply W|done..]. Qed.
Lemma WF_lookup_lnk_root h F x :
  WF h F -> x ∈ roots F -> h_lnk h !! x = Some (None, None).
Proof. intros W H. rewrite (wf_lnk _ _ W). apply heap_lnk_of_lookup_root; [apply W|done]. Qed.

(** re-establish [WF] after an edit that changes the children list of [p] from [cs] to [cs']
    (and possibly the root list), all other flat entries unchanged *)
Lemma WF_refocus h h' F F' R' p d (cs cs' : list positive) FL :
  WF h F ->
  flat F ≡ₚ (p, d, cs) :: FL ->
  roots F' ≡ₚ R' -> flat F' ≡ₚ (p, d, cs') :: FL ->
  (is_ref d = true -> cs' = []) ->
  h_lnk h' = links cs' ∪ lnk_of R' FL ->
  h_dat h' = <[p := mk_dat d cs']> (dat_of FL) ->
  h_live h' = h_live h -> h_own h' = h_own h -> h_next h' = h_next h ->
  WF h' F'.
Proof.
  intros W HFL HR' HFL' Href Hl Hd Hlive Hown Hnext.
  assert (Hids : ids F' ≡ₚ ids F) by (by rewrite !ids_flat, HFL, HFL').
  assert (ND' : NoDup (ids F')) by (rewrite Hids; apply W).
  assert (Hown' : owned F' ≡ₚ owned F).
  { unfold owned. rewrite HFL, HFL'. reflexivity. }
  constructor.
  - done.
  - rewrite Hl. symmetry. by apply (heap_lnk_of_focus F' R' p d cs' FL ND' HR' HFL').
  - rewrite Hd. symmetry. by apply (heap_dat_of_focus F' p d cs' FL ND' HFL').
  - rewrite Hown'. apply W.
  - intros b Hb. rewrite Hlive. apply (wf_owned_live _ _ W). by rewrite <- Hown'.
  - intros b Hb. rewrite Hown. apply (wf_owned_lib _ _ W). by rewrite <- Hown'.
  - intros b Hb. rewrite Hnext. apply (wf_fresh _ _ W). by rewrite <- Hown'.
  - pose proof (wf_ref _ _ W) as HrefF. rewrite HFL in HrefF. rewrite HFL'.
    apply Forall_cons in HrefF as [[H1 H2] HrefFL]. apply Forall_cons. split; [|done].
    split; [exact Href|exact H2].
Qed.

(** * PART F: data changes *)

(** [set_data] *)
Lemma tid_set_data_t p d' t : tid (set_data_t p d' t) = tid t.
Proof. destruct t as [i d cs]. cbn. by destruct (decide (i = p)). Qed.
Lemma roots_set_data p d' F : roots (set_data p d' F) = roots F.
Proof.
  unfold roots, set_data. rewrite <- list_fmap_compose. apply list_fmap_ext.
  intros ? t _. apply tid_set_data_t.
Qed.
Lemma set_data_t_notin p d' t : p ∉ ids_t t -> set_data_t p d' t = t.
Proof.
  induction t as [i d cs IH] using tree_ind'. intros Hp. rewrite ids_t_unfold in Hp.
  apply not_elem_of_cons in Hp as [Hpi Hp]. cbn. rewrite decide_False by done. f_equal.
  induction cs as [|c cs IHcs]; [done|]. rewrite fmap_cons.
  rewrite ids_cons in Hp. apply not_elem_of_app in Hp as [Hp1 Hp2].
  apply Forall_cons in IH as [IH1 IH2]. f_equal; [by apply IH1|by apply IHcs].
Qed.
Lemma set_data_notin p d' F : p ∉ ids F -> set_data p d' F = F.
Proof.
  induction F as [|t F IH]; intros Hp; [done|]. rewrite ids_cons in Hp.
  apply not_elem_of_app in Hp as [Hp1 Hp2]. unfold set_data. rewrite fmap_cons.
  f_equal; [by apply set_data_t_notin|by apply IH].
Qed.

(** replacing the data of the (unique) node [p] changes exactly one flat entry *)
Definition set_data_spec (flatX : list fnode) (flatX' : rdata -> list fnode) p d (ks : list positive) : Prop :=
  exists FL, flatX ≡ₚ (p, d, ks) :: FL /\ forall d', flatX' d' ≡ₚ (p, d', ks) :: FL.

Lemma flat_set_data_list ts p d cs :
  Forall (fun t => NoDup (ids_t t) -> T p d cs ∈ nodes_t t ->
                   set_data_spec (flat_t t) (fun d' => flat_t (set_data_t p d' t)) p d (tid <$> cs)) ts ->
  NoDup (ids ts) -> T p d cs ∈ nodes ts ->
  set_data_spec (flat ts) (fun d' => flat (set_data p d' ts)) p d (tid <$> cs).
Proof.
  intros IH ND Hin. apply elem_of_nodes in Hin as (t & Ht & Hn).
  apply elem_of_list_split in Ht as (l1 & l2 & ->).
  rewrite ids_app, ids_cons in ND. apply NoDup_app in ND as (N1 & N12 & N2).
  apply NoDup_app in N2 as (Nt & Nt2 & N2).
  assert (Hp : p ∈ ids_t t) by (apply elem_of_list_fmap; exists (T p d cs); done).
  apply Forall_app in IH as [_ IH]. apply Forall_cons in IH as [IHt _].
  destruct (IHt Nt Hn) as (FL & E1 & E2).
  exists (flat l1 ++ FL ++ flat l2). split.
  - rewrite flat_app, flat_cons, E1. cbn. by rewrite <- Permutation_middle.
  - intros d'. unfold set_data. rewrite fmap_app, fmap_cons.
    fold (set_data p d' l1). fold (set_data p d' l2).
    rewrite (set_data_notin _ _ l1), (set_data_notin _ _ l2).
    + rewrite flat_app, flat_cons, E2. cbn. by rewrite <- Permutation_middle.
    + intros Hin. by apply (Nt2 _ Hp).
    + intros Hin. apply (N12 _ Hin). apply elem_of_app. by left.
Qed.

Lemma flat_set_data_t t p d cs :
  NoDup (ids_t t) -> T p d cs ∈ nodes_t t ->
  set_data_spec (flat_t t) (fun d' => flat_t (set_data_t p d' t)) p d (tid <$> cs).
Proof.
  induction t as [i d0 cs0 IH] using tree_ind'. intros ND Hin.
  rewrite ids_t_unfold in ND. apply NoDup_cons in ND as [Hi ND].
  rewrite nodes_t_unfold in Hin. apply elem_of_cons in Hin as [Heq|Hin].
  - inversion Heq; subst. exists (flat cs0). split.
    + by rewrite flat_t_unfold.
    + intros d'. cbn [set_data_t]. rewrite decide_True by done. by rewrite flat_t_unfold.
  - assert (Hp : p ∈ ids cs0) by (apply elem_of_list_fmap; exists (T p d cs); done).
    assert (i <> p) by (intros ->; done).
    destruct (flat_set_data_list cs0 p d cs IH ND Hin) as (FL & E1 & E2).
    exists ((i, d0, tid <$> cs0) :: FL). split.
    + rewrite flat_t_unfold, E1. apply perm_swap.
    + intros d'. cbn [set_data_t]. rewrite decide_False by done. rewrite flat_t_unfold.
      fold (set_data p d' cs0). pose proof (roots_set_data p d' cs0) as Hr. unfold roots in Hr.
      rewrite Hr, E2. apply perm_swap.
Qed.

Lemma flat_set_data F p d cs :
  NoDup (ids F) -> T p d cs ∈ nodes F ->
  exists FL, flat F ≡ₚ (p, d, tid <$> cs) :: FL /\
             forall d', flat (set_data p d' F) ≡ₚ (p, d', tid <$> cs) :: FL.
Proof.
  intros ND Hin. apply flat_set_data_list; [|done|done].
  apply Forall_forall. intros t _. apply flat_set_data_t.
Qed.

(** re-establish [WF] after a change of the data of node [x] (and possibly of the string heap):
    the heap parts that [WF] reads are given pointwise *)
Lemma WF_set_data h h' F F' x d d' (ks : list positive) FL :
  WF h F ->
  flat F ≡ₚ (x, d, ks) :: FL -> flat F' ≡ₚ (x, d', ks) :: FL -> roots F' ≡ₚ roots F ->
  h_lnk h' = h_lnk h -> h_dat h' = <[x := mk_dat d' ks]> (h_dat h) ->
  NoDup (owned F') ->
  (forall b, b ∈ owned F' -> b ∈ h_live h' /\ h_own h' !! b = Some Lib /\ (b < h_next h')%positive) ->
  ref_ok (x, d', ks) ->
  WF h' F'.
Proof.
  intros W HFL HFL' HR Hl Hd NDo Hown Hrok.
  assert (Hids : ids F' ≡ₚ ids F) by (by rewrite !ids_flat, HFL, HFL').
  assert (ND' : NoDup (ids F')) by (rewrite Hids; apply W).
  pose proof (wf_nodup _ _ W) as ND.
  constructor.
  - done.
  - rewrite Hl, (wf_lnk _ _ W). unfold heap_lnk_of.
    assert (NDk : NoDup (lnk_keys (roots F) (flat F))) by (by rewrite lnk_keys_ids).
    assert (NDk' : NoDup (lnk_keys (roots F') (flat F'))) by (by rewrite lnk_keys_ids).
    rewrite (lnk_of_perm _ _ _ _ NDk (reflexivity _) HFL).
    rewrite (lnk_of_perm _ _ _ _ NDk' HR HFL'). reflexivity.
  - rewrite Hd, (wf_dat _ _ W).
    destruct (heap_dat_of_focus _ _ _ _ _ ND HFL) as [-> _].
    destruct (heap_dat_of_focus _ _ _ _ _ ND' HFL') as [-> _]. by rewrite insert_insert.
  - done.
  - intros b Hb. by apply Hown.
  - intros b Hb. by apply Hown.
  - intros b Hb. by apply Hown.
  - pose proof (wf_ref _ _ W) as HrefF. rewrite HFL in HrefF. rewrite HFL'.
    apply Forall_cons in HrefF as [_ HrefFL]. by apply Forall_cons.
Qed.
