(** PrintEntry.v — the printer model instantiated with the reference libc of LibcPrint.v, for
    execution by the correspondence check.  No proofs here. *)
From CJ Require Import Base Dbl Tree LibcNum LibcPrint PrintDefs ParseEntry.
Local Open Scope Z_scope.

(* fresh memory as the tracking allocator of the harness fills it *)
Definition junk_a5 : nat -> Z := fun _ => 165.

Definition run_render (fmt : bool) (n : node) : option bytes :=
  render fmt_d fmt_g15 fmt_g17 sscanf_lg fmt 0 n.

Definition run_print (item : node) (format have_realloc : bool) (failk : nat) : res print_result :=
  print fmt_d fmt_g15 fmt_g17 sscanf_lg (fail_kth failk) junk_a5 item format have_realloc.

Definition run_print_buffered (item : node) (prebuffer : Z) (fmt have_realloc : bool) (failk : nat) : res print_result :=
  cJSON_PrintBuffered fmt_d fmt_g15 fmt_g17 sscanf_lg (fail_kth failk) junk_a5 item prebuffer fmt have_realloc.

Definition run_print_preallocated (item : node) (buffer : option bytes) (length : Z) (format : bool) : res prealloc_result :=
  cJSON_PrintPreallocated fmt_d fmt_g15 fmt_g17 sscanf_lg (fun _ => false) junk_a5 item buffer length format false.
