#!/bin/sh
# ingest_seed11.sh <k> — round 11 (theme agents): mutation_G,_H of worktree w<k> -> seeded/<PID>_V<k>G / _V<k>H, PID taken from meta.json
k=$1; wt=/tmp/wt/u${k}
for m in P Q; do
  d=$wt/mutation_$m
  [ -d $d ] || continue
  pid=$(python3 -c "import json,re; m=json.load(open('$d/meta.json')); print(re.search(r'C\d\d', str(m.get('property'))).group(0))")
  name=${pid}_U${k}$m
  rm -rf /verif/seeded/$name; mkdir -p /verif/seeded/$name
  cp $d/patch.diff $d/demo.c $d/meta.json /verif/seeded/$name/
  python3 /verif/tools/verify_seeds.py $name 2>&1 | grep -v conda | cut -c1-120
  if [ "$pid" = "C20" ]; then sh /verif/tools/try_seed.sh $name $pid 2>&1 | grep -v conda | tail -2
  else python3 /verif/tools/trial.py $pid $name 2>&1 | tail -1 | cut -c1-110; fi
done
git -C /repo worktree remove --force $wt
