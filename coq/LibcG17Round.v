(** LibcG17Round.v — the rounding done by the reference strtod ([LibcNum.dec_to_dbl_exact]):
    given a decimal M * 10^x that lies within v * 2^-54 of a binary64 value v = m * 2^e, it
    returns exactly the double (sign, m, e).  From Flocq's correctness theorems for SpecFloat's
    [binary_normalize] (integer -> double) and division ([Bdiv_correct_aux], which covers the
    unnormalised integer operands [div_to_dbl] passes), and LibcG17Math.round_near.  The decimal
    may exceed the largest finite double by less than half an ulp: it still rounds to it, the
    overflow test of Flocq's theorems being on the ROUNDED value. *)
From Coq Require Import ZArith Reals List Bool Lia Lra Floats.SpecFloat.
From Flocq Require Import Core.Core IEEE754.BinarySingleNaN.
From CJ Require Import Base Dbl LibcNum RoundTripFlocq LibcG17R LibcG17Math.
Local Open Scope Z_scope.

(** a well-formed finite non-negative SpecFloat value whose real value is m * 2^e, (m, e) a
    well-formed mantissa/exponent pair, IS (false, m, e) *)
Lemma sf_unique z m e (Hz : valid_binary 53 1024 z = true) (Hb : SpecFloat.bounded 53 1024 m e = true) :
  SF2R radix2 z = F2R (Float radix2 (Zpos m) e) -> is_finite_SF z = true -> sign_SF z = false ->
  z = S754_finite false m e.
Proof.
  intros HR HF HS.
  assert (E : SF2B z Hz = B754_finite false m e Hb).
  { apply B2R_Bsign_inj.
    - rewrite is_finite_SF2B. exact HF.
    - reflexivity.
    - rewrite B2R_SF2B. exact HR.
    - rewrite Bsign_SF2B. exact HS. }
  rewrite <- (B2SF_SF2B 53 1024 z Hz). rewrite E. reflexivity.
Qed.

Section Near.
Variables (m : positive) (e : Z).
Hypothesis Hb : SpecFloat.bounded 53 1024 m e = true.
Let v : R := F2R (Float radix2 (Zpos m) e).

Lemma v_pos : (0 < v)%R.
Proof. apply F2R_gt_0. reflexivity. Qed.

Lemma v_fmt : fmt v.
Proof. exact (generic_format_B2R 53 1024 (B754_finite false m e Hb)). Qed.

Lemma v_lt_emax : (Rabs v < bpow radix2 1024)%R.
Proof. exact (abs_B2R_lt_emax 53 1024 (B754_finite false m e Hb)). Qed.

Lemma round_is_v w : (Rabs (w - v) < v * bpow radix2 (-54))%R ->
  round radix2 fx (round_mode mode_NE) w = v.
Proof. intro H. exact (round_near _ v w v_fmt v_pos H). Qed.

(** integer -> double *)
Lemma normalize_near z : (Rabs (IZR z - v) < v * bpow radix2 (-54))%R ->
  SpecFloat.binary_normalize Dbl.prec Dbl.emax z 0 false = S754_finite false m e.
Proof.
  intro Hn. change Dbl.prec with 53. change Dbl.emax with 1024.
  rewrite normalize_equiv.
  pose proof (binary_normalize_correct 53 1024 Hp53 Hm1024 mode_NE z 0 false) as C.
  cbv zeta in C.
  assert (HF : F2R (Float radix2 z 0) = IZR z).
  { unfold F2R. cbn [Fnum Fexp bpow]. ring. }
  rewrite HF in C. rewrite (round_is_v (IZR z) Hn) in C.
  rewrite Rlt_bool_true in C by exact v_lt_emax.
  destruct C as [CR [CF CS]].
  assert (Hz : (0 < IZR z)%R).
  { pose proof v_pos as Hv. pose proof (bpow_gt_0 radix2 (-54)) as Hp.
    assert (bpow radix2 (-54) < 1)%R by (change 1%R with (bpow radix2 0); apply bpow_lt; lia).
    apply Rabs_lt_inv in Hn. nra. }
  rewrite Rcompare_Gt in CS by exact Hz.
  set (r := binary_normalize 53 1024 Hp53 Hm1024 mode_NE z 0 false) in *.
  assert (E : r = B754_finite false m e Hb).
  { apply B2R_Bsign_inj; [exact CF|reflexivity|exact CR|exact CS]. }
  rewrite E. reflexivity.
Qed.

(** quotient of two positive integers -> double *)
Lemma div_near a b : 0 < a -> 0 < b -> (Rabs (IZR a / IZR b - v) < v * bpow radix2 (-54))%R ->
  SFdiv Dbl.prec Dbl.emax (S754_finite false (Z.to_pos a) 0) (S754_finite false (Z.to_pos b) 0)
  = S754_finite false m e.
Proof.
  intros Ha Hbp Hn. cbn [SFdiv].
  pose proof (Bdiv_correct_aux 53 1024 Hp53 Hm1024 mode_NE false (Z.to_pos a) 0 false (Z.to_pos b) 0) as B.
  cbv zeta in B.
  change Dbl.prec with 53. change Dbl.emax with 1024.
  destruct (SFdiv_core_binary 53 1024 (Z.pos (Z.to_pos a)) 0 (Z.pos (Z.to_pos b)) 0) as [[mz ez] lz].
  rewrite round_aux_equiv.
  set (z := binary_round_aux 53 1024 mode_NE (xorb false false) mz ez lz) in *.
  destruct B as [Hz B].
  assert (HFa : F2R (Float radix2 (cond_Zopp false (Z.pos (Z.to_pos a))) 0) = IZR a).
  { unfold F2R. cbn [Fnum Fexp bpow cond_Zopp]. rewrite Z2Pos.id by exact Ha. ring. }
  assert (HFb : F2R (Float radix2 (cond_Zopp false (Z.pos (Z.to_pos b))) 0) = IZR b).
  { unfold F2R. cbn [Fnum Fexp bpow cond_Zopp]. rewrite Z2Pos.id by exact Hbp. ring. }
  rewrite HFa, HFb in B.
  change (FLT.FLT_exp (3 - 1024 - 53) 53) with fx in B.
  rewrite (round_is_v _ Hn) in B.
  rewrite Rlt_bool_true in B by exact v_lt_emax.
  destruct B as [CR [CF CS]].
  exact (sf_unique z m e Hz Hb CR CF CS).
Qed.

End Near.

Lemma SFopp_finite s m e : SFopp (S754_finite s m e) = S754_finite (negb s) m e.
Proof. reflexivity. Qed.

(** the reference strtod's conversion of the decimal M * 10^x *)
Theorem dec_to_dbl_exact_near neg M x m e :
  0 < M -> -400 <= ndigits 2000 M + x <= 400 ->
  SpecFloat.bounded Dbl.prec Dbl.emax m e = true ->
  (Rabs (IZR M * bpow r10 x - F2R (Float radix2 (Zpos m) e)) <
     F2R (Float radix2 (Zpos m) e) * bpow radix2 (-54))%R ->
  dec_to_dbl_exact neg M x = S754_finite neg m e.
Proof.
  intros HM Hg Hb Hn. unfold dec_to_dbl_exact.
  destruct (Z.eqb_spec M 0) as [E0|_]; [lia|]. cbv zeta.
  destruct (Z.ltb_spec 400 (ndigits 2000 M + x)) as [H1|_]; [lia|].
  destruct (Z.ltb_spec (ndigits 2000 M + x) (-400)) as [H2|_]; [lia|].
  destruct (Z.leb_spec 0 x) as [Hx|Hx].
  - assert (Hn' : (Rabs (IZR (M * 10 ^ x) - F2R (Float radix2 (Zpos m) e)) <
                   F2R (Float radix2 (Zpos m) e) * bpow radix2 (-54))%R).
    { rewrite mult_IZR, IZR_pow10 by exact Hx. exact Hn. }
    rewrite (normalize_near m e Hb _ Hn').
    destruct neg; reflexivity.
  - unfold div_to_dbl.
    assert (Hp : 0 < 10 ^ (- x)) by (apply Z.pow_pos_nonneg; lia).
    assert (Hn' : (Rabs (IZR M / IZR (10 ^ (- x)) - F2R (Float radix2 (Zpos m) e)) <
                   F2R (Float radix2 (Zpos m) e) * bpow radix2 (-54))%R).
    { rewrite IZR_pow10 by lia. rewrite bpow_opp. unfold Rdiv. rewrite Rinv_inv. exact Hn. }
    rewrite (div_near m e Hb M (10 ^ (- x)) HM Hp Hn').
    destruct neg; reflexivity.
Qed.
