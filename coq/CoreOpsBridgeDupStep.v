(** CoreOpsBridgeDupStep.v — [cJSON_Duplicate] as a STEP of the list model: from every heap that
    represents the abstract state [S] ([Abs3 h S]), for every item the rule checker [dup_okb]
    accepts, the call (recursive or not, allocator that never refuses) returns — no error outcome —
    the pointer [spec_dup] computes from [S] alone, in a heap that represents the model's next
    state ([dup_step]).  The copy of a reference node owns copies of what the node designates
    (the source is the unrolling [unroll]); a constant key is shared; a source cut off at the depth
    limit is refused: NULL, forest and strings unchanged, the allocator counters advanced by the
    requests the call made before it gave up.

    * [dupw_unroll]: the one-pass computation of the checker is [dupm] of the unrolling;
    * [news_sound] / [news_complete]: the string heap after the call;
    * [dup_step]: the step; [spec_dup_owned]: the returned item is a block the model owns. *)
From CJ Require Import Base Dbl Heap Forest ForestLemmas CoreSpec CoreDefs CoreRefineBase CoreRefine CoreRefineDelete
  CoreRefineFrame CoreRefineHistory CoreRefineHistoryObj CoreRefineHistoryObjEx CoreRefineCreate
  CoreRefineDupBase CoreRefineDupTree CoreRefineDupNode CoreRefineDupLoop CoreRefineDup CoreRefineDupForest
  CoreRefineDupUnroll CoreLedgerGen CoreHistoryAllSteps CoreHistoryAll CoreLedgerAll CoreLedgerDup
  CoreOpsBridgeDupDefs CoreOpsBridgeDupSim.
From CJ.gen Require Import Constants.
From stdpp Require Import gmap.
From Coq Require Import Lia.

Implicit Types (g h : heap) (i n b a : positive) (d : rdata) (ts cs : list tree) (F : forest) (strs : gmap positive bytes).

(** * the one-pass computation *)
Definition dupwl (F : forest) (k : nat) : list tree -> positive -> option (list tree) * positive :=
  fix go (l : list tree) (a : positive) {struct l} : option (list tree) * positive :=
    match l with
    | [] => (Some [], a)
    | c :: l' =>
        match dupw F k c a with
        | (Some tc, a1) =>
            match go l' a1 with
            | (Some tcs, a2) => (Some (tc :: tcs), a2)
            | (None, a2) => (None, a2)
            end
        | (None, a1) => (None, a1)
        end
    end.
Lemma dupw_S F k i d cs a :
  dupw F (S k) (T i d cs) a =
  match (dupwl F k (kids F (T i d cs)) (after_key d a)).1 with
  | Some tcs => if is_cut d (kids F (T i d cs)) then (None, (dupwl F k (kids F (T i d cs)) (after_key d a)).2)
                else (Some (T a (dup_data d a) tcs), (dupwl F k (kids F (T i d cs)) (after_key d a)).2)
  | None => (None, (dupwl F k (kids F (T i d cs)) (after_key d a)).2)
  end.
Proof. reflexivity. Qed.

Lemma cut_data_fields d (ks : list positive) a :
  after_key (cut_data d ks) a = after_key d a /\ dup_data (cut_data d ks) a = dup_data d a.
Proof. by destruct d. Qed.

Lemma dupw_unroll F k : forall t a, dupw F k t a = dupm (unroll F k t) a.
Proof.
  induction k as [|k IH]; intros [i d cs] a.
  - cbn [dupw unroll]. rewrite dupm_unfold. cbn [dupl fst snd]. destruct (cut_data_fields d (tid <$> cs) a) as [-> ->].
    unfold is_cut. cbn [cut_data rd_ref]. by destruct (child_of d (tid <$> cs)).
  - rewrite dupw_S. cbn [unroll]. rewrite dupm_unfold.
    assert (Hl : forall l a', dupwl F k l a' = dupl (unroll F k <$> l) a').
    { induction l as [|c r IHr]; intros a'; [done|]. cbn [fmap list_fmap]. rewrite dupl_cons. cbn [dupwl].
      rewrite IH. destruct (dupm (unroll F k c) a') as [[tc|] a1]; [|done]. by rewrite IHr. }
    rewrite Hl.
    assert (Hc : is_cut d (unroll F k <$> kids F (T i d cs)) = is_cut d (kids F (T i d cs))).
    { unfold is_cut. by destruct (kids F (T i d cs)). }
    by rewrite Hc.
Qed.

(** * the nodes of the unrolling are nodes of the forest *)
Lemma kids_nodes F t :
  NoDup (ids F) -> refs_in F -> t ∈ nodes F -> Forall (fun x : tree => x ∈ nodes F) (kids F t).
Proof.
  intros ND RI Hn. destruct t as [i d cs]. destruct cs as [|c0 cs0].
  2:{ cbn [kids]. apply Forall_forall. intros c Hc. by eapply nodes_child. }
  cbn [kids]. destruct (rd_ref d) as [c|] eqn:Er; [|constructor].
  assert (He : (i, d, tid <$> []) ∈ flat F) by (apply (elem_of_flat F (T i d [])); done).
  pose proof (RI _ _ _ _ He Er) as Hc.
  destruct (chain_from_cases F c ND Hc) as [(p & dp & csp & j & Hp & Hj & ->)|(r & Hr & Hrc & ->)].
  - apply Forall_forall. intros x Hx. eapply nodes_child; [exact Hp|].
    rewrite <- (take_drop j csp). apply elem_of_app. by right.
  - apply Forall_singleton. by apply roots_in_nodes.
Qed.

(** a node of the unrolling carries the strings and the type of a node of the forest *)
Definition same_strs (d d0 : rdata) : Prop :=
  rd_key d = rd_key d0 /\ rd_vstr d = rd_vstr d0 /\ rd_type d = rd_type d0.

Lemma unroll_flat F k :
  NoDup (ids F) -> refs_in F ->
  forall t, t ∈ nodes F ->
  forall i d (ks : list positive), (i, d, ks) ∈ flat_t (unroll F k t) ->
    exists d0 (ks0 : list positive), (i, d0, ks0) ∈ flat F /\ same_strs d d0.
Proof.
  intros ND RI. induction k as [|k IH]; intros [i0 d0 cs0] Hn i d ks He.
  - cbn [unroll] in He. rewrite flat_t_unfold in He. cbn in He. apply elem_of_list_singleton in He.
    injection He as -> -> ->. exists d0, (tid <$> cs0). split; [by apply (elem_of_flat F (T i0 d0 cs0))|done].
  - cbn [unroll] in He. rewrite flat_t_unfold in He. apply elem_of_cons in He as [He|He].
    + injection He as -> -> ->. exists d0, (tid <$> cs0). split; [by apply (elem_of_flat F (T i0 d0 cs0))|done].
    + apply elem_of_flat_list in He as (c' & Hc' & He). apply elem_of_list_fmap in Hc' as (c & -> & Hc).
      pose proof (kids_nodes F _ ND RI Hn) as HK. rewrite Forall_forall in HK. by apply (IH c (HK c Hc) i d ks).
Qed.

(** * the new strings *)
Lemma news_unfold strs i d cs i' d' cs' :
  news strs (T i d cs) (T i' d' cs') = node_news strs d d' ++ news_list strs cs cs'.
Proof. reflexivity. Qed.
Lemma news_list_cons strs c r c' r' : news_list strs (c :: r) (c' :: r') = news strs c c' ++ news_list strs r r'.
Proof. reflexivity. Qed.

(** the strings of the source are strings of the model, unchanged in the heap after the call *)
Definition src_strs (strs : gmap positive bytes) h' (u : tree) : Prop :=
  forall i d (ks : list positive), (i, d, ks) ∈ flat_t u ->
    (forall b, rd_vstr d = Some b -> exists s : bytes, strs !! b = Some s /\ h_str h' !! b = Some s) /\
    (forall b, rd_key d = Some b -> is_const d = false -> exists s : bytes, strs !! b = Some s /\ h_str h' !! b = Some s).

Lemma src_strs_child strs h' i d cs c : src_strs strs h' (T i d cs) -> c ∈ cs -> src_strs strs h' c.
Proof. intros H Hc i' d' ks' He. apply (H i' d' ks'). by eapply flat_t_child. Qed.

Lemma str_copy_content strs h' b b' (s : bytes) :
  strs !! b = Some s -> h_str h' !! b = Some s -> str_copy h' b b' ->
  h_str h' !! b' = Some (cstr (default [] (strs !! b)) ++ [0%Z]).
Proof.
  intros Hs Hh (s1 & [_ H1] & [_ H2]). unfold bytes in *. rewrite Hs. cbn. rewrite H1 in Hh. injection Hh as ->. exact H2.
Qed.

Lemma node_news_sound strs h' d d' :
  (forall b, rd_vstr d = Some b -> exists s : bytes, strs !! b = Some s /\ h_str h' !! b = Some s) ->
  (forall b, rd_key d = Some b -> is_const d = false -> exists s : bytes, strs !! b = Some s /\ h_str h' !! b = Some s) ->
  data_copy h' d d' ->
  forall b' (s' : bytes), (b', s') ∈ node_news strs d d' -> h_str h' !! b' = Some s'.
Proof.
  intros Hv Hk (_ & _ & _ & _ & Dv & Dk) b' s' Hin. unfold node_news in Hin. apply elem_of_app in Hin as [Hin|Hin].
  - destruct (rd_vstr d) as [b|] eqn:Ev; [|by rewrite Dv in Hin; apply elem_of_nil in Hin].
    destruct Dv as (b2 & Hb2 & Hcp). rewrite Hb2 in Hin. cbn in Hin. apply elem_of_list_singleton in Hin.
    injection Hin as -> ->. destruct (Hv b eq_refl) as (s & H1 & H2). by apply (str_copy_content strs h' b b2 s).
  - destruct (is_const d) eqn:Ec; [by apply elem_of_nil in Hin|].
    destruct (rd_key d) as [b|] eqn:Ek; [|by rewrite Dk in Hin; apply elem_of_nil in Hin].
    destruct Dk as (b2 & Hb2 & Hcp). rewrite Hb2 in Hin. cbn in Hin. apply elem_of_list_singleton in Hin.
    injection Hin as -> ->. destruct (Hk b eq_refl eq_refl) as (s & H1 & H2). by apply (str_copy_content strs h' b b2 s).
Qed.

Lemma news_sound strs h' u : forall tc,
  copy_of h' u tc -> src_strs strs h' u ->
  forall b' (s' : bytes), (b', s') ∈ news strs u tc -> h_str h' !! b' = Some s'.
Proof.
  induction u as [i d cs IH] using tree_ind'. intros [i' d' cs'] Hcp Hsrc b' s' Hin.
  rewrite copy_of_unfold in Hcp. destruct Hcp as [Hd Hl]. rewrite news_unfold in Hin.
  apply elem_of_app in Hin as [Hin|Hin].
  - destruct (Hsrc i d (tid <$> cs)) as [Hv Hk]; [rewrite flat_t_unfold; by left|].
    by apply (node_news_sound strs h' d d' Hv Hk Hd).
  - assert (Hch : forall c, c ∈ cs -> src_strs strs h' c) by (intros c Hc; by eapply src_strs_child).
    clear Hsrc Hd. revert cs' Hl Hin. induction cs as [|c r IHr]; intros [|c' r'] Hl Hin; try done.
    + by apply elem_of_nil in Hin.
    + rewrite copy_list_cons in Hl. destruct Hl as [Hc Hr]. apply Forall_cons in IH as [IHc IHr'].
      rewrite news_list_cons in Hin. apply elem_of_app in Hin as [Hin|Hin].
      * apply (IHc c' Hc); [apply Hch; by left|done].
      * apply (IHr IHr') with (cs' := r'); [intros x Hx; apply Hch; by right|done|done].
Qed.

Lemma data_copy_flags h' d d' : data_copy h' d d' -> is_ref d' = false /\ is_const d' = is_const d.
Proof.
  intros (Hty & _). unfold is_ref, is_const. rewrite Hty. split.
  - pose proof (clear_ref_is_ref (rd_type d)) as H. unfold has_flag in H. by rewrite H.
  - pose proof (clear_ref_is_const (rd_type d)) as H. unfold has_flag in H. by rewrite H.
Qed.

Lemma node_news_complete strs h' d d' k :
  data_copy h' d d' -> k ∈ owned_strs d' -> k ∈ (node_news strs d d').*1.
Proof.
  intros Hd Hk. destruct (data_copy_flags _ _ _ Hd) as [Hr Hc]. destruct Hd as (_ & _ & _ & _ & Dv & Dk).
  unfold owned_strs in Hk. rewrite Hr, Hc in Hk. unfold node_news. rewrite fmap_app. apply elem_of_app.
  apply elem_of_app in Hk as [Hk|Hk].
  - left. destruct (rd_vstr d) as [b|]; [|rewrite Dv in Hk; by apply elem_of_nil in Hk].
    destruct Dv as (b2 & Hb2 & _). rewrite Hb2 in *. cbn in *. done.
  - right. destruct (is_const d); [by apply elem_of_nil in Hk|].
    destruct (rd_key d) as [b|]; [|rewrite Dk in Hk; by apply elem_of_nil in Hk].
    destruct Dk as (b2 & Hb2 & _). rewrite Hb2 in *. cbn in *. done.
Qed.

Lemma news_complete strs h' u : forall tc,
  copy_of h' u tc -> forall k, k ∈ sids (flat_t tc) -> k ∈ (news strs u tc).*1.
Proof.
  induction u as [i d cs IH] using tree_ind'. intros [i' d' cs'] Hcp k Hk.
  rewrite copy_of_unfold in Hcp. destruct Hcp as [Hd Hl]. rewrite news_unfold, fmap_app. apply elem_of_app.
  rewrite flat_t_unfold, sids_cons in Hk. cbn [fn_data fst snd] in Hk. apply elem_of_app in Hk as [Hk|Hk].
  - left. by eapply node_news_complete.
  - right. clear Hd. revert cs' Hl Hk. induction cs as [|c r IHr]; intros [|c' r'] Hl Hk; try (by cbn in Hl).
    rewrite copy_list_cons in Hl. destruct Hl as [Hc Hr]. apply Forall_cons in IH as [IHc IHr'].
    rewrite news_list_cons, fmap_app. apply elem_of_app.
    rewrite flat_cons, sids_app in Hk. apply elem_of_app in Hk as [Hk|Hk].
    + left. by apply (IHc c' Hc).
    + right. by apply (IHr IHr' r').
Qed.

(** the string heap after a successful call *)
Lemma dup_str_eq (strs : gmap positive bytes) h h' u tc :
  h_str h = strs -> Ext (nids (flat_t tc)) (sids (flat_t tc)) h h' -> copy_of h' u tc -> src_strs strs h' u ->
  h_str h' = list_to_map (news strs u tc) ∪ strs.
Proof.
  intros Hs Fr Hcp Hsrc. apply map_eq. intros k.
  set (M := list_to_map (news strs u tc) : gmap positive bytes).
  destruct (M !! k) as [s|] eqn:E; unfold M in *.
  - rewrite (lookup_union_Some_l _ _ _ _ E). apply elem_of_list_to_map_2 in E.
    by apply (news_sound strs h' u tc Hcp Hsrc).
  - rewrite lookup_union_r by done. apply not_elem_of_list_to_map_2 in E.
    rewrite (xt_str _ _ _ _ Fr); [by rewrite Hs|]. intros Hk. apply E. by eapply news_complete.
Qed.

(** * the counters *)
Lemma ctr_req g g' : ctr g' = ctr g -> (h_next g <= h_next g')%positive ->
  h_req g' = (h_req g + (Pos.to_nat (h_next g') - Pos.to_nat (h_next g)))%nat.
Proof. unfold ctr. intros H Hle. lia. Qed.

(** * what the checker establishes *)
Lemma refs_inb_sound F : refs_inb F = true -> refs_in F.
Proof.
  intros H i d ks c He Hc. unfold refs_inb in H. rewrite forallb_forall in H.
  specialize (H (i, d, ks) ltac:(by apply elem_of_list_In)). cbn in H. rewrite Hc in H. by apply bool_decide_eq_true in H.
Qed.

Lemma all_readable_abs h S : Abs3 h S -> vals_readableb S = true -> all_readable h (a_forest S).
Proof.
  intros [((W & _) & Hs & [SI1 _] & KO) _] Hv.
  assert (Hrd : forall b (s : bytes), a_str S !! b = Some s -> has0 s = true -> readable h b).
  { intros b s Hb Hz. exists s. split; [|done]. split; [by apply (SI1 _ _ Hb)|by rewrite Hs]. }
  intros i d ks He. split.
  - intros b Hb. unfold vals_readableb in Hv. rewrite forallb_forall in Hv.
    specialize (Hv (i, d, ks) ltac:(by apply elem_of_list_In)). cbn in Hv. rewrite Hb in Hv.
    destruct (a_str S !! b) as [s|] eqn:E1; [|done]. by apply (Hrd _ s).
  - intros b Hb _. destruct (KO (fdata (i, d, ks)) b) as [(s & H1 & H2) _]; [|done|by apply (Hrd _ s)].
    unfold datas. apply elem_of_list_fmap. by exists (i, d, ks).
Qed.

(** the strings of a source made of forest nodes *)
Lemma src_strs_abs h h' S u ns ss :
  Abs3 h S -> all_readable h (a_forest S) -> Ext ns ss h h' ->
  (forall i d (ks : list positive), (i, d, ks) ∈ flat_t u ->
     exists d0 (ks0 : list positive), (i, d0, ks0) ∈ flat (a_forest S) /\ same_strs d d0) ->
  src_strs (a_str S) h' u.
Proof.
  intros [(_ & Hs & _) _] AR Fr Hu i d ks He. destruct (Hu i d ks He) as (d0 & ks0 & He0 & Hk & Hv & Hty).
  destruct (AR i d0 ks0 He0) as [Rv Rk].
  assert (Hold : forall b, readable h b -> exists s : bytes, a_str S !! b = Some s /\ h_str h' !! b = Some s).
  { intros b (s & [Hl Hb] & _). exists s. split; [by rewrite <- Hs|].
    destruct (Ext_preserves _ _ _ _ _ Fr Hl) as (_ & _ & E3 & _). by rewrite E3. }
  split.
  - intros b Hb. apply Hold, Rv. by rewrite <- Hv.
  - intros b Hb Hc. apply Hold, Rk; [by rewrite <- Hk|]. unfold is_const in *. by rewrite <- Hty.
Qed.

(** * the representation after a successful call *)
Lemma dup_success_abs h h' S u tc item recurse :
  Abs3 h S -> cJSON_Duplicate nv item recurse h = Ret (Some (tid tc), h') ->
  Ext (nids (flat_t tc)) (sids (flat_t tc)) h h' -> NoDup (nids (flat_t tc) ++ sids (flat_t tc)) ->
  Chain_ok h' [tc] None -> Forall ref_ok (flat_t tc) -> copy_of h' u tc ->
  all_readable h (a_forest S) ->
  (forall i d (ks : list positive), (i, d, ks) ∈ flat_t u ->
     exists d0 (ks0 : list positive), (i, d0, ks0) ∈ flat (a_forest S) /\ same_strs d d0) ->
  Abs3 h' (mk3 (a_forest S ++ [tc]) (h_next h') (h_req h')
               (list_to_map (news (a_str S) u tc) ∪ a_str S) (a_foreign S)).
Proof.
  intros HA E Fr ND Ch R Hcp AR Hu. pose proof HA as [HA2 K].
  pose proof HA2 as ((W & NL & Hnext & Hreq) & Hs & [SI1 SI2] & KO).
  pose proof (Cons_cJSON_Duplicate nv item recurse _ _ _ E K) as CP.
  assert (W' : WF h' (a_forest S ++ [tc])) by (eapply Done_WF; eassumption).
  assert (NL' : NoLeak h' (a_forest S ++ [tc])) by (eapply Done_NoLeak; eassumption).
  pose proof (src_strs_abs h h' S u _ _ HA AR Fr Hu) as Hsrc.
  rewrite <- (dup_str_eq (a_str S) h h' u tc Hs Fr Hcp Hsrc).
  split; [|apply CP].
  refine (Abs2_build h h' S _ _ HA CP W' NL' eq_refl _).
  intros e b He Hb. rewrite datas_app in He. apply elem_of_app in He as [He|He].
  - (* an old node: its key block is live in h, hence untouched *)
    destruct (KO e b He Hb) as [(s & H1 & H2) Hc]. split; [|done]. exists s. split; [|done].
    destruct (SI1 _ _ H1) as [Hl _].
    destruct (Ext_preserves _ _ _ _ _ Fr Hl) as (_ & _ & E3 & _). rewrite E3, Hs. done.
  - (* a node of the copy *)
    unfold datas in He. rewrite flat_singleton in He. apply elem_of_list_fmap in He as ([[i' d'] ks'] & -> & He).
    cbn [fdata fn_id fn_data fst snd] in *.
    destruct (copy_of_flat _ _ _ Hcp i' d' ks' He) as (i & d & ks & Het & Hdc).
    destruct (data_copy_flags _ _ _ Hdc) as [_ Hconst']. destruct Hdc as (_ & _ & _ & _ & _ & Hk).
    destruct (Hu i d ks Het) as (d0 & ks0 & He0 & Hk0 & _ & Hty0).
    destruct (rd_key d) as [b0|] eqn:Ek; [|congruence].
    assert (Hed : fdata (i, d0, ks0) ∈ datas (a_forest S)).
    { unfold datas. apply elem_of_list_fmap. by exists (i, d0, ks0). }
    assert (Hc0 : is_const d0 = is_const d) by (unfold is_const; by rewrite Hty0).
    destruct (is_const d) eqn:Ec.
    + rewrite Hk in Hb. injection Hb as <-. destruct (KO _ b0 Hed (eq_sym Hk0)) as [(s & H1 & H2) Hc].
      split; [|intros _; apply Hc; exact Hc0]. exists s. split; [|done].
      apply (foreign_kept h h' S b0 s HA CP); [|done]. apply Hc. exact Hc0.
    + destruct Hk as (b' & Hk & (s & _ & [Hl Hstr'])). rewrite Hk in Hb. injection Hb as <-.
      split; [|rewrite Hconst'; done]. exists (cstr s ++ [0%Z]). split; [done|].
      unfold has0. rewrite existsb_app. cbn. by rewrite orb_true_r.
Qed.

(** … and after a refused call *)
Lemma dup_refused_abs h h' S item recurse :
  Abs3 h S -> cJSON_Duplicate nv item recurse h = Ret (None, h') -> Ext [] [] h h' ->
  Abs3 h' (mk3 (a_forest S) (h_next h') (h_req h') (a_str S) (a_foreign S)).
Proof.
  intros HA E Fr. pose proof HA as [HA2 K].
  pose proof HA2 as ((W & NL & Hnext & Hreq) & Hs & [SI1 SI2] & KO).
  pose proof (Cons_cJSON_Duplicate nv item recurse _ _ _ E K) as CP.
  destruct (Ext_nil_eq _ _ Fr) as (_ & _ & E3 & _).
  split; [|apply CP].
  refine (Abs2_build h h' S _ _ HA CP (Failed_WF _ _ _ W Fr) (Failed_NoLeak _ _ _ NL Fr) _ _).
  - by rewrite E3.
  - exact KO.
Qed.

(** * THE STEP *)
Lemma flat_source_fields d a :
  let d' := mkRD (rd_type d) (rd_vstr d) (rd_vint d) (rd_vdbl d) (rd_key d) None in
  after_key d' a = after_key d a /\ dup_data d' a = dup_data d a.
Proof. by destruct d. Qed.

Theorem dup_step h S item recurse :
  Abs3 h S -> dup_okb S item = true ->
  exists h', cJSON_Duplicate nv item recurse h = Ret ((spec_dup S item recurse).2, h') /\
             Abs3 h' (spec_dup S item recurse).1.
Proof.
  intros HA Hok. destruct item as [p|]; [|exists h; by split].
  unfold dup_okb in Hok. unfold spec_dup.
  destruct (find_tree p (a_forest S)) as [t|] eqn:Hp; [|done]. apply andb_true_iff in Hok as [Hri Hvr].
  pose proof (refs_inb_sound _ Hri) as RI. pose proof (all_readable_abs _ _ HA Hvr) as AR.
  pose proof HA as [((W & NL & Hnext & Hreq) & _) K]. pose proof (Abs3_Closed h S HA) as C.
  apply find_tree_Some in Hp as [Hn Htid].
  unfold nxt, req. rewrite <- Hnext, <- Hreq. cbn zeta.
  destruct recurse; unfold dup_result, dup_source.
  - (* recursive *)
    set (u := unroll (a_forest S) dup_limit_nat t).
    pose proof (src_t_unroll h _ W RI AR dup_limit_nat t Hn) as Hsrc. fold u in Hsrc.
    destruct (cJSON_DuplicateX h u C Hsrc) as (h' & E & Hn' & Hc' & HP).
    unfold u at 1 in E. rewrite tid_unroll, Htid in E. unfold resX in E.
    rewrite dupw_unroll. fold u.
    exists h'. destruct (dupm u (h_next h)) as [[tc|] b'] eqn:Ed; cbn [fst snd option_map] in *.
    + destruct HP as (Fr & ND & Ch & R & Hcp & _ & _).
      split; [exact E|]. rewrite <- Hn'.
      rewrite <- (ctr_req h h' Hc' (xt_next _ _ _ _ Fr)).
      apply (dup_success_abs h h' S u tc (Some p) true HA E Fr ND Ch R Hcp AR).
      apply (unroll_flat _ _ (wf_nodup _ _ W) RI t Hn).
    + split; [exact E|]. rewrite <- Hn'. rewrite <- (ctr_req h h' Hc' (xt_next _ _ _ _ HP)).
      by apply (dup_refused_abs h h' S (Some p) true).
  - (* the node alone *)
    destruct t as [i d cs]. cbn [tid] in Htid. subst i. cbn [flat_source].
    assert (He : (p, d, tid <$> cs) ∈ flat (a_forest S)) by (apply (elem_of_flat _ (T p d cs)); done).
    assert (Hnode : src_node h (Pos.to_nat (h_next h)) p d (tid <$> cs)).
    { split_and!.
      - split; [|by apply (WF_lookup_dat _ _ _ _ _ W He)].
        apply (WF_ids_live _ _ _ W). rewrite ids_flat. apply elem_of_list_fmap. by exists (p, d, tid <$> cs).
      - by apply (chain_fuel _ _ _ _ _ W He).
      - apply (AR _ _ _ He).
      - apply (AR _ _ _ He). }
    destruct (cJSON_Duplicate_flatX h p d _ C Hnode) as (h' & E & Hn' & Hc' & Fr & ND & Ch & R & Hdc).
    rewrite dupm_unfold. cbn [dupl fst snd is_cut rd_ref].
    destruct (flat_source_fields d (h_next h)) as [-> ->].
    exists h'. split; [exact E|]. rewrite <- Hn'. rewrite <- (ctr_req h h' Hc' (xt_next _ _ _ _ Fr)).
    apply (dup_success_abs h h' S _ (T (h_next h) (dup_data d (h_next h)) []) (Some p) false HA E Fr ND Ch R); [|done|].
    + rewrite copy_of_unfold. split; [|done].
      destruct Hdc as (H1 & H2 & H3 & H4 & H5 & H6). split_and!; done.
    + intros i' d' ks' He'. rewrite flat_t_unfold in He'. cbn in He'. apply elem_of_list_singleton in He'.
      injection He' as -> -> ->. exists d, (tid <$> cs). split; [done|]. done.
Qed.

(** the returned item is a block the model owns *)
Lemma spec_dup_owned S item recurse x :
  (spec_dup S item recurse).2 = Some x -> x ∈ owned (a_forest (spec_dup S item recurse).1).
Proof.
  unfold spec_dup. destruct item as [p|]; [|done]. destruct (find_tree p (a_forest S)) as [t|]; [|done].
  cbn zeta. destruct (dup_result (a_forest S) t recurse (nxt S)).1 as [tc|]; [|done]. cbn [fst snd].
  intros [= <-]. apply ids_subseteq_owned. cbn [a_forest mk3 a_st as_forest].
  rewrite CoreRefineDupForest.ids_snoc. apply elem_of_app. right. apply elem_of_ids_t_self.
Qed.
