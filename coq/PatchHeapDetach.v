(** PatchHeapDetach.v — stage 2: the heap-level [detach_path] (PatchHeapDefs.v) refines [PatchDefs.detach_path].

    Forest [G ++ [doc]]: the document is the last root, [G] is the rest (it contains the patch, whose string
    block [pb] holds the path).  Under [MInv h (G ++ [doc])], with the never-failing allocator:
      - the run returns normally; the string heap afterwards IS the string heap before (the copy of the path is
        allocated, split, decoded in place and released); [NoLeak] is preserved on every exit;
      - value-level [Ok None]  ⇒ NULL is returned and the forest is unchanged;
      - value-level [Ok (Some (it, doc'))] ⇒ the detached item [m] is returned, the forest is
        [(G ++ [docT]) ++ [m]] with [reify m = it], [reify docT = doc'], [G] literally unchanged;
      - the value-level model never returns OOB here. *)
From CJ Require Import Base Dbl Heap Forest ForestLemmas CoreSpec CoreDefs CoreRefineBase CoreRefine CoreRefineMore
  CoreRefineDelete CoreRefineReplace CoreRefineObject CoreRefineByKey CoreRefineFrame CoreRefineHistory CoreRefineAddObject
  CoreRefineCreate CoreRefineDupValue CoreLedgerGen.
From CJ Require Import TierBridgeDefs TierBridgeForest TierBridgeLemmas TierBridgeUtilsDefs TierBridgeUtils TierBridgeE2E2
  MergeHeapDefs MergeHeapInv PatchHeapDefs PatchHeapPath PatchHeapPointer PatchHeapStr PatchHeapSteps.
From CJ Require Tree PointerDefs PatchDefs CompareDefs SortSpec PatchProofs.
From CJ.gen Require Import Constants.
From stdpp Require Import gmap.
From Coq Require Import Lia.
Local Open Scope Z_scope.

Ltac nrm := repeat (progress (rewrite ?bindM_assoc, ?bindM_ret)).

(** what the value-level result says about the heap-level result *)
Definition detach_post (St : gmap positive bytes) (G : forest) (doc : tree) (r : ptr) (F' : forest)
    (v : Base.res (option (Tree.node * Tree.node))) : Prop :=
  match v with
  | Ok None => r = None /\ F' = G ++ [doc]
  | Ok (Some (it, doc')) =>
      exists m pp p d cs (j : nat),
        r = Some (tid m) /\ subtree_t doc pp = Some (T p d cs) /\ cs !! j = Some m /\
        F' = (G ++ [put_t doc pp (T p d (delete j cs))]) ++ [m] /\
        reify St m = it /\ reify St (put_t doc pp (T p d (delete j cs))) = doc'
  | _ => False
  end.

Section Detach.
  Context (h : heap) (G : forest) (doc : tree) (pb : positive) (sp : bytes) (flag : bool).
  Hypothesis I : MInv h (G ++ [doc]).
  Hypothesis Hpl : pb ∈ h_live h.
  Hypothesis Hps : h_str h !! pb = Some sp.
  Hypothesis Hpz : existsb (Z.eqb 0) sp = true.
  Notation F := (G ++ [doc]).
  Notation St := (h_str h).
  Notation path := (cstr sp).
  Let B := h_next h.
  Let NL0 := NoLeak h F.
  Let W : WF h F := mi_wf _ _ I.
  Let ND : NoDup (ids F) := wf_nodup _ _ W.

  Lemma doc_node : doc ∈ nodes F.
  Proof. apply roots_in_nodes. apply elem_of_app. right. by left. Qed.

  Lemma St_fresh : St !! B = None.
  Proof. exact (proj1 (proj2 (MInv_fresh_block _ _ I))). Qed.

  (** the common tail: release the copy *)
  Lemma detach_finish hm F' c (r : ptr) :
    Mid NL0 B hm F' -> h_str hm = <[B := c]> St ->
    exists h', (cJSON_free (Some B) ;;; ret r) hm = Ret (r, h') /\ MInv h' F' /\ h_str h' = St /\ (NL0 -> NoLeak h' F') /\
               h_next h' = h_next hm.
  Proof.
    intros M E. destruct (Mid_free NL0 B hm F' r M) as (Hrun & I' & NL' & Es & En).
    exists (free1 B hm). split; [done|]. split; [done|]. split; [|done].
    rewrite Es, E. apply delete_insert_fresh, St_fresh.
  Qed.

  Theorem detach_path_refines :
    exists h' r F',
      detach_path nofail (Some (tid doc)) (Some pb) flag h = Ret (r, h') /\
      MInv h' F' /\ h_str h' = St /\ (NoLeak h F -> NoLeak h' F') /\ h_next h' = Pos.succ (h_next h) /\
      detach_post St G doc r F' (PatchDefs.detach_path (reify St doc) path flag).
  Proof.
    pose proof (SortSpec.cstr_zfree sp) as Hzp.
    (* 1. the copy *)
    assert (Hdup : cJSONUtils_strdup nofail (Some pb) h = Ret (Some B, alloc_str h (path ++ [0]))).
    { change (cJSONUtils_strdup nofail (Some pb) h) with (cJSON_strdup nofail (Some pb) h).
      apply (CoreRefineAddObject.cJSON_strdup_ok nofail h pb sp); [split; [done|by exists sp]|done|done]. }
    set (h1 := alloc_str h (path ++ [0])) in *.
    pose proof (Mid_alloc h F (path ++ [0]) I) as M1. fold B h1 NL0 in M1.
    assert (E1 : h_str h1 = <[B := path ++ [0]]> St) by done.
    assert (HB1 : h_str h1 !! B = Some (path ++ [0])) by (rewrite E1; apply lookup_insert).
    assert (R1 : CsReads h1 (CAt B 0) path).
    { unfold CsReads. split; [exact (md_live _ _ _ _ M1)|]. exists (path ++ [0]). rewrite E1, lookup_insert, drop_0. split; [done|].
      split; [apply existsb_zero_app_zero|]. symmetry. by apply cstr_app_zfree. }
    unfold detach_path. stp Hdup. cbn [is_null cs_of_ptr].
    unfold strrchr_slash. stp (run_ld_cs _ _ _ R1). rewrite bindM_ret.
    rewrite detach_path_uses.
    destruct (PatchDefs.last_slash path 0 None) as [i|] eqn:Els.
    2:{ (* no '/' *)
      rewrite bindM_ret. destruct (detach_finish h1 F (path ++ [0]) None M1 E1) as (h' & Hrun & I' & Es & NL' & En).
      exists h', None, F. split; [exact Hrun|]. split; [done|]. split; [done|]. split; [done|]. split; [by rewrite En|]. done. }
    pose proof (last_slash_bound _ _ Els) as Hi.
    (* 2. split *)
    set (blk2 := take i path ++ 0 :: drop (S i) path ++ [0]).
    assert (Hst : st_byte (CAt B 0) i 0 h1 = Ret (tt, set_str h1 (<[B := blk2]> (h_str h1)))).
    { unfold st_byte. stp (run_ld_str h1 B (path ++ [0]) (md_live _ _ _ _ M1) HB1).
      cbn [Nat.add]. rewrite app_length. cbn [length]. destruct (Nat.ltb_spec i (length path + 1)) as [_|]; [|lia].
      rewrite (upd_split path i Hi). fold blk2.
      apply (run_st_str h1 B (path ++ [0])); [exact (md_live _ _ _ _ M1)|exact HB1|exact (md_own _ _ _ _ M1)|].
      unfold blk2. rewrite !app_length. cbn [length]. rewrite app_length, take_length, drop_length. cbn. lia. }
    set (h2 := set_str h1 (<[B := blk2]> (h_str h1))) in *.
    pose proof (Mid_write NL0 B h1 F blk2 M1) as M2. fold h2 in M2.
    assert (E2 : h_str h2 = <[B := blk2]> St) by (unfold h2; cbn [h_str set_str]; by rewrite E1, insert_insert).
    assert (HB2 : h_str h2 !! B = Some blk2) by (rewrite E2; apply lookup_insert).
    assert (R2 : CsReads h2 (CAt B 0) (take i path)).
    { unfold CsReads. split; [exact (md_live _ _ _ _ M2)|]. exists blk2. rewrite E2, lookup_insert, drop_0. split; [done|].
      split; [apply existsb_zero_app_zero|]. symmetry. apply cstr_app_zfree. by apply zfree_take. }
    assert (R2c : CsReads h2 (CAt B (S i)) (drop (S i) path)).
    { unfold CsReads. split; [exact (md_live _ _ _ _ M2)|]. exists blk2. rewrite E2, lookup_insert. split; [done|]. unfold blk2. rewrite (drop_split_tail path i Hi).
      split; [apply existsb_zero_app_zero|]. symmetry. apply (cstr_app_zfree _ []). by apply zfree_drop. }
    rewrite !bindM_assoc. stp Hst.
    pose proof (md_inv _ _ _ _ M2) as I2.
    assert (Hre2 : forall t, t ∈ nodes F -> reify (h_str h2) t = reify St t).
    { intros t Ht. rewrite E2. apply (reify_temp St B blk2 F t (mi_own _ _ I) (md_fresh _ _ _ _ M2) Ht). }
    cbn [cs_plus Nat.add].
    stp (get_item_from_pointer_refines h2 F I2 doc (CAt B 0) (take i path) flag doc_node R2).
    rewrite (Hre2 doc doc_node). change (firstn i path) with (take i path). change (skipn (S i) path) with (drop (S i) path).
    destruct (PointerDefs.get_item_from_pointer (reify St doc) (take i path) flag) as [pp|] eqn:Egip; cbn [mbind option_bind].
    2:{ (* no parent *)
      cbn [fmap option_fmap option_map]. unfold cJSON_IsArray, cJSON_IsObject. cbn [is_null]. nrm.
      destruct (detach_finish h2 F blk2 None M2 E2) as (h' & Hrun & I' & Es & NL' & En).
      exists h', None, F. split; [exact Hrun|]. split; [done|]. split; [done|]. split; [done|]. split; [by rewrite En|]. done. }
    assert (Egip2 : PointerDefs.get_item_from_pointer (reify (h_str h2) doc) (take i path) flag = Some pp) by (by rewrite Hre2 by apply doc_node).
    destruct (get_item_loop_subtree h2 flag _ _ _ _ Egip2) as [[p d cs] Hsub]. rewrite Hsub. cbn [fmap option_fmap option_map tid].
    rewrite reify_subtree, Hsub. cbn [fmap option_fmap option_map].
    assert (Hpn : T p d cs ∈ nodes F).
    { rewrite nodes_app. apply elem_of_app. right. unfold nodes. cbn. rewrite app_nil_r. by eapply subtree_t_nodes. }
    assert (Hp : find_tree p F = Some (T p d cs)) by (exact (find_tree_doc G doc pp _ ND Hsub)).
    assert (Href : is_ref d = false) by (exact (node_not_ref h F I p d cs Hpn)).
    unfold cJSON_IsArray, cJSON_IsObject. cbn [is_null].
    stp (run_is_type h2 F I2 p d cs c_cJSON_Array Hpn).
    unfold Tree.is_array, Tree.is_object, Tree.is_type, Tree.tymask.
    change (Tree.n_ty (reify St (T p d cs))) with (rd_type d).
    pose proof (mi_wf _ _ I2) as W2.
    destruct (Z.land (rd_type d) 255 =? c_cJSON_Array) eqn:Earr.
    - (* the parent is an array *)
      unfold decode_array_index_from_pointer. stp (run_ld_cs _ _ _ R2c). rewrite bindM_ret.
      destruct (PointerDefs.decode_array_index_from_pointer (drop (S i) path)) as [idx|] eqn:Eidx.
      2:{ nrm. destruct (detach_finish h2 F blk2 None M2 E2) as (h' & Hrun & I' & Es & NL' & En).
          exists h', None, F. split; [exact Hrun|]. split; [done|]. split; [done|]. split; [done|]. split; [by rewrite En|]. done. }
      pose proof (decode_index_nonneg _ _ Eidx) as Hidx.
      unfold v_detach_from_array. rewrite reify_children. cbn [tchildren].
      rewrite nth_z_lookup. destruct (Z.ltb_spec idx 0) as [|_]; [lia|]. rewrite map_fmap, list_lookup_fmap.
      destruct (cs !! Z.to_nat idx) as [m|] eqn:Em; cbn [fmap option_fmap option_map].
      + destruct (u_detach_sim h2 F p d cs idx m W2 Hp Href Hidx Em) as (_ & Hrun & W3).
        rewrite (set_children_doc G doc pp p d cs _ ND Hsub) in Hrun, W3.
        set (F' := (G ++ [put_t doc pp (T p d (delete (Z.to_nat idx) cs))]) ++ [m]) in *.
        set (h3 := upd_maps h2 (heap_lnk_of F') (heap_dat_of F')) in *.
        pose proof (datas_detach F p d cs _ m ND Hp Em) as HD. rewrite (set_children_doc G doc pp p d cs _ ND Hsub) in HD. fold F' in HD.
        assert (M3 : Mid NL0 B h3 F').
        { apply (Mid_relink NL0 B h2 F F'); [done|done| |done].
          exact (Cons_ok _ _ _ _ (Cons_detach_item_from_array _ _) Hrun (mi_ok _ _ I2)). }
        stp Hrun. destruct (detach_finish h3 F' blk2 (Some (tid m)) M3 E2) as (h' & Hrun' & I' & Es & NL' & En).
        exists h', (Some (tid m)), F'. split; [exact Hrun'|]. split; [done|]. split; [done|]. split; [done|]. split; [by rewrite En|].
        cbn [detach_post]. exists m, pp, p, d, cs, (Z.to_nat idx). split; [done|]. split; [done|]. split; [done|]. split; [done|].
        split; [done|]. rewrite <- reify_put. f_equal. rewrite remove_nth_delete, <- TierBridgeLemmas.map_delete. exact (reify_set_children St p d cs (delete (Z.to_nat idx) cs)).
      + destruct (u_detach_refused h2 F p d cs idx W2 Hp Href Hidx Em) as [_ Hrun]. stp Hrun.
        destruct (detach_finish h2 F blk2 None M2 E2) as (h' & Hrun' & I' & Es & NL' & En).
        exists h', None, F. split; [exact Hrun'|]. split; [done|]. split; [done|]. split; [done|]. split; [by rewrite En|]. done.
    - stp (run_is_type h2 F I2 p d cs c_cJSON_Object Hpn).
      destruct (Z.land (rd_type d) 255 =? c_cJSON_Object) eqn:Eobj.
      2:{ nrm. destruct (detach_finish h2 F blk2 None M2 E2) as (h' & Hrun & I' & Es & NL' & En).
          exists h', None, F. split; [exact Hrun|]. split; [done|]. split; [done|]. split; [done|]. split; [by rewrite En|]. done. }
      (* the parent is an object: decode the last token in place *)
      destruct (decode_pointer_inplace_terminated (drop (S i) path)) as (buf & Hdpi & Hlen & Hbz).
      rewrite Hdpi. cbn [bind].
      set (blk3 := (take i path ++ [0]) ++ buf).
      assert (Hdec : decode_pointer_inplace (CAt B (S i)) h2 = Ret (tt, set_str h2 (<[B := blk3]> (h_str h2)))).
      { unfold decode_pointer_inplace. stp (run_ld_str h2 B blk2 (md_live _ _ _ _ M2) HB2).
        unfold blk2. rewrite (drop_split_tail path i Hi), (take_split_head path i Hi), Hdpi. fold blk3.
        apply (run_st_str h2 B blk2); [exact (md_live _ _ _ _ M2)|exact HB2|exact (md_own _ _ _ _ M2)|].
        unfold blk3, blk2. rewrite !app_length, Hlen. cbn [length]. rewrite !app_length. cbn. lia. }
      set (h3 := set_str h2 (<[B := blk3]> (h_str h2))) in *.
      pose proof (Mid_write NL0 B h2 F blk3 M2) as M3. fold h3 in M3.
      assert (E3 : h_str h3 = <[B := blk3]> St) by (unfold h3; cbn [h_str set_str]; by rewrite E2, insert_insert).
      assert (R3 : CsReads h3 (CAt B (S i)) (cstr buf)).
      { unfold CsReads. split; [exact (md_live _ _ _ _ M3)|]. exists blk3. rewrite E3, lookup_insert. split; [done|].
        assert (Ed : drop (S i) blk3 = buf).
        { unfold blk3. rewrite drop_app_ge by (rewrite app_length, take_length; cbn; lia).
          rewrite app_length, take_length. cbn. replace (S i - (i `min` length path + 1))%nat with 0%nat by lia. done. }
        by rewrite Ed. }
      stp Hdec. pose proof (md_inv _ _ _ _ M3) as I3. pose proof (mi_wf _ _ I3) as W3.
      assert (Hre3 : forall t, t ∈ nodes F -> reify (h_str h3) t = reify St t).
      { intros t Ht. rewrite E3. apply (reify_temp St B blk3 F t (mi_own _ _ I) (md_fresh _ _ _ _ M3) Ht). }
      pose proof (CsReads_zfree _ _ _ R3) as Hzb.
      unfold v_detach_from_object. rewrite <- (Hre3 _ Hpn).
      rewrite (get_object_item_found (h_str h3) p d cs (cstr buf) flag Hzb).
      assert (Hsame : (if flag then cJSON_DetachItemFromObjectCaseSensitive_s (Some p) (CAt B (S i))
                       else cJSON_DetachItemFromObject_s (Some p) (CAt B (S i))) =
                      (to_detach <~ get_object_item_s (Some p) (CAt B (S i)) flag ;; cJSON_DetachItemViaPointer (Some p) to_detach)).
      { by destruct flag. }
      rewrite Hsame.
      destruct (found_member (h_str h3) flag (cstr buf) cs) as [[j m]|] eqn:Efm; cbn [fmap option_fmap option_map fst snd].
      + destruct (detach_by_key_s_found h3 F p d cs _ _ W3 (MInv_KeysReadable _ _ I3) Hp R3 Href flag j m Efm) as (Hrun & W4 & Hj).
        rewrite (set_children_doc G doc pp p d cs _ ND Hsub) in Hrun, W4.
        set (F' := (G ++ [put_t doc pp (T p d (delete j cs))]) ++ [m]) in *.
        set (h4 := upd_maps h3 (heap_lnk_of F') (heap_dat_of F')) in *.
        pose proof (datas_detach F p d cs _ m ND Hp Hj) as HD. rewrite (set_children_doc G doc pp p d cs _ ND Hsub) in HD. fold F' in HD.
        assert (M4 : Mid NL0 B h4 F').
        { apply (Mid_relink NL0 B h3 F F'); [done|done| |done].
          refine (Cons_ok _ _ _ _ _ Hrun (mi_ok _ _ I3)). apply Cons_bind; [apply Cons_get_object_item_s|intros a; apply Cons_cJSON_DetachItemViaPointer]. }
        rewrite (bindM_Ret _ _ _ _ _ Hrun). destruct (detach_finish h4 F' blk3 (Some (tid m)) M4 E3) as (h' & Hrun' & I' & Es & NL' & En).
        exists h', (Some (tid m)), F'. split; [exact Hrun'|]. split; [done|]. split; [done|]. split; [done|]. split; [by rewrite En|].
        cbn [detach_post]. exists m, pp, p, d, cs, j. split; [done|]. split; [done|]. split; [done|]. split; [done|].
        assert (Hmn : m ∈ nodes F) by (eapply child_node; [exact Hpn|exact Hj]).
        split; [symmetry; by apply Hre3|]. rewrite <- reify_put. f_equal. rewrite (Hre3 _ Hpn), reify_children. cbn [tchildren].
        rewrite remove_nth_delete, <- TierBridgeLemmas.map_delete. exact (reify_set_children St p d cs (delete j cs)).
      + pose proof (detach_by_key_s_none h3 F p d cs _ _ W3 (MInv_KeysReadable _ _ I3) Hp R3 Href flag Efm) as Hrun. rewrite (bindM_Ret _ _ _ _ _ Hrun).
        destruct (detach_finish h3 F blk3 None M3 E3) as (h' & Hrun' & I' & Es & NL' & En).
        exists h', None, F. split; [exact Hrun'|]. split; [done|]. split; [done|]. split; [done|]. split; [by rewrite En|]. done.
  Qed.
End Detach.
