(** MergeHeapProofs.v — the heap-level [merge_patch] of MergeHeapDefs.v REFINES the value-level model
    [MergeDefs.mp_merge_patch] (hence, by C18, RFC 7396).

    [merge_rec] (induction on the patch tree, inner induction along the member chain): for a heap with
    [MInv h (G ++ target)] — [G] contains the patch node, the target is the LAST root or absent — and enough
    fuel, the run returns a non-NULL pointer without memory error, the new heap satisfies [MInv] for
    [G ++ [result]] ([G] literally unchanged, its strings untouched), nothing is leaked, and the reified result
    is what the value-level model computes from the reified target and patch.
    [merge_patch_refines]: the same for the public entry points (fuel from the heap) and a target root ANYWHERE
    in the forest (roots are unordered: [WF_perm]).
    Hypotheses beyond [MInv]: the patch nests at most CJSON_CIRCULAR_LIMIT deep (the real limit of
    cJSON_Duplicate), and every member of an object node of the patch has a key ([members_keyed]) — without
    a key cJSON_AddItemToObject refuses, its result is ignored by merge_patch, and the replacement is leaked
    ([MergeHeapEx.keyless_member_leaks]). *)
From CJ Require Import Base Dbl Heap Forest ForestLemmas CoreSpec CoreDefs CoreRefineBase CoreRefine CoreRefineMore
  CoreRefineDelete CoreRefineObject CoreRefineFrame CoreRefineHistory CoreRefineAddObject
  CoreRefineDupBase CoreRefineDupValue CoreRefineDupForest CoreLedgerGen.
From CJ Require Import TierBridgeDefs TierBridgeForest TierBridgeLemmas TierBridgeEndToEnd TierBridgeEndToEndStr TierBridgeE2E2.
From CJ Require Import MergeHeapDefs MergeHeapInv.
From CJ Require Tree CompareDefs MergeDefs MergeApply SortSpec.
From CJ.gen Require Import Constants.
From stdpp Require Import gmap.
From Coq Require Import Lia.
Local Open Scope Z_scope.

(** * the member loop as a standalone function *)
Definition merge_loop (oracle : nat -> bool) (rec : ptr -> ptr -> M ptr) (target : ptr) (case_sensitive : bool) : nat -> ptr -> M ptr :=
  fix loop (lf : nat) (patch_child : ptr) {struct lf} : M ptr :=
    match lf with
    | O => fail NoFuel
    | S lf' =>
        if is_null patch_child then ret target else
        pn <~ cJSON_IsNull patch_child ;;
        go_on <~ (if pn then
                    (if case_sensitive then
                       k <~ get_key patch_child ;; cJSON_DeleteItemFromObjectCaseSensitive target k
                     else
                       k <~ get_key patch_child ;; cJSON_DeleteItemFromObject target k) ;;;
                    ret true
                  else
                    replace_me <~ (if case_sensitive then
                                     k <~ get_key patch_child ;; cJSON_DetachItemFromObjectCaseSensitive target k
                                   else
                                     k <~ get_key patch_child ;; cJSON_DetachItemFromObject target k) ;;
                    replacement <~ rec replace_me patch_child ;;
                    if is_null replacement then
                      cJSON_Delete target ;;;
                      ret false
                    else
                      k2 <~ get_key patch_child ;;
                      cJSON_AddItemToObject oracle target k2 replacement ;;;
                      ret true) ;;
        if negb go_on then ret None else
        nx <~ get_next patch_child ;;
        loop lf' nx
    end.

Lemma merge_patch_fuel_S_gen oracle df lf target patch flag :
  merge_patch_fuel oracle (S df) lf target patch flag =
  (po <~ cJSON_IsObject patch ;;
   if negb po then cJSON_Delete target ;;; cJSON_Duplicate oracle patch true
   else
     to <~ cJSON_IsObject target ;;
     target' <~ (if negb to then cJSON_Delete target ;;; cJSON_CreateObject oracle else ret target) ;;
     patch_child <~ get_child patch ;;
     merge_loop oracle (fun rm pc => merge_patch_fuel oracle df lf rm pc flag) target' flag lf patch_child).
Proof. reflexivity. Qed.
Lemma merge_patch_fuel_S df lf target patch flag :
  merge_patch_fuel nofail (S df) lf target patch flag =
  (po <~ cJSON_IsObject patch ;;
   if negb po then cJSON_Delete target ;;; cJSON_Duplicate nofail patch true
   else
     to <~ cJSON_IsObject target ;;
     target' <~ (if negb to then cJSON_Delete target ;;; cJSON_CreateObject nofail else ret target) ;;
     patch_child <~ get_child patch ;;
     merge_loop nofail (fun rm pc => merge_patch_fuel nofail df lf rm pc flag) target' flag lf patch_child).
Proof. reflexivity. Qed.

(** * small facts *)
Lemma run_type_is h F p d cs k :
  WF h F -> find_tree p F = Some (T p d cs) -> type_is (Some p) k h = Ret (Tree.tymask (rd_type d) =? k, h).
Proof.
  intros W Hp. destruct (WF_live_dat _ _ _ _ _ W Hp) as [Hl Hd]. unfold type_is.
  by rewrite (bindM_Ret _ _ _ _ _ (run_get_type_plain _ _ _ Hl Hd)).
Qed.
Lemma run_get_key_node h F p d cs :
  WF h F -> find_tree p F = Some (T p d cs) -> get_key (Some p) h = Ret (rd_key d, h).
Proof. intros W Hp. destruct (WF_live_dat _ _ _ _ _ W Hp) as [Hl Hd]. exact (run_get_key_plain _ _ _ Hl Hd). Qed.

(** number of nodes *)
Lemma tsize_unfold i d cs : tsize (T i d cs) = S (length (nodes cs)).
Proof. unfold tsize. by rewrite nodes_t_unfold. Qed.
Lemma tsize_pos t : (1 <= tsize t)%nat.
Proof. destruct t. rewrite tsize_unfold. lia. Qed.
Lemma nodes_length_elem c cs : c ∈ cs -> (tsize c <= length (nodes cs))%nat.
Proof.
  intros Hc. apply elem_of_list_split in Hc as (l1 & l2 & ->). rewrite nodes_app, nodes_cons, !app_length.
  unfold tsize. lia.
Qed.
Lemma nodes_length_ge cs : (length cs <= length (nodes cs))%nat.
Proof.
  induction cs as [|c r IH]; [done|]. rewrite nodes_cons, app_length. cbn [length].
  pose proof (tsize_pos c). unfold tsize in *. lia.
Qed.

(** every member of an object node has a key *)
Definition members_keyed (t : tree) : Prop :=
  forall i d cs, T i d cs ∈ nodes_t t -> Tree.tymask (rd_type d) = c_cJSON_Object ->
                 forall c, c ∈ cs -> rd_key (tdata c) <> None.
Lemma members_keyed_child i d cs c : members_keyed (T i d cs) -> c ∈ cs -> members_keyed c.
Proof.
  intros H Hc i' d' cs' Hn. apply (H i' d' cs'). rewrite nodes_t_unfold. right. apply elem_of_nodes. exists c. by split.
Qed.

Lemma keyed_eq n k : PatchDefs.keyed n k = MergeDefs.mp_keyed k n.
Proof.
  destruct n. unfold PatchDefs.keyed, MergeDefs.mp_keyed, MergeDefs.mp_clear_const.
  cbn [PatchDefs.set_key PatchDefs.set_ty Tree.n_ty]. by rewrite Z.ldiff_land.
Qed.

(** value-level detach through [found_member] *)
Lemma detach_value St x d cs (name : bytes) flag :
  SortSpec.zfree name ->
  MergeDefs.mp_DetachItemFromObject (reify St (T x d cs)) (Some name) flag =
  match found_member St flag name cs with
  | Some (j, m) => (Some (reify St m), reify St (T x d (delete j cs)))
  | None => (None, reify St (T x d cs))
  end.
Proof.
  intros Hz. unfold MergeDefs.mp_DetachItemFromObject. rewrite (get_object_item_found St x d cs name flag Hz).
  destruct (found_member St flag name cs) as [[j m]|]; cbn [fmap option_fmap option_map fst snd]; [|done].
  f_equal. rewrite mp_remove_nth_delete, reify_children. cbn [tchildren]. rewrite <- TierBridgeLemmas.map_delete.
  apply reify_mp_set_children.
Qed.

(** the two case modes of the by-key calls are one composition *)
Lemma delete_by_key_is target patch_child (flag : bool) :
  (if flag then k <~ get_key patch_child ;; cJSON_DeleteItemFromObjectCaseSensitive target k
   else k <~ get_key patch_child ;; cJSON_DeleteItemFromObject target k) =
  (k <~ get_key patch_child ;;
   it <~ (to_detach <~ get_object_item target k flag ;; cJSON_DetachItemViaPointer target to_detach) ;; cJSON_Delete it).
Proof. by destruct flag. Qed.
Lemma detach_by_key_is target patch_child (flag : bool) :
  (if flag then k <~ get_key patch_child ;; cJSON_DetachItemFromObjectCaseSensitive target k
   else k <~ get_key patch_child ;; cJSON_DetachItemFromObject target k) =
  (k <~ get_key patch_child ;;
   to_detach <~ get_object_item target k flag ;; cJSON_DetachItemViaPointer target to_detach).
Proof. by destruct flag. Qed.

(** * one member of the patch: removal (null member) *)
Lemma iter_delete h G x d cs kb sn flag :
  MInv h (G ++ [T x d cs]) -> kb ∈ h_live h -> h_str h !! kb = Some sn -> existsb (Z.eqb 0) sn = true ->
  exists h' cs',
    (it <~ (to_detach <~ get_object_item (Some x) (Some kb) flag ;; cJSON_DetachItemViaPointer (Some x) to_detach) ;;
     cJSON_Delete it) h = Ret (tt, h') /\
    MInv h' (G ++ [T x d cs']) /\ (NoLeak h (G ++ [T x d cs]) -> NoLeak h' (G ++ [T x d cs'])) /\ KeepO h h' G /\
    MergeDefs.mp_DeleteItemFromObject (reify (h_str h) (T x d cs)) (Some (cstr sn)) flag = reify (h_str h') (T x d cs').
Proof.
  intros I Hkl Hks Hkz. unfold MergeDefs.mp_DeleteItemFromObject.
  rewrite (detach_value (h_str h) x d cs (cstr sn) flag (SortSpec.cstr_zfree sn)).
  destruct (found_member (h_str h) flag (cstr sn) cs) as [[j m]|] eqn:E; cbn [snd].
  - destruct (step_detach_found h G x d cs kb sn flag I Hkl Hks Hkz j m E) as (h1 & Hrun1 & I1 & NL1 & Hs1 & _ & _).
    destruct (step_delete_last h1 (G ++ [T x d (delete j cs)]) m I1) as (h2 & Hrun2 & I2 & NL2 & K2 & _).
    exists h2, (delete j cs). split; [|split; [exact I2|split; [|split]]].
    + by rewrite (bindM_Ret _ _ _ _ _ Hrun1).
    + intros NL. by apply NL2, NL1.
    + intros b Hb. rewrite (K2 b); [by rewrite Hs1|]. rewrite owned_app. apply elem_of_app. by left.
    + rewrite (reify_keep h1 h2 (G ++ [T x d (delete j cs)]) _ (mi_own _ _ I2) ltac:(rewrite nodes_app; apply elem_of_app; right; apply roots_in_nodes; by left) K2).
      by rewrite Hs1.
  - exists h, cs. split; [|split; [exact I|split; [done|split; [apply KeepO_refl|done]]]].
    rewrite (bindM_Ret _ _ _ _ _ (step_detach_none h G x d cs kb sn flag I Hkl Hks Hkz E)).
    apply step_delete_null.
Qed.

(** * one member of the patch: the member of the same name is taken out of the target *)
Lemma iter_detach h G x d cs kb sn flag :
  MInv h (G ++ [T x d cs]) -> kb ∈ h_live h -> h_str h !! kb = Some sn -> existsb (Z.eqb 0) sn = true ->
  exists h' cs1 (rm : option tree),
    (to_detach <~ get_object_item (Some x) (Some kb) flag ;; cJSON_DetachItemViaPointer (Some x) to_detach) h =
      Ret (tid <$> rm, h') /\
    MInv h' ((G ++ [T x d cs1]) ++ opt_list rm) /\
    (NoLeak h (G ++ [T x d cs]) -> NoLeak h' ((G ++ [T x d cs1]) ++ opt_list rm)) /\
    h_str h' = h_str h /\
    MergeDefs.mp_DetachItemFromObject (reify (h_str h) (T x d cs)) (Some (cstr sn)) flag =
      (reify (h_str h) <$> rm, reify (h_str h) (T x d cs1)).
Proof.
  intros I Hkl Hks Hkz.
  rewrite (detach_value (h_str h) x d cs (cstr sn) flag (SortSpec.cstr_zfree sn)).
  destruct (found_member (h_str h) flag (cstr sn) cs) as [[j m]|] eqn:E.
  - destruct (step_detach_found h G x d cs kb sn flag I Hkl Hks Hkz j m E) as (h1 & Hrun1 & I1 & NL1 & Hs1 & _ & _).
    exists h1, (delete j cs), (Some m). by split_and!.
  - exists h, cs, None. cbn [opt_list]. rewrite app_nil_r. split_and!; try done.
    exact (step_detach_none h G x d cs kb sn flag I Hkl Hks Hkz E).
Qed.

(** * the recursion *)
Notation LIMIT := (Z.to_nat c_CJSON_CIRCULAR_LIMIT).

(** what is proved about a call [merge_patch(target, patch)] whose patch is the node [tp] of [G] *)
Definition merge_spec (tp : tree) : Prop :=
  forall (df lf : nat) (h : heap) (G : forest) (tgt : option tree) (flag : bool),
    MInv h (G ++ opt_list tgt) -> find_tree (tid tp) G = Some tp ->
    (tsize tp <= df)%nat -> (tsize tp <= lf)%nat -> (height tp <= LIMIT)%nat -> members_keyed tp ->
    exists h' ty,
      merge_patch_fuel nofail df lf (tid <$> tgt) (Some (tid tp)) flag h = Ret (Some (tid ty), h') /\
      MInv h' (G ++ [ty]) /\ (NoLeak h (G ++ opt_list tgt) -> NoLeak h' (G ++ [ty])) /\ KeepO h h' G /\
      MergeDefs.mp_merge_patch flag (reify (h_str h) <$> tgt) (reify (h_str h) tp) = Some (reify (h_str h') ty).

Lemma MInv_sub_own h G X : MInv h (G ++ X) -> forall e, e ∈ datas G -> node_owns e.2.
Proof. intros I e He. apply (mi_own _ _ I). apply datas_elem_app. by left. Qed.
Lemma nodup_ids_l h G X : WF h (G ++ X) -> NoDup (ids G).
Proof. intros W. pose proof (wf_nodup _ _ W) as ND. rewrite ids_app in ND. by apply NoDup_app in ND as (? & _ & _). Qed.

Section Loop.
  Context (flag : bool) (df lf : nat) (G : forest) (pp : positive) (dp : rdata) (cps : list tree).
  Hypothesis IH : Forall merge_spec cps.
  Hypothesis HpG : find_tree pp G = Some (T pp dp cps).
  Hypothesis Hobj : Tree.tymask (rd_type dp) = c_cJSON_Object.
  Hypothesis Hkeyed : members_keyed (T pp dp cps).
  Hypothesis Hheight : (height (T pp dp cps) <= LIMIT)%nat.
  Hypothesis Hdf : forall c, c ∈ cps -> (tsize c <= df)%nat.
  Hypothesis Hlf : forall c, c ∈ cps -> (tsize c <= lf)%nat.
  Notation rec := (fun rm pc => merge_patch_fuel nofail df lf rm pc flag).

  Lemma loop_sim : forall rest pre, cps = pre ++ rest ->
    forall (n : nat) h x d cs, (length rest < n)%nat -> MInv h (G ++ [T x d cs]) ->
    exists h' cs',
      merge_loop nofail rec (Some x) flag n ((tid <$> cps) !! length pre) h = Ret (Some x, h') /\
      MInv h' (G ++ [T x d cs']) /\ (NoLeak h (G ++ [T x d cs]) -> NoLeak h' (G ++ [T x d cs'])) /\ KeepO h h' G /\
      MergeApply.mp_patch_loop (MergeDefs.mp_merge_patch flag) flag (map (reify (h_str h)) rest) (reify (h_str h) (T x d cs)) =
        Some (reify (h_str h') (T x d cs')).
  Proof.
    induction rest as [|c rest' IHr]; intros pre Ecps n h x d cs Hn I.
    - (* end of the chain *)
      destruct n as [|n']; [cbn in Hn; lia|].
      assert (Hnone : (tid <$> cps) !! length pre = None).
      { apply lookup_ge_None_2. rewrite fmap_length, Ecps, app_nil_r. lia. }
      rewrite Hnone. exists h, cs. cbn [merge_loop is_null map MergeApply.mp_patch_loop].
      split; [done|]. split; [exact I|]. split; [done|]. split; [apply KeepO_refl|done].
    - (* the member [c] *)
      destruct n as [|n']; [cbn in Hn; lia|]. cbn [length] in Hn.
      destruct c as [ci dc ccs].
      assert (Hc : T ci dc ccs ∈ cps) by (rewrite Ecps; apply elem_of_app; right; by left).
      assert (Hk : (tid <$> cps) !! length pre = Some ci).
      { rewrite Ecps, fmap_app. rewrite lookup_app_r by (by rewrite fmap_length).
        by rewrite fmap_length, Nat.sub_diag. }
      rewrite Hk.
      pose proof (mi_wf _ _ I) as W. pose proof (nodup_ids_l _ _ _ W) as NDG.
      pose proof (find_tree_child G pp dp cps _ NDG HpG Hc) as HcG. cbn [tid] in HcG.
      pose proof HcG as HcG0. apply find_tree_Some in HcG0 as [HcN _].
      pose proof (MInv_sub_own _ _ _ I) as OwnG.
      assert (HdcG : (ci, dc) ∈ datas G) by (exact (datas_of_node G _ HcN)).
      (* the key of the member *)
      destruct (rd_key dc) as [kb|] eqn:Ekey; [|exfalso; by apply (Hkeyed pp dp cps ltac:(apply nodes_t_self) Hobj _ Hc)].
      assert (Hkbo : kb ∈ owned G) by (apply (str_owned G (ci, dc) kb HdcG (OwnG _ HdcG)); by right).
      assert (HdcF : (ci, dc) ∈ datas (G ++ [T x d cs])) by (apply datas_elem_app; by left).
      destruct (proj2 (mi_read _ _ I _ HdcF) kb Ekey) as (Hkl & sn & Hks & Hkz).
      assert (Hckey : Tree.n_key (reify (h_str h) (T ci dc ccs)) = Some (cstr sn)).
      { rewrite reify_unfold. cbn [Tree.n_key]. rewrite Ekey. cbn [cstr_of]. by rewrite Hks. }
      (* the code up to the test *)
      cbn [merge_loop is_null].
      pose proof (find_tree_app_l ci G [T x d cs] _ HcG) as HcF.
      assert (Hnull : cJSON_IsNull (Some ci) h = Ret (Tree.is_null (reify (h_str h) (T ci dc ccs)), h)).
      { unfold cJSON_IsNull. cbn [is_null]. exact (run_type_is h _ ci dc ccs c_cJSON_NULL W HcF). }
      rewrite (bindM_Ret _ _ _ _ _ Hnull).
      cbn [map MergeApply.mp_patch_loop].
      (* after the member: the step to the next one, common to both branches *)
      assert (Hnext : forall h3 cs3, MInv h3 (G ++ [T x d cs3]) -> KeepO h h3 G ->
                (NoLeak h (G ++ [T x d cs]) -> NoLeak h3 (G ++ [T x d cs3])) ->
                forall tgtv, tgtv = reify (h_str h3) (T x d cs3) ->
                exists h' cs',
                  (nx <~ get_next (Some ci) ;; merge_loop nofail rec (Some x) flag n' nx) h3 = Ret (Some x, h') /\
                  MInv h' (G ++ [T x d cs']) /\ (NoLeak h (G ++ [T x d cs]) -> NoLeak h' (G ++ [T x d cs'])) /\ KeepO h h' G /\
                  MergeApply.mp_patch_loop (MergeDefs.mp_merge_patch flag) flag (map (reify (h_str h)) rest') tgtv =
                    Some (reify (h_str h') (T x d cs'))).
      { intros h3 cs3 I3 K3 NL3 tgtv ->. pose proof (mi_wf _ _ I3) as W3.
        pose proof (find_tree_app_l pp G [T x d cs3] _ HpG) as HpF3.
        pose proof (find_tree_app_l ci G [T x d cs3] _ HcG) as HcF3.
        destruct (WF_live_dat _ _ _ _ _ W3 HcF3) as [Hl3 _].
        pose proof (WF_lookup_lnk_child h3 _ pp dp (tid <$> cps) (length pre) ci W3 (find_tree_flat _ _ _ _ HpF3) Hk) as Hlnk.
        rewrite (bindM_Ret _ _ _ _ _ (run_get_next_plain _ _ _ Hl3 Hlnk)). cbn [link_at fst].
        destruct (IHr (pre ++ [T ci dc ccs]) ltac:(by rewrite <- app_assoc) n' h3 x d cs3 ltac:(lia) I3)
          as (h' & cs' & Hrun & I' & NL' & K' & V').
        rewrite app_length in Hrun. cbn [length] in Hrun. rewrite Nat.add_1_r in Hrun.
        exists h', cs'. split; [exact Hrun|]. split; [exact I'|]. split; [by intros NL; apply NL', NL3|].
        split; [by eapply KeepO_trans|].
        rewrite <- V'. f_equal. apply map_ext_in. intros a Ha. apply elem_of_list_In in Ha. symmetry.
        apply (reify_keep h h3 G a OwnG); [|done].
        assert (Ha' : a ∈ cps) by (rewrite Ecps; apply elem_of_app; right; by right).
        pose proof (find_tree_child G pp dp cps a NDG HpG Ha') as HaG. by apply find_tree_Some in HaG as [? _]. }
      destruct (Tree.is_null (reify (h_str h) (T ci dc ccs))) eqn:Enull.
      + (* null member: delete the member of that name *)
        rewrite delete_by_key_is. rewrite !bindM_assoc.
        rewrite (bindM_Ret _ _ _ _ _ (run_get_key_node h _ ci dc ccs W HcF)). rewrite Ekey.
        destruct (iter_delete h G x d cs kb sn flag I Hkl Hks Hkz) as (h2 & cs2 & Hrun2 & I2 & NL2 & K2 & V2).
        rewrite (bindM_Ret _ _ _ _ _ Hrun2).
        rewrite Hckey, V2. rewrite bindM_ret. cbn [negb].
        exact (Hnext h2 cs2 I2 K2 NL2 _ eq_refl).
      + (* any other member: detach, recur, add *)
        rewrite detach_by_key_is. rewrite !bindM_assoc.
        rewrite (bindM_Ret _ _ _ _ _ (run_get_key_node h _ ci dc ccs W HcF)). rewrite Ekey.
        destruct (iter_detach h G x d cs kb sn flag I Hkl Hks Hkz) as (h1 & cs1 & rm & Hrun1 & I1 & NL1 & Hs1 & V1).
        rewrite (bindM_Ret _ _ _ _ _ Hrun1).
        rewrite Hckey, V1.
        (* the recursive call *)
        rewrite Forall_forall in IH. pose proof (IH _ Hc) as Pc.
        destruct (Pc df lf h1 (G ++ [T x d cs1]) rm flag I1
                    (find_tree_app_l ci G [T x d cs1] _ HcG) (Hdf _ Hc) (Hlf _ Hc)
                    ltac:(pose proof (height_list_elem _ _ Hc); rewrite height_unfold in Hheight; lia)
                    (members_keyed_child _ _ _ _ Hkeyed Hc))
          as (h2 & ty & Hrun2 & I2 & NL2 & K2 & V2).
        cbn [tid] in Hrun2. rewrite !bindM_assoc. rewrite (bindM_Ret _ _ _ _ _ Hrun2). cbn [is_null].
        rewrite Hs1 in V2. rewrite V2.
        (* the key again, then cJSON_AddItemToObject *)
        pose proof (mi_wf _ _ I2) as W2.
        assert (HcF2 : find_tree ci ((G ++ [T x d cs1]) ++ [ty]) = Some (T ci dc ccs)).
        { apply find_tree_app_l. by apply find_tree_app_l. }
        rewrite !bindM_assoc. rewrite (bindM_Ret _ _ _ _ _ (run_get_key_node h2 _ ci dc ccs W2 HcF2)). rewrite Ekey.
        assert (KG2 : KeepO h h2 G).
        { intros b Hb. rewrite (K2 b); [by rewrite Hs1|]. rewrite owned_app. apply elem_of_app. by left. }
        assert (Hks2 : h_str h2 !! kb = Some sn) by (by rewrite (KG2 kb Hkbo)).
        assert (HdcF2 : (ci, dc) ∈ datas ((G ++ [T x d cs1]) ++ [ty])).
        { apply datas_elem_app. left. apply datas_elem_app. by left. }
        destruct (proj2 (mi_read _ _ I2 _ HdcF2) kb Ekey) as (Hkl2 & _).
        destruct ty as [y dy csy]. cbn [tid].
        destruct (step_add h2 G x y d dy cs1 csy kb sn I2 Hkl2 Hks2 Hkz) as (h3 & Hrun3 & I3 & NL3 & _ & _).
        destruct (step_add_value h2 G x y d dy cs1 csy kb sn I2 Hkl2 Hks2 Hkz h3 Hrun3) as [K3 V3].
        unfold cJSON_AddItemToObject. rewrite !bindM_assoc. rewrite (bindM_Ret _ _ _ _ _ Hrun3).
        rewrite !bindM_ret. cbn [negb].
        apply (Hnext h3 _ I3).
        * eapply KeepO_trans; [exact KG2|]. by eapply KeepO_app_l.
        * intros NL. by apply NL3, NL2, NL1.
        * rewrite V3. f_equal.
          symmetry. rewrite <- Hs1.
          apply (reify_keep h1 h2 (G ++ [T x d cs1]) _ (MInv_sub_own _ _ _ I2)); [|done].
          rewrite nodes_app. apply elem_of_app. right. apply roots_in_nodes. by left.
  Qed.
End Loop.

Theorem merge_rec : forall tp, merge_spec tp.
Proof.
  induction tp as [pp dp cps IH] using tree_ind'.
  intros df lf h G tgt flag I HpG Hdf Hlf Hh Hkeyed. cbn [tid] in *.
  destruct df as [|df']; [pose proof (tsize_pos (T pp dp cps)); lia|].
  rewrite merge_patch_fuel_S.
  pose proof (mi_wf _ _ I) as W.
  pose proof (find_tree_app_l pp G (opt_list tgt) _ HpG) as HpF.
  assert (Hpo : cJSON_IsObject (Some pp) h = Ret (Tree.is_object (reify (h_str h) (T pp dp cps)), h)).
  { unfold cJSON_IsObject. cbn [is_null]. exact (run_type_is h _ pp dp cps c_cJSON_Object W HpF). }
  rewrite (bindM_Ret _ _ _ _ _ Hpo). rewrite MergeApply.mp_merge_patch_unfold.
  destruct (Tree.is_object (reify (h_str h) (T pp dp cps))) eqn:Eobj; cbn [negb].
  2:{ (* scalar value or array: delete the target, duplicate the patch *)
    assert (Hdel : exists h1, cJSON_Delete (tid <$> tgt) h = Ret (tt, h1) /\ MInv h1 G /\
                              (NoLeak h (G ++ opt_list tgt) -> NoLeak h1 G) /\ KeepO h h1 G).
    { destruct tgt as [tx|]; cbn [opt_list fmap option_fmap option_map] in *.
      - destruct (step_delete_last h G tx I) as (h1 & H1 & H2 & H3 & H4 & _). by exists h1.
      - rewrite app_nil_r in *. exists h. split; [apply step_delete_null|]. split; [done|]. split; [done|apply KeepO_refl]. }
    destruct Hdel as (h1 & Hrun1 & I1 & NL1 & K1).
    rewrite (bindM_Ret _ _ _ _ _ Hrun1).
    destruct (step_dup h1 G pp (T pp dp cps) I1 HpG Hh) as (tc & h2 & Hrun2 & I2 & NL2 & K2 & V2).
    exists h2, tc. split; [exact Hrun2|]. split; [exact I2|]. split; [by intros NL; apply NL2, NL1|].
    split; [by eapply KeepO_trans|].
    rewrite <- V2. f_equal. symmetry. apply (reify_keep h h1 G _ (MInv_sub_own _ _ _ I)); [|done].
    by apply find_tree_Some in HpG as [? _]. }
  (* object patch: make sure the target is an object *)
  assert (Htgt : exists h1 x d cs,
            (to <~ cJSON_IsObject (tid <$> tgt) ;;
             if negb to then cJSON_Delete (tid <$> tgt) ;;; cJSON_CreateObject nofail else ret (tid <$> tgt)) h =
              Ret (Some x, h1) /\
            MInv h1 (G ++ [T x d cs]) /\ (NoLeak h (G ++ opt_list tgt) -> NoLeak h1 (G ++ [T x d cs])) /\ KeepO h h1 G /\
            MergeApply.mp_target0 (reify (h_str h) <$> tgt) = reify (h_str h1) (T x d cs)).
  { destruct tgt as [[x d cs]|]; cbn [opt_list fmap option_fmap option_map tid MergeApply.mp_target0] in *.
    - assert (Hto : cJSON_IsObject (Some x) h = Ret (Tree.is_object (reify (h_str h) (T x d cs)), h)).
      { unfold cJSON_IsObject. cbn [is_null]. apply (run_type_is h _ x d cs c_cJSON_Object W). exact (find_tree_last h G (T x d cs) W). }
      rewrite (bindM_Ret _ _ _ _ _ Hto).
      destruct (Tree.is_object (reify (h_str h) (T x d cs))); cbn [negb].
      + exists h, x, d, cs. split; [done|]. split; [done|]. split; [done|]. split; [apply KeepO_refl|done].
      + destruct (step_delete_last h G (T x d cs) I) as (h1 & H1 & I1 & NL1 & K1 & _). cbn [tid] in H1.
        rewrite (bindM_Ret _ _ _ _ _ H1).
        destruct (step_create h1 G I1) as (h2 & H2 & I2 & NL2 & Hs2 & V2).
        exists h2, (h_next h1), (rd_typed c_cJSON_Object), []. split; [exact H2|]. split; [exact I2|].
        split; [by intros NL; apply NL2, NL1|]. split; [|by rewrite V2].
        intros b Hb. rewrite Hs2. by apply K1.
    - rewrite app_nil_r in *. cbn [cJSON_IsObject is_null]. rewrite bindM_ret. cbn [negb].
      rewrite (bindM_Ret _ _ _ _ _ (step_delete_null h)).
      destruct (step_create h G I) as (h2 & H2 & I2 & NL2 & Hs2 & V2).
      exists h2, (h_next h), (rd_typed c_cJSON_Object), []. split; [exact H2|]. split; [exact I2|].
      split; [exact NL2|]. split; [|by rewrite V2]. intros b Hb. by rewrite Hs2. }
  destruct Htgt as (h1 & x & d & cs & Hrun1 & I1 & NL1 & K1 & V1).
  rewrite <- bindM_assoc. rewrite (bindM_Ret _ _ _ _ _ Hrun1).
  (* patch->child *)
  pose proof (mi_wf _ _ I1) as W1.
  pose proof (find_tree_app_l pp G [T x d cs] _ HpG) as HpF1.
  destruct (WF_live_dat _ _ _ _ _ W1 HpF1) as [Hlp Hdp].
  rewrite (bindM_Ret _ _ _ _ _ (run_get_child_plain _ _ _ Hlp Hdp)).
  change (nd_child (mk_dat dp (tid <$> cps))) with (child_of dp (tid <$> cps)).
  assert (Hrefp : is_ref dp = false).
  { apply find_tree_Some in HpG as [HpN _]. exact (proj1 (MInv_sub_own _ _ _ I _ (datas_of_node G _ HpN))). }
  rewrite (ref_ok_child_of _ _ _ _ (wf_ref _ _ W1) (find_tree_flat _ _ _ _ HpF1) Hrefp).
  (* the member loop *)
  assert (Hobj : Tree.tymask (rd_type dp) = c_cJSON_Object).
  { unfold Tree.is_object, Tree.is_type in Eobj. rewrite reify_unfold in Eobj. cbn [Tree.n_ty] in Eobj. by apply Z.eqb_eq in Eobj. }
  rewrite tsize_unfold in Hdf, Hlf.
  destruct (loop_sim flag df' lf G pp dp cps IH HpG Hobj Hkeyed Hh
              ltac:(intros c Hc; pose proof (nodes_length_elem c cps Hc); lia)
              ltac:(intros c Hc; pose proof (nodes_length_elem c cps Hc); lia)
              cps [] eq_refl lf h1 x d cs ltac:(pose proof (nodes_length_ge cps); lia) I1)
    as (h2 & cs2 & Hrun2 & I2 & NL2 & K2 & V2).
  cbn [length] in Hrun2.
  exists h2, (T x d cs2). cbn [tid]. split; [exact Hrun2|]. split; [exact I2|].
  split; [by intros NL; apply NL2, NL1|]. split; [by eapply KeepO_trans|].
  rewrite V1, <- V2. rewrite reify_children. cbn [tchildren]. f_equal.
  apply map_ext_in. intros a Ha. apply elem_of_list_In in Ha. symmetry.
  apply (reify_keep h h1 G a (MInv_sub_own _ _ _ I)); [|done].
  pose proof (find_tree_child G pp dp cps a (nodup_ids_l _ _ _ W) HpG Ha) as HaG. by apply find_tree_Some in HaG as [? _].
Qed.

(** * roots are unordered *)
Lemma WF_perm h F F' : WF h F -> F ≡ₚ F' -> WF h F'.
Proof.
  intros W HP. pose proof (wf_nodup _ _ W) as ND. constructor.
  - by rewrite <- HP.
  - rewrite (wf_lnk _ _ W). unfold heap_lnk_of. apply lnk_of_perm; [by rewrite lnk_keys_ids|by rewrite HP|by rewrite HP].
  - rewrite (wf_dat _ _ W). unfold heap_dat_of. apply dat_of_perm; [by rewrite <- ids_flat|by rewrite HP].
  - unfold owned. rewrite <- HP. apply W.
  - intros b Hb. apply (wf_owned_live _ _ W). unfold owned in *. by rewrite HP.
  - intros b Hb. apply (wf_owned_lib _ _ W). unfold owned in *. by rewrite HP.
  - intros b Hb. apply (wf_fresh _ _ W). unfold owned in *. by rewrite HP.
  - rewrite <- HP. apply W.
Qed.
Lemma MInv_perm h F F' : MInv h F -> F ≡ₚ F' -> MInv h F'.
Proof.
  intros [W K O R] HP. constructor; [by eapply WF_perm|done| |].
  - intros e He. apply O. by rewrite HP.
  - intros e He. apply R. by rewrite HP.
Qed.
Lemma NoLeak_perm h F F' : NoLeak h F -> F ≡ₚ F' -> NoLeak h F'.
Proof. intros NL HP b Hb. unfold owned. rewrite <- HP. by apply NL. Qed.

Lemma root_last_perm F x tx : NoDup (ids F) -> find_root x F = Some tx -> F ≡ₚ remove_root x F ++ [tx].
Proof.
  intros ND Hx. destruct (find_root_split _ _ _ (NoDup_roots _ ND) Hx) as (F1 & F2 & HF & HF0).
  rewrite HF0, HF. rewrite <- Permutation_cons_append. by rewrite Permutation_middle.
Qed.

(** * fuel: a subtree has fewer nodes than identities were handed out *)
Lemma nodes_t_sublist t : forall n, n ∈ nodes_t t -> nodes_t n `sublist_of` nodes_t t.
Proof.
  induction t as [i d cs IH] using tree_ind'. intros n Hn. rewrite nodes_t_unfold in Hn.
  apply elem_of_cons in Hn as [->|Hn]; [done|].
  rewrite (nodes_t_unfold i d cs). apply sublist_cons.
  apply elem_of_nodes in Hn as (c & Hc & Hn). rewrite Forall_forall in IH.
  etrans; [exact (IH c Hc n Hn)|].
  apply elem_of_list_split in Hc as (l1 & l2 & ->). rewrite nodes_app, nodes_cons.
  apply sublist_inserts_l. by apply sublist_inserts_r.
Qed.
Lemma tsize_fuel h F t : WF h F -> t ∈ nodes F -> (tsize t <= Pos.to_nat (h_next h))%nat.
Proof.
  intros W Ht.
  assert (Hlen : (tsize t <= length (nodes F))%nat).
  { apply elem_of_nodes in Ht as (r & Hr & Ht). unfold tsize.
    etrans; [exact (sublist_length _ _ (nodes_t_sublist r t Ht))|].
    apply elem_of_list_split in Hr as (l1 & l2 & ->). rewrite nodes_app, nodes_cons, !app_length. lia. }
  pose proof (NoDup_length_lt_pos (ids F) (h_next h) (wf_nodup _ _ W) (fun x Hx => WF_ids_fresh _ _ _ W Hx)) as Hlt.
  unfold ids in Hlt. rewrite fmap_length in Hlt. lia.
Qed.

(** * the ledger under [WF] and [NoLeak] *)
Lemma ledger_eq h F : WF h F -> NoLeak h F -> forall b, b ∈ lib_live h <-> b ∈ owned F.
Proof.
  intros W NL b. split; [apply NL|]. intros Hb. apply elem_of_filter.
  split; [by apply (wf_owned_lib _ _ W)|by apply (wf_owned_live _ _ W)].
Qed.

(** * the public entry points *)
Definition rest_of (F : forest) (tgt : option tree) : forest :=
  match tgt with Some tx => remove_root (tid tx) F | None => F end.

Theorem merge_patch_refines (flag : bool) h F (tgt : option tree) pp tp :
  MInv h F ->
  (forall tx, tgt = Some tx -> find_root (tid tx) F = Some tx) ->
  let G := rest_of F tgt in
  find_tree pp G = Some tp ->
  (height tp <= LIMIT)%nat -> members_keyed tp ->
  exists h' ty,
    merge_patch nofail (tid <$> tgt) (Some pp) flag h = Ret (Some (tid ty), h') /\
    MInv h' (G ++ [ty]) /\
    find_tree pp (G ++ [ty]) = Some tp /\ reify (h_str h') tp = reify (h_str h) tp /\
    find_root (tid ty) (G ++ [ty]) = Some ty /\
    MergeDefs.mp_MergePatch_gen flag (reify (h_str h) <$> tgt) (Some (reify (h_str h) tp)) = Some (reify (h_str h') ty) /\
    (NoLeak h F -> NoLeak h' (G ++ [ty])) /\ KeepO h h' G.
Proof.
  intros I Htgt G HpG Hh Hkeyed.
  assert (HP : F ≡ₚ G ++ opt_list tgt).
  { unfold G, rest_of. destruct tgt as [tx|]; cbn [opt_list]; [|by rewrite app_nil_r].
    apply root_last_perm; [apply (mi_wf _ _ I)|by apply Htgt]. }
  pose proof (MInv_perm _ _ _ I HP) as I0. pose proof (mi_wf _ _ I0) as W0.
  pose proof HpG as HpG0. apply find_tree_Some in HpG0 as [HpN <-].
  assert (HpN0 : tp ∈ nodes (G ++ opt_list tgt)) by (rewrite nodes_app; apply elem_of_app; by left).
  pose proof (tsize_fuel h _ tp W0 HpN0) as Hfuel.
  destruct (merge_rec tp (Pos.to_nat (h_next h)) (Pos.to_nat (h_next h)) h G tgt flag I0 HpG Hfuel Hfuel Hh Hkeyed)
    as (h' & ty & Hrun & I' & NL' & K' & V').
  exists h', ty. split; [exact Hrun|]. split; [exact I'|].
  split; [by apply find_tree_app_l|]. split; [exact (reify_keep h h' G tp (MInv_sub_own _ _ _ I0) HpN K')|].
  split; [exact (find_root_last G ty (proj1 (last_root_fresh _ _ _ (mi_wf _ _ I'))))|].
  split; [exact V'|]. split; [|exact K'].
  intros NL. apply NL'. by eapply NoLeak_perm.
Qed.

(** cJSONUtils_MergePatch(target, NULL): the target is deleted, the result is NULL *)
Theorem merge_patch_null_patch (flag : bool) h G tx :
  MInv h (G ++ [tx]) ->
  exists h', merge_patch nofail (Some (tid tx)) None flag h = Ret (None, h') /\ MInv h' G /\
             (NoLeak h (G ++ [tx]) -> NoLeak h' G) /\ KeepO h h' G.
Proof.
  intros I. unfold merge_patch, heap_fuel. unfold bindM at 1.
  destruct (Pos.to_nat (h_next h)) as [|f] eqn:Ef; [pose proof (Pos2Nat.is_pos (h_next h)); lia|].
  rewrite merge_patch_fuel_S. cbn [cJSON_IsObject is_null]. rewrite bindM_ret. cbn [negb].
  destruct (step_delete_last h G tx I) as (h1 & H1 & I1 & NL1 & K1 & Hn1).
  rewrite (bindM_Ret _ _ _ _ _ H1). exists h1. split; [|done].
  unfold cJSON_Duplicate, heap_fuel. unfold bindM at 1. cbn [cJSON_Duplicate_rec is_null negb when].
  reflexivity.
Qed.

(** * the invariant in terms of the published predicates *)
Theorem MInv_intro h F :
  WF h F -> HeapOK h -> Forall owns_strings F ->
  (forall t b, t ∈ F -> b ∈ str_blocks t -> str_ok h b) ->
  MInv h F.
Proof.
  intros W K Ho Hr. constructor; [done|done|by apply datas_own_of_owns_strings|].
  intros e He. apply datas_elem in He as (n & Hn & ->). apply elem_of_nodes in Hn as (t & Ht & Hn). cbn [snd].
  assert (Hf : flat_of n ∈ flat_t t) by (apply elem_of_list_fmap; by exists n).
  split; intros b Hb; apply (Hr t b Ht); apply (flat_str_blocks t (flat_of n) b Hf); [by left|by right].
Qed.
Theorem MInv_elim h F :
  MInv h F ->
  WF h F /\ HeapOK h /\ Closed h /\ KeysReadable h F /\ Forall owns_strings F /\
  (forall t b, t ∈ F -> b ∈ str_blocks t -> str_ok h b).
Proof.
  intros I. split_and!; [apply I|apply I|by eapply MInv_Closed|by apply MInv_KeysReadable| |].
  - apply Forall_forall. intros t Ht. apply (owns_strings_of_datas F t (mi_own _ _ I)). by apply roots_in_nodes.
  - intros t b Ht Hb. apply str_blocks_flat in Hb as (e & He & Hor).
    pose proof (flat_t_sub F t e (roots_in_nodes _ _ Ht) He) as HeF.
    assert (Hd : fdata e ∈ datas F) by (unfold datas; apply elem_of_list_fmap; by exists e).
    destruct (mi_read _ _ I _ Hd) as [R1 R2]. destruct Hor as [Hv|Hk]; [by apply R1|by apply R2].
Qed.

(** * the ledger, exactly: before the call the live library blocks are those of the untouched roots and of the
      target; afterwards those of the untouched roots and of the result *)
Theorem merge_patch_ledger (flag : bool) h F (tgt : option tree) pp tp :
  MInv h F -> NoLeak h F ->
  (forall tx, tgt = Some tx -> find_root (tid tx) F = Some tx) ->
  let G := rest_of F tgt in
  find_tree pp G = Some tp ->
  (height tp <= LIMIT)%nat -> members_keyed tp ->
  exists h' ty,
    merge_patch nofail (tid <$> tgt) (Some pp) flag h = Ret (Some (tid ty), h') /\
    WF h' (G ++ [ty]) /\ NoLeak h' (G ++ [ty]) /\
    (forall b, b ∈ lib_live h <-> b ∈ owned G \/ b ∈ owned (opt_list tgt)) /\
    (forall b, b ∈ lib_live h' <-> b ∈ owned G \/ b ∈ owned [ty]) /\
    (forall b, b ∈ owned G -> h_str h' !! b = h_str h !! b).
Proof.
  intros I NL Htgt G HpG Hh Hk.
  destruct (merge_patch_refines flag h F tgt pp tp I Htgt HpG Hh Hk) as (h' & ty & Hrun & I' & _ & _ & _ & _ & NL' & K').
  exists h', ty. split; [exact Hrun|]. split; [apply I'|]. split; [by apply NL'|]. split; [|split; [|exact K']].
  - assert (HP : F ≡ₚ G ++ opt_list tgt).
    { unfold G, rest_of. destruct tgt as [tx|]; cbn [opt_list]; [|by rewrite app_nil_r].
      apply root_last_perm; [apply (mi_wf _ _ I)|by apply Htgt]. }
    intros b. rewrite (ledger_eq h F (mi_wf _ _ I) NL b). unfold owned at 1. rewrite HP. fold (owned (G ++ opt_list tgt)).
    by rewrite owned_app, elem_of_app.
  - intros b. rewrite (ledger_eq h' _ (mi_wf _ _ I') (NL' NL) b). by rewrite owned_app, elem_of_app.
Qed.

(** the named entry points *)
Lemma merge_entry_points oracle target patch :
  MergeHeapDefs.cJSONUtils_MergePatch oracle target patch = merge_patch oracle target patch false /\
  MergeHeapDefs.cJSONUtils_MergePatchCaseSensitive oracle target patch = merge_patch oracle target patch true.
Proof. split; reflexivity. Qed.

(** * for EVERY allocation-failure schedule: the utility is conservative (C07's generic half) *)
Section MergeCons.
  Variable oracle : nat -> bool.
  Lemma Cons_cJSON_IsObject p : Cons (cJSON_IsObject p).
  Proof. unfold cJSON_IsObject. cons. Qed.
  Lemma Cons_cJSON_IsNull p : Cons (cJSON_IsNull p).
  Proof. unfold cJSON_IsNull. cons. Qed.
  Lemma Cons_detach_key o k (flag : bool) :
    Cons (if flag then cJSON_DetachItemFromObjectCaseSensitive o k else cJSON_DetachItemFromObject o k).
  Proof.
    destruct flag; unfold cJSON_DetachItemFromObjectCaseSensitive, cJSON_DetachItemFromObject,
      cJSON_GetObjectItemCaseSensitive, cJSON_GetObjectItem; cons.
  Qed.
  Lemma Cons_delete_key o k (flag : bool) :
    Cons (if flag then cJSON_DeleteItemFromObjectCaseSensitive o k else cJSON_DeleteItemFromObject o k).
  Proof.
    destruct flag; unfold cJSON_DeleteItemFromObjectCaseSensitive, cJSON_DeleteItemFromObject,
      cJSON_DetachItemFromObjectCaseSensitive, cJSON_DetachItemFromObject,
      cJSON_GetObjectItemCaseSensitive, cJSON_GetObjectItem; cons.
  Qed.

  Lemma Cons_merge_loop rec target flag :
    (forall a b, Cons (rec a b)) -> forall n pc, Cons (merge_loop oracle rec target flag n pc).
  Proof.
    intros Hrec. induction n as [|n IH]; intros pc; cbn [merge_loop]; [cons|].
    destruct (is_null pc); [cons|].
    apply Cons_bind; [apply Cons_cJSON_IsNull|intros pn].
    apply Cons_bind.
    - destruct pn.
      + apply Cons_bind; [|intros ?; cons].
        destruct flag; (apply Cons_bind; [cons|intros k]).
        * exact (Cons_delete_key target k true).
        * exact (Cons_delete_key target k false).
      + apply Cons_bind.
        * destruct flag; (apply Cons_bind; [cons|intros k]).
          -- exact (Cons_detach_key target k true).
          -- exact (Cons_detach_key target k false).
        * intros rm. apply Cons_bind; [apply Hrec|intros r]. destruct (is_null r); [cons|].
          apply Cons_bind; [cons|intros k2]. apply Cons_bind; [|intros ?; cons].
          unfold cJSON_AddItemToObject. cons.
    - intros go_on. destruct (negb go_on); [cons|]. apply Cons_bind; [cons|intros nx]. apply IH.
  Qed.

  Theorem Cons_merge_patch_fuel df : forall lf target patch flag, Cons (merge_patch_fuel oracle df lf target patch flag).
  Proof.
    induction df as [|df IH]; intros lf target patch flag; [cbn [merge_patch_fuel]; cons|].
    rewrite merge_patch_fuel_S_gen.
    apply Cons_bind; [apply Cons_cJSON_IsObject|intros po]. destruct (negb po).
    - apply Cons_bind; [cons|intros ?]. apply CoreLedgerDup.Cons_cJSON_Duplicate.
    - apply Cons_bind; [apply Cons_cJSON_IsObject|intros to].
      apply Cons_bind.
      + destruct (negb to); [|cons]. apply Cons_bind; [cons|intros ?]. unfold cJSON_CreateObject. cons.
      + intros target'. apply Cons_bind; [cons|intros pc]. apply Cons_merge_loop. intros a b. apply IH.
  Qed.
  Theorem Cons_merge_patch target patch flag : Cons (merge_patch oracle target patch flag).
  Proof. unfold merge_patch. apply Cons_bind; [cons|intros fuel]. apply Cons_merge_patch_fuel. Qed.
End MergeCons.
