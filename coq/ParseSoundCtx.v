(** ParseSoundCtx.v — C03: ONE theorem for all contexts.  A [focus] is a point the parser gets to
    inside a text (a value is expected, a string body continues, a separator, a colon or a key
    is expected); the inductive contexts [vctx]/[ectx]/[mctx] describe how the parser gets there
    (through opening brackets, through elements and members it accepts, through the well-formed
    beginning of a string).  If the focus is dead (whatever is there is refused), the whole
    value, hence the whole text, is refused.  The class lemmas of ParseSoundReject.v provide the
    dead foci.  Needs that a result does not depend on extra fuel. *)
From CJ Require Import Base Dbl Tree ParseDefs ParseSpec Grammar ParseSoundGrammar ParseSound ParseSoundReject.
Local Open Scope Z_scope.

(** * results do not depend on extra fuel *)

Section VlMono.
  Variables vl1 vl2 : bytes -> option (node * bytes).
  Hypothesis Hvl : forall l x, vl1 l = Some x -> vl2 l = Some x.

  Lemma elems_l_mono : forall k l0 acc y, elems_l vl1 k l0 acc = Some y -> elems_l vl2 k l0 acc = Some y.
  Proof.
    induction k as [|k IH]; intros l0 acc y H; [discriminate|]. cbn [elems_l] in *.
    destruct (vl1 (drop_ws l0)) as [[v r2]|] eqn:E; [|discriminate]. rewrite (Hvl _ _ E).
    destruct (drop_ws r2) as [|c2 r3]; [discriminate|].
    destruct (c2 =? 44); [apply IH; exact H|exact H].
  Qed.

  Lemma array_l_mono r y : array_l vl1 r = Some y -> array_l vl2 r = Some y.
  Proof.
    unfold array_l. destruct (drop_ws r) as [|c1 r1]; [discriminate|].
    destruct (c1 =? 93); [auto|].
    destruct (elems_l vl1 (S (length r)) (c1 :: r1) []) as [[items rest]|] eqn:E; [|discriminate].
    rewrite (elems_l_mono _ _ _ _ E). auto.
  Qed.

  Lemma members_l_mono : forall k l0 acc y, members_l vl1 k l0 acc = Some y -> members_l vl2 k l0 acc = Some y.
  Proof.
    induction k as [|k IH]; intros l0 acc y H; [discriminate|]. cbn [members_l] in *.
    destruct (drop_ws l0) as [|q rq]; [discriminate|].
    destruct (negb (q =? 34)); [discriminate|].
    destruct (string_l rq) as [[key r2]|]; [|discriminate].
    destruct (drop_ws r2) as [|col r3]; [discriminate|].
    destruct (negb (col =? 58)); [discriminate|].
    destruct (vl1 (drop_ws r3)) as [[v0 r4]|] eqn:E; [|discriminate]. rewrite (Hvl _ _ E).
    cbv zeta in *.
    destruct (drop_ws r4) as [|c2 r5]; [discriminate|].
    destruct (c2 =? 44); [apply IH; exact H|exact H].
  Qed.

  Lemma object_l_mono r y : object_l vl1 r = Some y -> object_l vl2 r = Some y.
  Proof.
    unfold object_l. destruct (drop_ws r) as [|c1 r1]; [discriminate|].
    destruct (c1 =? 125); [auto|].
    destruct (members_l vl1 (S (length r)) (c1 :: r1) []) as [[items rest]|] eqn:E; [|discriminate].
    rewrite (members_l_mono _ _ _ _ E). auto.
  Qed.
End VlMono.

Section Ctx.
  Variable strtod : bytes -> option (dbl * nat).

  (* one step of [value_l], the recursive calls abstracted *)
  Definition vstep (rec : Z -> bytes -> option (node * bytes)) (depth : Z) (l : bytes) : option (node * bytes) :=
    match starts [110; 117; 108; 108] l with
    | Some r => Some (Node c_cJSON_NULL None 0 dzero None [], r)
    | None =>
    match starts [102; 97; 108; 115; 101] l with
    | Some r => Some (Node c_cJSON_False None 0 dzero None [], r)
    | None =>
    match starts [116; 114; 117; 101] l with
    | Some r => Some (Node c_cJSON_True None 1 dzero None [], r)
    | None =>
    match l with
    | [] => None
    | c :: r =>
        if c =? 34 then
          match string_l r with Some (s, rest) => Some (Node c_cJSON_String (Some s) 0 dzero None [], rest) | None => None end
        else if (c =? 45) || ((48 <=? c) && (c <=? 57)) then number_l strtod l
        else if c =? 91 then
          if c_CJSON_NESTING_LIMIT <=? depth then None else array_l (rec (depth + 1)) r
        else if c =? 123 then
          if c_CJSON_NESTING_LIMIT <=? depth then None else object_l (rec (depth + 1)) r
        else None
    end end end end.

  Lemma value_l_step f d l : value_l strtod (S f) d l = vstep (value_l strtod f) d l.
  Proof. reflexivity. Qed.

  Lemma vstep_mono rec1 rec2 : (forall d l x, rec1 d l = Some x -> rec2 d l = Some x) ->
    forall d l x, vstep rec1 d l = Some x -> vstep rec2 d l = Some x.
  Proof.
    intros Hrec d l x. unfold vstep.
    destruct (starts [110; 117; 108; 108] l); [auto|].
    destruct (starts [102; 97; 108; 115; 101] l); [auto|].
    destruct (starts [116; 114; 117; 101] l); [auto|].
    destruct l as [|c r]; [auto|].
    destruct (c =? 34); [auto|].
    destruct ((c =? 45) || ((48 <=? c) && (c <=? 57))); [auto|].
    destruct (c =? 91).
    { destruct (c_CJSON_NESTING_LIMIT <=? d); [auto|]. apply array_l_mono. apply Hrec. }
    destruct (c =? 123); [|auto].
    destruct (c_CJSON_NESTING_LIMIT <=? d); [auto|]. apply object_l_mono. apply Hrec.
  Qed.

  Lemma value_l_fuel_S : forall f d l x, value_l strtod f d l = Some x -> value_l strtod (S f) d l = Some x.
  Proof.
    induction f as [|f IH]; intros d l x H; [discriminate|].
    rewrite value_l_step in H. rewrite value_l_step. revert H. apply vstep_mono. exact IH.
  Qed.

  Lemma value_l_fuel_le f f' d l x : (f <= f')%nat -> value_l strtod f d l = Some x -> value_l strtod f' d l = Some x.
  Proof. induction 1 as [|f' Hle IH]; [auto|]. intro H. apply value_l_fuel_S. apply IH. exact H. Qed.

  (** a value accepted with some fuel is never parsed differently with other fuel *)
  Lemma value_l_fuel_det f1 f2 d l x y :
    value_l strtod f1 d l = Some x -> value_l strtod f2 d l = Some y -> x = y.
  Proof.
    intros H1 H2.
    apply (value_l_fuel_le f1 (Nat.max f1 f2)) in H1; [|lia].
    apply (value_l_fuel_le f2 (Nat.max f1 f2)) in H2; [|lia]. congruence.
  Qed.

  (** * foci and contexts *)

  Inductive focus : Type :=
  | FV (d : Z) (l : bytes)     (* a value is expected at nesting depth d, l is what is there *)
  | FS (l : bytes)             (* l continues a string body *)
  | FSA (l : bytes)            (* after an array element: whitespace, then , or ] expected *)
  | FSO (l : bytes)            (* after an object member: whitespace, then , or } expected *)
  | FC (l : bytes)             (* after a key: whitespace, then : expected *)
  | FK (l : bytes).            (* whitespace, then the opening quote of a key expected *)

  Definition dead (x : focus) : Prop :=
    match x with
    | FV d l => forall f, value_l strtod f d l = None
    | FS l => string_dead l
    | FSA l => forall r, drop_ws l <> 44 :: r /\ drop_ws l <> 93 :: r
    | FSO l => forall r, drop_ws l <> 44 :: r /\ drop_ws l <> 125 :: r
    | FC l => forall r, drop_ws l <> 58 :: r
    | FK l => forall r, drop_ws l <> 34 :: r
    end.

  (** [vctx d l x]: reading a value at depth d from l, the parser gets to x;
      [ectx d l0 x]: so does the element loop of an array whose elements are at depth d, from l0;
      [mctx d l0 x]: so does the member loop of an object, from l0. *)
  Inductive vctx : Z -> bytes -> focus -> Prop :=
  | vc_here d l : vctx d l (FV d l)
  | vc_str d body s l : chars len_raw body s -> vctx d (34 :: body ++ l) (FS l)
  | vc_arr d r x : (forall r1, drop_ws r <> 93 :: r1) -> ectx (d + 1) r x -> vctx d (91 :: r) x
  | vc_obj d r x : (forall r1, drop_ws r <> 125 :: r1) -> mctx (d + 1) r x -> vctx d (123 :: r) x
  with ectx : Z -> bytes -> focus -> Prop :=
  | ec_elem d l0 x : vctx d (drop_ws l0) x -> ectx d l0 x
  | ec_sep d l0 f0 v r2 : value_l strtod f0 d (drop_ws l0) = Some (v, r2) -> ectx d l0 (FSA r2)
  | ec_next d l0 f0 v r2 r3 x :
      value_l strtod f0 d (drop_ws l0) = Some (v, r2) -> drop_ws r2 = 44 :: r3 -> ectx d r3 x -> ectx d l0 x
  with mctx : Z -> bytes -> focus -> Prop :=
  | mc_keypos d l0 : mctx d l0 (FK l0)
  | mc_key d l0 body s l : drop_ws l0 = 34 :: body ++ l -> chars len_raw body s -> mctx d l0 (FS l)
  | mc_colon d l0 rq key r2 : drop_ws l0 = 34 :: rq -> string_l rq = Some (key, r2) -> mctx d l0 (FC r2)
  | mc_val d l0 rq key r2 r3 x :
      drop_ws l0 = 34 :: rq -> string_l rq = Some (key, r2) -> drop_ws r2 = 58 :: r3 ->
      vctx d (drop_ws r3) x -> mctx d l0 x
  | mc_sep d l0 rq key r2 r3 f0 v0 r4 :
      drop_ws l0 = 34 :: rq -> string_l rq = Some (key, r2) -> drop_ws r2 = 58 :: r3 ->
      value_l strtod f0 d (drop_ws r3) = Some (v0, r4) -> mctx d l0 (FSO r4)
  | mc_next d l0 rq key r2 r3 f0 v0 r4 r5 x :
      drop_ws l0 = 34 :: rq -> string_l rq = Some (key, r2) -> drop_ws r2 = 58 :: r3 ->
      value_l strtod f0 d (drop_ws r3) = Some (v0, r4) -> drop_ws r4 = 44 :: r5 ->
      mctx d r5 x -> mctx d l0 x.

  Scheme vctx_mind := Induction for vctx Sort Prop
    with ectx_mind := Induction for ectx Sort Prop
    with mctx_mind := Induction for mctx Sort Prop.
  Combined Scheme ctx_mutind from vctx_mind, ectx_mind, mctx_mind.

  Lemma drop_ws_idem l : drop_ws (drop_ws l) = drop_ws l.
  Proof.
    induction l as [|c r IH]; [reflexivity|]. cbn [drop_ws].
    destruct (c <=? 32) eqn:E; [exact IH|]. cbn [drop_ws]. rewrite E. reflexivity.
  Qed.

  Theorem ctx_dead :
    (forall d l x, vctx d l x -> dead x -> forall f, value_l strtod f d l = None) /\
    (forall d l0 x, ectx d l0 x -> dead x ->
       forall f k acc l0', drop_ws l0' = drop_ws l0 -> elems_l (value_l strtod f d) k l0' acc = None) /\
    (forall d l0 x, mctx d l0 x -> dead x ->
       forall f k acc l0', drop_ws l0' = drop_ws l0 -> members_l (value_l strtod f d) k l0' acc = None).
  Proof.
    apply (ctx_mutind
             (fun d l x _ => dead x -> forall f, value_l strtod f d l = None)
             (fun d l0 x _ => dead x -> forall f k acc l0', drop_ws l0' = drop_ws l0 ->
                                elems_l (value_l strtod f d) k l0' acc = None)
             (fun d l0 x _ => dead x -> forall f k acc l0', drop_ws l0' = drop_ws l0 ->
                                members_l (value_l strtod f d) k l0' acc = None)).
    - (* vc_here *) intros d l Hd f. apply Hd.
    - (* vc_str *) intros d body s l Hc Hd f. eapply reject_string_defect; eassumption.
    - (* vc_arr *) intros d r x Hne _ IH Hd f. destruct f as [|f]; [reflexivity|]. rewrite value_l_array.
      destruct (c_CJSON_NESTING_LIMIT <=? d); [reflexivity|]. unfold array_l.
      destruct (drop_ws r) as [|c1 r1] eqn:E; [reflexivity|].
      destruct (Z.eqb_spec c1 93) as [->|N]; [exfalso; exact (Hne r1 eq_refl)|].
      rewrite (IH Hd f (S (length r)) [] (c1 :: r1)); [reflexivity|].
      rewrite <- E. apply drop_ws_idem.
    - (* vc_obj *) intros d r x Hne _ IH Hd f. destruct f as [|f]; [reflexivity|]. rewrite value_l_object.
      destruct (c_CJSON_NESTING_LIMIT <=? d); [reflexivity|]. unfold object_l.
      destruct (drop_ws r) as [|c1 r1] eqn:E; [reflexivity|].
      destruct (Z.eqb_spec c1 125) as [->|N]; [exfalso; exact (Hne r1 eq_refl)|].
      rewrite (IH Hd f (S (length r)) [] (c1 :: r1)); [reflexivity|].
      rewrite <- E. apply drop_ws_idem.
    - (* ec_elem *) intros d l0 x _ IH Hd f k acc l0' Heq.
      destruct k as [|k]; [reflexivity|]. cbn [elems_l]. rewrite Heq, (IH Hd f). reflexivity.
    - (* ec_sep *) intros d l0 f0 v r2 Hv Hd f k acc l0' Heq.
      destruct k as [|k]; [reflexivity|]. cbn [elems_l]. rewrite Heq.
      destruct (value_l strtod f d (drop_ws l0)) as [[v' r2']|] eqn:E; [|reflexivity].
      pose proof (value_l_fuel_det _ _ _ _ _ _ Hv E) as Hx. inversion Hx; subst v' r2'.
      destruct (drop_ws r2) as [|c2 r3] eqn:E2; [reflexivity|].
      destruct (Z.eqb_spec c2 44) as [->|N1]; [exfalso; exact (proj1 (Hd r3) E2)|].
      destruct (Z.eqb_spec c2 93) as [->|N2]; [exfalso; exact (proj2 (Hd r3) E2)|reflexivity].
    - (* ec_next *) intros d l0 f0 v r2 r3 x Hv H2 _ IH Hd f k acc l0' Heq.
      destruct k as [|k]; [reflexivity|]. cbn [elems_l]. rewrite Heq.
      destruct (value_l strtod f d (drop_ws l0)) as [[v' r2']|] eqn:E; [|reflexivity].
      pose proof (value_l_fuel_det _ _ _ _ _ _ Hv E) as Hx. inversion Hx; subst v' r2'.
      rewrite H2. cbn [Z.eqb Pos.eqb]. apply (IH Hd). reflexivity.
    - (* mc_keypos *) intros d l0 Hd f k acc l0' Heq.
      destruct k as [|k]; [reflexivity|]. cbn [members_l]. rewrite Heq.
      destruct (drop_ws l0) as [|q rq] eqn:E; [reflexivity|].
      destruct (Z.eqb_spec q 34) as [->|N]; [exfalso; exact (Hd rq E)|reflexivity].
    - (* mc_key *) intros d l0 body s l H0 Hc Hd f k acc l0' Heq.
      eapply members_bad_key; [rewrite Heq; exact H0|]. eapply string_dead_prefix; eassumption.
    - (* mc_colon *) intros d l0 rq key r2 H0 Hs Hd f k acc l0' Heq.
      eapply members_missing_colon; [rewrite Heq; exact H0|exact Hs|exact Hd].
    - (* mc_val *) intros d l0 rq key r2 r3 x H0 Hs Hc _ IH Hd f k acc l0' Heq.
      eapply members_no_value; [rewrite Heq; exact H0|exact Hs|exact Hc|]. apply (IH Hd).
    - (* mc_sep *) intros d l0 rq key r2 r3 f0 v0 r4 H0 Hs Hc Hv Hd f k acc l0' Heq.
      destruct (value_l strtod f d (drop_ws r3)) as [[v' r4']|] eqn:E.
      + pose proof (value_l_fuel_det _ _ _ _ _ _ Hv E) as Hx. inversion Hx; subst v' r4'.
        eapply members_bad_separator; [rewrite Heq; exact H0|exact Hs|exact Hc|exact E| |];
          intro r5; apply (Hd r5).
      + eapply members_no_value; [rewrite Heq; exact H0|exact Hs|exact Hc|exact E].
    - (* mc_next *) intros d l0 rq key r2 r3 f0 v0 r4 r5 x H0 Hs Hc Hv H4 _ IH Hd f k acc l0' Heq.
      destruct (value_l strtod f d (drop_ws r3)) as [[v' r4']|] eqn:E.
      + pose proof (value_l_fuel_det _ _ _ _ _ _ Hv E) as Hx. inversion Hx; subst v' r4'.
        destruct k as [|k]; [reflexivity|].
        eapply members_later; [rewrite Heq; exact H0|exact Hs|exact Hc|exact E|exact H4|].
        apply (IH Hd). reflexivity.
      + eapply members_no_value; [rewrite Heq; exact H0|exact Hs|exact Hc|exact E].
  Qed.

  (** the whole text: whatever the parser gets to, if it is dead the text is refused *)
  Theorem reject_in_context l rnt x :
    vctx 0 (drop_ws (match starts [239; 187; 191] l with Some r => r | None => l end)) x -> dead x ->
    text_l strtod l rnt = None.
  Proof.
    intros Hc Hd. apply text_l_reject. intro f. exact (proj1 ctx_dead _ _ _ Hc Hd f).
  Qed.
End Ctx.

(** * the dead foci: the classes of malformed text, usable in any context *)
Section DeadFoci.
  Variable strtod : bytes -> option (dbl * nat).
  Notation dead := (dead strtod).

  (* the input ends where something is expected: truncated input, unbalanced brackets *)
  Lemma dead_value_end d : dead (FV d []).
  Proof. intro f. apply reject_empty. Qed.
  Lemma dead_elem_sep_end l : drop_ws l = [] -> dead (FSA l).
  Proof. intros H r. rewrite H. split; discriminate. Qed.
  Lemma dead_member_sep_end l : drop_ws l = [] -> dead (FSO l).
  Proof. intros H r. rewrite H. split; discriminate. Qed.
  Lemma dead_colon_end l : drop_ws l = [] -> dead (FC l).
  Proof. intros H r. rewrite H. discriminate. Qed.
  Lemma dead_key_end l : drop_ws l = [] -> dead (FK l).
  Proof. intros H r. rewrite H. discriminate. Qed.
  Lemma dead_string_end : dead (FS []).
  Proof. exact dead_end_of_input. Qed.

  (* a byte that starts no value where a value is expected: extra comma or colon, closing bracket
     after a comma, unquoted text, upper-case literals, + . ' *)
  Lemma dead_value_bad_byte d c r : value_start_byte c = false -> dead (FV d (c :: r)).
  Proof. intros H f. apply reject_bad_first_byte. exact H. Qed.
  (* misspelt or truncated literals *)
  Lemma dead_value_misspelt_null d r : starts [117; 108; 108] r = None -> dead (FV d (110 :: r)).
  Proof. intros H f. apply reject_misspelt_null. exact H. Qed.
  Lemma dead_value_misspelt_false d r : starts [97; 108; 115; 101] r = None -> dead (FV d (102 :: r)).
  Proof. intros H f. apply reject_misspelt_false. exact H. Qed.
  Lemma dead_value_misspelt_true d r : starts [114; 117; 101] r = None -> dead (FV d (116 :: r)).
  Proof. intros H f. apply reject_misspelt_true. exact H. Qed.
  (* a number token strtod does not convert *)
  Lemma dead_value_unconverted_number d c r :
    ((c =? 45) || ((48 <=? c) && (c <=? 57))) = true ->
    strtod (number_run (Z.to_nat (c_NUMBER_C_STRING_SIZE - 1)) (c :: r)) = None -> dead (FV d (c :: r)).
  Proof. intros Hc Hs f. apply reject_unconverted_number; assumption. Qed.
  (* a container opened deeper than the limit *)
  Lemma dead_value_too_deep_array d r : c_CJSON_NESTING_LIMIT <= d -> dead (FV d (91 :: r)).
  Proof. intros H f. apply reject_too_deep_array. exact H. Qed.
  Lemma dead_value_too_deep_object d r : c_CJSON_NESTING_LIMIT <= d -> dead (FV d (123 :: r)).
  Proof. intros H f. apply reject_too_deep_object. exact H. Qed.

  (* a wrong byte where a separator, the colon or a key is expected: missing comma, mismatched
     bracket, missing colon, non-string key *)
  Lemma dead_elem_sep_byte l c r : drop_ws l = c :: r -> c <> 44 -> c <> 93 -> dead (FSA l).
  Proof. intros H H1 H2 r'. rewrite H. split; congruence. Qed.
  Lemma dead_member_sep_byte l c r : drop_ws l = c :: r -> c <> 44 -> c <> 125 -> dead (FSO l).
  Proof. intros H H1 H2 r'. rewrite H. split; congruence. Qed.
  Lemma dead_colon_byte l c r : drop_ws l = c :: r -> c <> 58 -> dead (FC l).
  Proof. intros H H1 r'. rewrite H. congruence. Qed.
  Lemma dead_key_byte l c r : drop_ws l = c :: r -> c <> 34 -> dead (FK l).
  Proof. intros H H1 r'. rewrite H. congruence. Qed.
End DeadFoci.
