(** Properties_C04_Reals.v — property C04: the three statements whose proofs use Flocq and
    therefore depend on the standard axioms of Coq's Reals library (ClassicalDedekindReals,
    functional extensionality, excluded middle — all named in DESIGN.md section 8).  Same format
    as Properties_C04.v; kept apart from it so that every theorem of Properties_C04.v is closed
    under the global context. *)
From CJ Require Import Base Dbl Tree LibcNum PrintDefs RoundTripNum RoundTripRefValid RoundTripZero.
Local Open Scope Z_scope.

(** clause V holds for the reference strtod: whatever it returns is a well-formed double.
    (Flocq 4.1's theorems about SpecFloat's rounding and division.) *)
Theorem C04_ref_valid : forall t d k, strtod_ref t = Some (d, k) -> dbl_ok d.
Proof. exact ref_valid. Qed.
Print Assumptions C04_ref_valid.

(** compare_double never equates a zero with a nonzero well-formed double (the tolerance
    |d| * DBL_EPSILON, rounded, stays below |d| down to the smallest subnormal).  Hence clause N4z
    holds for every C library, and [LibcRoundTripSpec] follows from its seven clauses that speak
    about the C library alone.  (Flocq's error bound for rounding to nearest.  The theorems of
    Properties_C04.v keep N4z as a hypothesis so that they stay closed.) *)
Theorem C04_compare_double_zero : forall t d,
  is_finite d = true -> dbl_ok d -> is_zero t = true -> compare_double t d = true -> is_zero d = true.
Proof. exact compare_double_zero_l. Qed.
Print Assumptions C04_compare_double_zero.

Theorem C04_contract_from_libc_clauses : forall strtod fmt_d fmt_g15 fmt_g17 sscanf_lg,
  (forall t d, sscanf_lg t = Some d <-> exists k, strtod t = Some (d, k)) ->
  (forall t d k, strtod t = Some (d, k) -> dbl_ok d) ->
  (forall z, int_range z = true -> exists k, strtod (fmt_d z) = Some (dbl_of_int z, k)) ->
  (forall d, is_finite d = true -> dbl_ok d -> exists k, strtod (fmt_g17 d) = Some (d, k)) ->
  (forall d t k, is_finite d = true -> dbl_ok d ->
      strtod (fmt_g15 d) = Some (t, k) -> is_finite t = true -> fmt_g15 t = fmt_g15 d) ->
  (forall z, int_range z = true -> fmt_g15 (dbl_of_int z) = fmt_d z) ->
  (forall z, Z.abs z < 10 ^ 15 -> exists k, strtod (fmt_g15 (dbl_of_int z)) = Some (dbl_of_int z, k)) ->
  LibcRoundTripSpec strtod fmt_d fmt_g15 fmt_g17 sscanf_lg.
Proof. exact roundtrip_spec_intro. Qed.
Print Assumptions C04_contract_from_libc_clauses.


(** * Clause N3 ("17 significant digits identify a double") PROVED for the reference library

    LibcG17*.v: for EVERY finite well-formed double d (normal, subnormal, both zeros, DBL_MAX),
    the reference strtod applied to the reference sprintf "%1.17g" of d consumes the whole text
    and returns exactly d.  Parts: the arithmetic of fmt_g (LibcG17Arith: the 17-digit decimal is
    within v * 2^-54 of the value v; the estimate of the decimal exponent is checked by
    computation for the 2098 possible binary exponents), the text (LibcG17Text: %f and %e layouts
    with stripped zeros are read back to the same decimal), the rounding of strtod_ref
    (LibcG17Round: Flocq's theorems for binary_normalize and for the division of unnormalised
    operands) and the mathematical core (LibcG17Math: 2^53 < 10^16, the half-size gap below a
    power of two, the constant gap of the subnormals, no overflow at the top). *)
From Coq Require Import Reals.
From Flocq Require Import Core.Core.
From CJ Require Import LibcPrint LibcG17R LibcG17Math LibcG17 LibcG17Contract.

Theorem C04_g17_roundtrip_ref : forall d, is_finite d = true -> dbl_ok d ->
  exists k, strtod_ref (fmt_g17 d) = Some (d, k).
Proof. exact g17_roundtrip_ref. Qed.
Print Assumptions C04_g17_roundtrip_ref.

(** the same with the number of bytes consumed: all of the text *)
Theorem C04_g17_roundtrip_ref_len : forall d, is_finite d = true -> dbl_ok d ->
  strtod_ref (fmt_g17 d) = Some (d, length (fmt_g17 d)).
Proof. exact g17_roundtrip_ref_len. Qed.
Print Assumptions C04_g17_roundtrip_ref_len.

(** sscanf "%lg" (the test print_number makes on its "%1.15g" / "%1.17g" output) *)
Theorem C04_g17_sscanf_ref : forall d, is_finite d = true -> dbl_ok d -> sscanf_lg (fmt_g17 d) = Some d.
Proof. exact g17_sscanf_ref. Qed.
Print Assumptions C04_g17_sscanf_ref.

(** the signed zeros: "-0" reads back as -0.0 *)
Theorem C04_g17_roundtrip_ref_zeros :
  strtod_ref (fmt_g17 (S754_zero true)) = Some (S754_zero true, 2%nat) /\
  strtod_ref (fmt_g17 (S754_zero false)) = Some (S754_zero false, 1%nat).
Proof. exact g17_roundtrip_ref_zeros. Qed.
Print Assumptions C04_g17_roundtrip_ref_zeros.

(** non-vacuity: the hypotheses hold for DBL_MAX ("1.7976931348623157e+308", a decimal ABOVE
    DBL_MAX), for the negative smallest subnormal ("-4.9406564584124654e-324") and for 0.1
    ("0.10000000000000001") *)
Theorem C04_g17_roundtrip_ref_nonvacuous :
  (is_finite DBL_MAX = true /\ dbl_ok DBL_MAX /\
   fmt_g17 DBL_MAX = [49;46;55;57;55;54;57;51;49;51;52;56;54;50;51;49;53;55;101;43;51;48;56]) /\
  (is_finite g17_ex_min = true /\ dbl_ok g17_ex_min /\
   fmt_g17 g17_ex_min = [45;52;46;57;52;48;54;53;54;52;53;56;52;49;50;52;54;53;52;101;45;51;50;52]) /\
  (is_finite g17_ex_tenth = true /\ dbl_ok g17_ex_tenth /\
   fmt_g17 g17_ex_tenth = [48;46;49;48;48;48;48;48;48;48;48;48;48;48;48;48;48;48;49]).
Proof. exact g17_roundtrip_ref_nonvacuous. Qed.
Print Assumptions C04_g17_roundtrip_ref_nonvacuous.

(** the mathematical core over Flocq's reals: v > 0 a binary64 value (format FLT, precision 53,
    minimal exponent -1074; normal or subnormal), 10^X <= v, and w within half a unit of the 17th
    significant decimal digit of v — then w rounds to v (to nearest, whatever the tie rule) *)
Theorem C04_g17_math_core : forall choice v w X,
  generic_format radix2 (SpecFloat.fexp 53 1024) v -> (bpow r10 X <= v)%R ->
  (Rabs (w - v) <= bpow r10 (X - 16) / 2)%R ->
  round radix2 (SpecFloat.fexp 53 1024) (Znearest choice) w = v.
Proof. exact round_decimal17. Qed.
Print Assumptions C04_g17_math_core.

(** the contract for the reference library: clauses S, V, N2, N3, N4z are now theorems, so
    [LibcRoundTripSpec] of the reference instance follows from its three "%1.15g" clauses alone *)
Theorem C04_ref_contract_from_g15_clauses :
  (forall d t k, is_finite d = true -> dbl_ok d ->
      strtod_ref (LibcPrint.fmt_g15 d) = Some (t, k) -> is_finite t = true ->
      LibcPrint.fmt_g15 t = LibcPrint.fmt_g15 d) ->
  (forall z, int_range z = true -> LibcPrint.fmt_g15 (dbl_of_int z) = LibcPrint.fmt_d z) ->
  (forall z, Z.abs z < 10 ^ 15 ->
      exists k, strtod_ref (LibcPrint.fmt_g15 (dbl_of_int z)) = Some (dbl_of_int z, k)) ->
  LibcRoundTripSpec strtod_ref LibcPrint.fmt_d LibcPrint.fmt_g15 LibcPrint.fmt_g17 LibcPrint.sscanf_lg.
Proof. exact ref_contract_from_g15_clauses. Qed.
Print Assumptions C04_ref_contract_from_g15_clauses.
