(** ParseSoundInclRef.v — C03, non-vacuity of the contract [strtod_rfc] of ParseSoundIncl.v: the
    reference strtod satisfies it (proved in ParseComplete.v for C02; the two definitions of the
    contract are the same statement). *)
From CJ Require Import Base Dbl Tree LibcNum Grammar ParseComplete ParseSoundIncl.

Theorem strtod_ref_rfc_contract : ParseSoundIncl.strtod_rfc strtod_ref.
Proof. exact ParseComplete.strtod_ref_rfc. Qed.
