(** Properties_C12_Heap.v — property C12 AT HEAP LEVEL (companion of Properties_C12.v): [cJSON_Compare] of cJSON.c
    transliterated statement by statement ON THE HEAP MODEL (CompareHeapDefs.v: type words, valuedouble,
    valuestring, the child / next chains, get_object_item in both directions, the [a == b] shortcut, NULL and
    invalid types, recursion on fuel) is read-only and refines the value-level [CompareDefs.cJSON_Compare].
    Only statements closed by [exact]. *)
From CJ Require Import Base Dbl Heap Forest CoreDefs CoreRefineDupTree CoreRefineDupValue CoreRefineDupForest MergeHeapInv.
From CJ Require Import CoreRefineDupUnroll.
From CJ Require Import CompareHeapDefs CompareHeapRO CompareHeapViewDefs CompareHeapProofs CompareHeapForest CompareHeapEx
  CompareHeapRefs CompareHeapRefsEx.
From CJ Require Tree CompareDefs CoreOpsBridgeRefDefs.
From stdpp Require Import gmap.

(** NEVER MODIFIES ITS ARGUMENTS: for every heap (well-formed or not), every pair of pointers and every
    returning outcome, the heap afterwards is the heap before — nothing written, allocated, released, counted
    or traced.  No hypothesis. *)
Theorem C12_heap_read_only : forall a b cs h (r : bool) h',
  cJSON_Compare a b cs h = Ret (r, h') -> h' = h.
Proof. exact compare_never_modifies. Qed.
Print Assumptions C12_heap_read_only.

(** every outcome is a boolean in the unchanged heap, or an error outcome (which has no heap) *)
Theorem C12_heap_outcomes : forall a b cs h,
  (exists r : bool, cJSON_Compare a b cs h = Ret (r, h)) \/ (exists e, cJSON_Compare a b cs h = Err e).
Proof. exact compare_outcomes. Qed.
Print Assumptions C12_heap_outcomes.

(** THE REFINEMENT: on a well-formed heap with readable strings, for ANY two nodes of the forest (the same
    node, nested nodes, nodes of different roots) without borrowed child pointers: no error outcome, the
    recursion bound taken from the heap suffices, the heap is unchanged, and the result is the value-level
    result on the reified operands ([same_pointer] = the two identities are equal) *)
Theorem C12_heap_refines : forall h F, WF h F -> strings_readable h F -> forall cs ta tb,
  ta ∈ nodes F -> tb ∈ nodes F -> no_borrowed ta -> no_borrowed tb ->
  exists r : bool,
    cJSON_Compare (Some (tid ta)) (Some (tid tb)) cs h = Ret (r, h) /\
    CompareDefs.cJSON_Compare (Some (reify (h_str h) ta)) (Some (reify (h_str h) tb)) (bool_decide (tid ta = tid tb)) cs = Some r.
Proof. exact compare_refines. Qed.
Print Assumptions C12_heap_refines.

(** the same under the invariant of the Utils proofs (every node owns its strings): no side condition left *)
Theorem C12_heap_refines_MInv : forall h F cs ta tb,
  MInv h F -> ta ∈ nodes F -> tb ∈ nodes F ->
  exists r : bool,
    cJSON_Compare (Some (tid ta)) (Some (tid tb)) cs h = Ret (r, h) /\
    CompareDefs.cJSON_Compare (Some (reify (h_str h) ta)) (Some (reify (h_str h) tb)) (bool_decide (tid ta = tid tb)) cs = Some r.
Proof. exact compare_refines_MInv. Qed.
Print Assumptions C12_heap_refines_MInv.

(** the refinement for operands the heap merely READS as ([cmp_view]: nothing assumed about a forest; this is
    the form that covers reference nodes, see C12_heap_refines_refs): any recursion fuel and value-level fuel
    above the depth of the views *)
Theorem C12_heap_refines_view : forall h lfuel cs, Pos.to_nat (h_next h) <= lfuel ->
  forall k x y df vf, cmp_view h k x -> cmp_view h k y -> okpair (h_str h) cs x y -> k < df -> k < vf ->
  cmp_agrees h cs vf x y (cJSON_Compare_fuel df lfuel (Some (tid x)) (Some (tid y)) cs h).
Proof. exact compare_fuel_view. Qed.
Print Assumptions C12_heap_refines_view.

(** C12_spec transferred: the heap-level code decides semantic equality *)
Theorem C12_heap_spec : forall h F, WF h F -> strings_readable h F -> forall cs ta tb,
  ta ∈ nodes F -> tb ∈ nodes F -> no_borrowed ta -> no_borrowed tb -> tid ta <> tid tb ->
  CompareDefs.cmp_wf cs (reify (h_str h) ta) -> CompareDefs.cmp_wf cs (reify (h_str h) tb) ->
  exists r : bool, cJSON_Compare (Some (tid ta)) (Some (tid tb)) cs h = Ret (r, h) /\
    (r = true <-> CompareDefs.sem_eq cs (reify (h_str h) ta) (reify (h_str h) tb)).
Proof. exact heap_compare_spec. Qed.
Print Assumptions C12_heap_spec.

(** C12_symmetric transferred: both argument orders give the same outcome *)
Theorem C12_heap_symmetric : forall h F, WF h F -> strings_readable h F -> forall cs ta tb,
  ta ∈ nodes F -> tb ∈ nodes F -> no_borrowed ta -> no_borrowed tb ->
  CompareDefs.cmp_wf cs (reify (h_str h) ta) -> CompareDefs.cmp_wf cs (reify (h_str h) tb) ->
  cJSON_Compare (Some (tid ta)) (Some (tid tb)) cs h = cJSON_Compare (Some (tid tb)) (Some (tid ta)) cs h.
Proof. exact heap_compare_symmetric. Qed.
Print Assumptions C12_heap_symmetric.

(** C12_reflexive transferred: the same node, for any valid type; two nodes holding one value, when it is a
    JSON value with distinct member names and without NaN *)
Theorem C12_heap_reflexive : forall h F, WF h F -> strings_readable h F -> forall cs ta,
  ta ∈ nodes F ->
  (CompareDefs.valid_type (Tree.tymask (rd_type (tdata ta))) = true ->
     cJSON_Compare (Some (tid ta)) (Some (tid ta)) cs h = Ret (true, h)) /\
  (forall tb, tb ∈ nodes F -> no_borrowed ta -> no_borrowed tb -> reify (h_str h) tb = reify (h_str h) ta ->
     refl_ok cs (reify (h_str h) ta) ->
     cJSON_Compare (Some (tid ta)) (Some (tid tb)) cs h = Ret (true, h)).
Proof. exact heap_compare_reflexive. Qed.
Print Assumptions C12_heap_reflexive.

(** C12_flags_ignored transferred *)
Theorem C12_heap_flags_ignored : forall h F, WF h F -> strings_readable h F -> forall cs ta tb,
  ta ∈ nodes F -> tb ∈ nodes F -> no_borrowed ta -> no_borrowed tb ->
  exists r : bool,
    cJSON_Compare (Some (tid ta)) (Some (tid tb)) cs h = Ret (r, h) /\
    CompareDefs.cJSON_Compare (Some (CompareDefs.strip_flags (reify (h_str h) ta))) (Some (CompareDefs.strip_flags (reify (h_str h) tb)))
      (bool_decide (tid ta = tid tb)) cs = Some r.
Proof. exact heap_compare_flags_ignored. Qed.
Print Assumptions C12_heap_flags_ignored.

(** C12_null_invalid_false transferred: NULL on every heap; an invalid type on either side *)
Theorem C12_heap_null_false : forall a b cs h,
  cJSON_Compare None b cs h = Ret (false, h) /\ cJSON_Compare a None cs h = Ret (false, h).
Proof. exact heap_compare_null. Qed.
Print Assumptions C12_heap_null_false.

Theorem C12_heap_invalid_false : forall h F, WF h F -> strings_readable h F -> forall cs ta tb,
  ta ∈ nodes F -> tb ∈ nodes F -> no_borrowed ta -> no_borrowed tb ->
  CompareDefs.valid_type (Tree.tymask (rd_type (tdata ta))) = false ->
  cJSON_Compare (Some (tid ta)) (Some (tid tb)) cs h = Ret (false, h) /\
  cJSON_Compare (Some (tid tb)) (Some (tid ta)) cs h = Ret (false, h).
Proof. exact heap_compare_invalid. Qed.
Print Assumptions C12_heap_invalid_false.

(** non-vacuity: a concrete heap with three documents; the hypotheses hold, the code is run *)
Theorem C12_heap_nonvacuous :
  MInv exc_heap exc_F /\ WF exc_heap exc_F /\ strings_readable exc_heap exc_F /\
  exc_a ∈ nodes exc_F /\ exc_b ∈ nodes exc_F /\ exc_c ∈ nodes exc_F /\
  no_borrowed exc_a /\ no_borrowed exc_b /\ no_borrowed exc_c /\
  CompareDefs.cmp_wf true (reify (h_str exc_heap) exc_a) /\ CompareDefs.cmp_wf true (reify (h_str exc_heap) exc_b) /\
  CompareDefs.cmp_wf true (reify (h_str exc_heap) exc_c) /\
  cJSON_Compare (Some 1%positive) (Some 10%positive) true exc_heap = Ret (true, exc_heap) /\
  cJSON_Compare (Some 10%positive) (Some 1%positive) true exc_heap = Ret (true, exc_heap) /\
  cJSON_Compare (Some 1%positive) (Some 20%positive) true exc_heap = Ret (false, exc_heap) /\
  cJSON_Compare (Some 1%positive) (Some 1%positive) true exc_heap = Ret (true, exc_heap) /\
  cJSON_Compare (Some 1%positive) (Some 3%positive) true exc_heap = Ret (false, exc_heap) /\
  cJSON_Compare (Some 3%positive) (Some 12%positive) false exc_heap = Ret (true, exc_heap) /\
  CompareDefs.sem_eq true (reify (h_str exc_heap) exc_a) (reify (h_str exc_heap) exc_b) /\
  ~ CompareDefs.sem_eq true (reify (h_str exc_heap) exc_a) (reify (h_str exc_heap) exc_c).
Proof. exact compare_heap_nonvacuous. Qed.
Print Assumptions C12_heap_nonvacuous.

(** ** reference nodes: the comparison reads through the borrowed child pointer *)

(** what is read below a reference node is the chain the C06 history theorems call [ref_chain] *)
Theorem C12_heap_ref_chain : forall F i d c,
  NoDup (ids F) -> T i d [] ∈ nodes F -> is_ref d = true -> rd_ref d = Some c -> c ∈ ids F ->
  CoreOpsBridgeRefDefs.ref_chain F (Some i) = Some (kids F (T i d [])).
Proof. exact kids_ref_chain. Qed.
Print Assumptions C12_heap_ref_chain.

(** the refinement with reference nodes whose targets are live ([refs_in]): the operands are read as their
    unrollings; [k] levels are complete (no cycle through a reference) and within the recursion bound the
    entry point takes from the heap; the pointer shortcut is harmless ([okpair]) *)
Theorem C12_heap_refines_refs : forall h F, WF h F -> refs_in F -> strings_readable h F -> forall cs k ta tb,
  ta ∈ nodes F -> tb ∈ nodes F ->
  complete (unroll F k ta) -> complete (unroll F k tb) -> k < Pos.to_nat (h_next h) ->
  okpair (h_str h) cs (unroll F k ta) (unroll F k tb) ->
  exists r : bool,
    cJSON_Compare (Some (tid ta)) (Some (tid tb)) cs h = Ret (r, h) /\
    CompareDefs.cJSON_Compare (Some (reify (h_str h) (unroll F k ta))) (Some (reify (h_str h) (unroll F k tb)))
      (bool_decide (tid ta = tid tb)) cs = Some r.
Proof. exact compare_refines_refs. Qed.
Print Assumptions C12_heap_refines_refs.

(** … which holds whenever what both operands read as are JSON values (distinct member names, no NaN):
    references may share chains or point into the other operand; the code then decides semantic equality of
    the unrolled values *)
Theorem C12_heap_refines_refs_json : forall h F, WF h F -> refs_in F -> strings_readable h F -> forall cs k ta tb,
  ta ∈ nodes F -> tb ∈ nodes F ->
  complete (unroll F k ta) -> complete (unroll F k tb) -> k < Pos.to_nat (h_next h) ->
  refl_ok cs (reify (h_str h) (unroll F k ta)) -> refl_ok cs (reify (h_str h) (unroll F k tb)) ->
  exists r : bool,
    cJSON_Compare (Some (tid ta)) (Some (tid tb)) cs h = Ret (r, h) /\
    CompareDefs.cJSON_Compare (Some (reify (h_str h) (unroll F k ta))) (Some (reify (h_str h) (unroll F k tb)))
      (bool_decide (tid ta = tid tb)) cs = Some r /\
    (tid ta <> tid tb ->
       (r = true <-> CompareDefs.sem_eq cs (reify (h_str h) (unroll F k ta)) (reify (h_str h) (unroll F k tb)))).
Proof. exact compare_refines_refs_json. Qed.
Print Assumptions C12_heap_refines_refs_json.

(** non-vacuity with references: two array references into one chain, a reference against the array it points
    into and against a shorter chain *)
Theorem C12_heap_refs_nonvacuous :
  WF exr_heap exr_F /\ refs_in exr_F /\ strings_readable exr_heap exr_F /\
  exr_r1 ∈ nodes exr_F /\ exr_r2 ∈ nodes exr_F /\ exr_r3 ∈ nodes exr_F /\ exr_arr ∈ nodes exr_F /\
  ~ no_borrowed exr_r1 /\
  complete (unroll exr_F 1 exr_r1) /\ complete (unroll exr_F 1 exr_r2) /\ complete (unroll exr_F 1 exr_r3) /\
  (1 < Pos.to_nat (h_next exr_heap))%nat /\
  refl_ok true (reify (h_str exr_heap) (unroll exr_F 1 exr_r1)) /\ refl_ok true (reify (h_str exr_heap) (unroll exr_F 1 exr_r2)) /\
  refl_ok true (reify (h_str exr_heap) (unroll exr_F 1 exr_r3)) /\
  cJSON_Compare (Some 10%positive) (Some 11%positive) true exr_heap = Ret (true, exr_heap) /\
  cJSON_Compare (Some 10%positive) (Some 2%positive) true exr_heap = Ret (true, exr_heap) /\
  cJSON_Compare (Some 10%positive) (Some 12%positive) true exr_heap = Ret (false, exr_heap) /\
  CompareDefs.sem_eq true (reify (h_str exr_heap) (unroll exr_F 1 exr_r1)) (reify (h_str exr_heap) (unroll exr_F 1 exr_r2)) /\
  ~ CompareDefs.sem_eq true (reify (h_str exr_heap) (unroll exr_F 1 exr_r1)) (reify (h_str exr_heap) (unroll exr_F 1 exr_r3)).
Proof. exact compare_heap_refs_nonvacuous. Qed.
Print Assumptions C12_heap_refs_nonvacuous.

(** the hypothesis [okpair] cannot be dropped: two references to a chain that holds NaN — the C function
    answers true (the elements are the same blocks), the value-level comparison of the two equal values
    answers false *)
Theorem C12_heap_nan_shortcut_observed :
  WF exn_heap exn_F /\ refs_in exn_F /\ strings_readable exn_heap exn_F /\
  exn_r1 ∈ nodes exn_F /\ exn_r2 ∈ nodes exn_F /\
  complete (unroll exn_F 1 exn_r1) /\ complete (unroll exn_F 1 exn_r2) /\ (1 < Pos.to_nat (h_next exn_heap))%nat /\
  reify (h_str exn_heap) (unroll exn_F 1 exn_r1) = reify (h_str exn_heap) (unroll exn_F 1 exn_r2) /\
  cJSON_Compare (Some (tid exn_r1)) (Some (tid exn_r2)) true exn_heap = Ret (true, exn_heap) /\
  CompareDefs.cJSON_Compare (Some (reify (h_str exn_heap) (unroll exn_F 1 exn_r1)))
    (Some (reify (h_str exn_heap) (unroll exn_F 1 exn_r2))) false true = Some false.
Proof. exact nan_shortcut_differs. Qed.
Print Assumptions C12_heap_nan_shortcut_observed.

(** the hypothesis "the unrolling is complete" (no cycle through a reference) cannot be dropped either:
    cJSON_Compare has no recursion limit; on two arrays whose reference element points back into the array
    itself the model exhausts any recursion fuel ([NoFuel]); the C function overflows the stack (ASan probe) *)
Theorem C12_heap_cycle_unbounded_observed :
  WF exy_heap exy_F /\ refs_in exy_F /\ strings_readable exy_heap exy_F /\
  exy_arr 1 2 3 ∈ nodes exy_F /\ exy_arr 10 11 12 ∈ nodes exy_F /\
  ~ complete (unroll exy_F 5 (exy_arr 1 2 3)) /\
  out_err (cJSON_Compare (Some 1%positive) (Some 10%positive) true exy_heap) = Some NoFuel.
Proof. exact cycle_unbounded_recursion. Qed.
Print Assumptions C12_heap_cycle_unbounded_observed.
