(** CompareDefs.v — transliteration of cJSON_Compare, get_object_item and
    case_insensitive_strcmp (cJSON.c), and the declarative semantic equality it is meant
    to decide.  No proofs here. *)
From CJ Require Import Base Dbl Tree.
Local Open Scope Z_scope.

(* case_insensitive_strcmp(string1, string2) for two non-NULL, distinct pointers: 0 iff equal *)
Definition case_insensitive_strcmp (a b : bytes) : Z := strcasecmp_c a b.

(* get_object_item(object, name, case_sensitive): the child found, with its index *)
Fixpoint get_object_item_cs (cs : list node) (name : bytes) (i : nat) : option (nat * node) :=
  match cs with
  | [] => None
  | c :: r =>
      match n_key c with
      | None => None                               (* loop stops at a child without key; result NULL *)
      | Some k => if strcmp name k =? 0 then Some (i, c) else get_object_item_cs r name (S i)
      end
  end.
Fixpoint get_object_item_ci (cs : list node) (name : bytes) (i : nat) : option (nat * node) :=
  match cs with
  | [] => None
  | c :: r =>
      match n_key c with
      | None => get_object_item_ci r name (S i)    (* case_insensitive_strcmp(name, NULL) = 1: skipped *)
      | Some k => if case_insensitive_strcmp name k =? 0 then Some (i, c) else get_object_item_ci r name (S i)
      end
  end.
Definition get_object_item (object : node) (name : option bytes) (case_sensitive : bool) : option (nat * node) :=
  match name with
  | None => None
  | Some nm => if case_sensitive then get_object_item_cs (n_children object) nm 0%nat
               else get_object_item_ci (n_children object) nm 0%nat
  end.

Definition valid_type (t : Z) : bool :=
  (t =? c_cJSON_False) || (t =? c_cJSON_True) || (t =? c_cJSON_NULL) || (t =? c_cJSON_Number) ||
  (t =? c_cJSON_String) || (t =? c_cJSON_Raw) || (t =? c_cJSON_Array) || (t =? c_cJSON_Object).

(* cJSON_Compare(a, b, case_sensitive) for two non-NULL, distinct nodes.  The recursion of the
   C code descends one level in both trees per call; [fuel] bounds the depth.  None = out of fuel. *)
Fixpoint compare_rec (fuel : nat) (a b : node) (cs : bool) : option bool :=
  match fuel with
  | O => None
  | S f =>
      let ta := tymask (n_ty a) in
      if negb (ta =? tymask (n_ty b)) then Some false
      else if negb (valid_type ta) then Some false
      else if (ta =? c_cJSON_False) || (ta =? c_cJSON_True) || (ta =? c_cJSON_NULL) then Some true
      else if ta =? c_cJSON_Number then Some (compare_double (n_vdbl a) (n_vdbl b))
      else if (ta =? c_cJSON_String) || (ta =? c_cJSON_Raw) then
        match n_vstr a, n_vstr b with
        | Some x, Some y => Some (strcmp x y =? 0)
        | _, _ => Some false
        end
      else if ta =? c_cJSON_Array then
        (fix arr (la lb : list node) : option bool :=
           match la, lb with
           | [], [] => Some true
           | x :: la', y :: lb' =>
               match compare_rec f x y cs with
               | Some true => arr la' lb'
               | r => r
               end
           | _, _ => Some false          (* one of the arrays is longer than the other *)
           end) (n_children a) (n_children b)
      else (* object *)
        let loop (from : list node) (other : node) : option bool :=
          (fix go (l : list node) : option bool :=
             match l with
             | [] => Some true
             | x :: l' =>
                 match get_object_item other (n_key x) cs with
                 | None => Some false
                 | Some (_, y) =>
                     match compare_rec f x y cs with
                     | Some true => go l'
                     | r => r
                     end
                 end
             end) from in
        match loop (n_children a) b with
        | Some true => loop (n_children b) a
        | r => r
        end
  end.

(* the public function: NULL arguments, identical pointers *)
Definition cJSON_Compare (a b : option node) (same_pointer : bool) (cs : bool) : option bool :=
  match a, b with
  | Some x, Some y =>
      if negb (tymask (n_ty x) =? tymask (n_ty y)) then Some false
      else if negb (valid_type (tymask (n_ty x))) then Some false
      else if same_pointer then Some true
      else compare_rec (node_depth x + node_depth y) x y cs
  | _, _ => Some false
  end.

(** ---- the declarative relation ---- *)
Definition key_eq (cs : bool) (ka kb : option bytes) : Prop :=
  match ka, kb with
  | Some x, Some y => if cs then x = y else map tolower x = map tolower y
  | _, _ => False
  end.

Inductive sem_eq (cs : bool) : node -> node -> Prop :=
| se_lit a b : tymask (n_ty a) = tymask (n_ty b) ->
    (tymask (n_ty a) = c_cJSON_False \/ tymask (n_ty a) = c_cJSON_True \/ tymask (n_ty a) = c_cJSON_NULL) ->
    sem_eq cs a b
| se_num a b : tymask (n_ty a) = c_cJSON_Number -> tymask (n_ty b) = c_cJSON_Number ->
    compare_double (n_vdbl a) (n_vdbl b) = true -> sem_eq cs a b
| se_str a b s : tymask (n_ty a) = tymask (n_ty b) ->
    (tymask (n_ty a) = c_cJSON_String \/ tymask (n_ty a) = c_cJSON_Raw) ->
    n_vstr a = Some s -> n_vstr b = Some s -> sem_eq cs a b
| se_arr a b : tymask (n_ty a) = c_cJSON_Array -> tymask (n_ty b) = c_cJSON_Array ->
    Forall2 (sem_eq cs) (n_children a) (n_children b) -> sem_eq cs a b
| se_obj a b : tymask (n_ty a) = c_cJSON_Object -> tymask (n_ty b) = c_cJSON_Object ->
    Forall (fun x => Exists (fun y => key_eq cs (n_key x) (n_key y) /\ sem_eq cs x y) (n_children b)) (n_children a) ->
    Forall (fun y => Exists (fun x => key_eq cs (n_key x) (n_key y) /\ sem_eq cs x y) (n_children a)) (n_children b) ->
    sem_eq cs a b.

(* keys as the comparison sees them *)
Definition fold_key (cs : bool) (k : bytes) : bytes := if cs then k else map tolower k.

(** well-formed comparands: strings are C strings (no zero byte), every member of an object has
    a key, keys of one object are pairwise distinct under the requested comparison *)
Fixpoint cmp_wf (cs : bool) (n : node) : Prop :=
  match n with Node ty vs _ _ _ ch =>
    (match vs with Some s => Forall (fun c => 0 < c < 256) s | None => True end) /\
    (tymask ty = c_cJSON_Object ->
       Forall (fun c => exists k, n_key c = Some k /\ Forall (fun x => 0 < x < 256) k) ch /\
       NoDup (map (fun c => option_map (fold_key cs) (n_key c)) ch)) /\
    (fix go l := match l with [] => True | c :: r => cmp_wf cs c /\ go r end) ch end.

(* no NaN anywhere *)
Fixpoint no_nan (n : node) : Prop :=
  match n with Node ty _ _ d _ ch =>
    (tymask ty = c_cJSON_Number -> is_nan d = false) /\
    (fix go l := match l with [] => True | c :: r => no_nan c /\ go r end) ch end.

(* a JSON value: valid type, strings present where the type says so *)
Fixpoint json_shape (n : node) : Prop :=
  match n with Node ty vs _ _ _ ch =>
    valid_type (tymask ty) = true /\
    ((tymask ty = c_cJSON_String \/ tymask ty = c_cJSON_Raw) -> vs <> None) /\
    (fix go l := match l with [] => True | c :: r => json_shape c /\ go r end) ch end.

(* ownership flags removed everywhere *)
Fixpoint strip_flags (n : node) : node :=
  match n with Node ty vs vi vd k ch => Node (tymask ty) vs vi vd k (map strip_flags ch) end.
