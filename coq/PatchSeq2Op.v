(** PatchSeq2Op.v — apply_patch on one operation against RFC 6902's [eval1] on the SAME document,
    with the EXACT relation [doc_same] between the results (the per-operation theorems of
    PatchOps/PatchApply/PatchTest/PatchMove only kept the tolerant [doc_eq]): the model's result is
    the RFC's result up to the order of object members, the cleared reference / const-string flags
    of duplicated and added items, and the member name of the root. *)
From Coq Require Import Lia ZArith List Bool Permutation.
From CJ Require Import Base Dbl Tree PointerDefs PointerProofs CompareDefs PatchDefs PatchProofs PatchRobust Rfc6902
  PatchConform PatchOps PatchApply PatchSort PatchTest PatchMove PatchSeq PatchGen PatchEq PatchRound PatchObj PatchExact PatchSeq2Rfc.
Import ListNotations.
Local Open Scope Z_scope.

(** ---------- cJSON_Duplicate yields the same document ---------- *)
Lemma dup_same : forall item depth x, dup_rec item depth = Some x -> doc_same x item /\ n_key x = n_key item.
Proof.
  induction item as [ty vs vi vd k cs IH] using node_ind'. intros depth x E.
  rewrite dup_rec_unfold in E. destruct (dup_list cs depth) as [cs'|] eqn:D; [|discriminate].
  inversion E; subst x. split; [|reflexivity].
  assert (F2 : Forall2 msame cs' cs).
  { clear E. revert cs' D. induction cs as [|c r IHr]; intros cs' D; cbn [dup_list] in D.
    - inversion D. constructor.
    - destruct (depth >=? c_CJSON_CIRCULAR_LIMIT); [discriminate|].
      destruct (dup_rec c (depth + 1)) as [c'|] eqn:Dc; [|discriminate].
      destruct (dup_list r depth) as [r'|] eqn:Dr; [|discriminate].
      inversion D; subst cs'. inversion IH as [|? ? Hc Hr]; subst.
      constructor; [destruct (Hc _ _ Dc) as [S K]; split; assumption | apply IHr; auto]. }
  apply doc_same_head.
  - apply tymask_ldiff. reflexivity.
  - intros _. eapply Forall2_impl'; [|exact F2]. intros a b [_ H]. exact H.
  - intros _. apply osame_of_F2. exact F2.
Qed.

Lemma dup_value_same v : shallow v -> exists d, cJSON_Duplicate v = Some d /\ doc_same d v.
Proof.
  intros Hs. unfold cJSON_Duplicate. destruct (dup_some v 0) as (d & E); [unfold shallow in Hs; lia|].
  exists d. split; [exact E|]. eapply dup_same; eassumption.
Qed.

(** ---------- replacing a subtree by two related documents ---------- *)
Lemma same_set_children a l :
  (tymask (n_ty a) <> c_cJSON_Object -> Forall2 doc_same l (n_children a)) ->
  (tymask (n_ty a) = c_cJSON_Object -> osame l (n_children a)) ->
  doc_same (set_children a l) a.
Proof. intros A O. destruct a as [ty vs vi vd k cs]. cbn [set_children n_ty n_children] in *. apply doc_same_head; [reflexivity | exact A | exact O]. Qed.

Lemma doc_same_put : forall pp d old n1 n2, subtree d pp = Some old ->
  n_key n1 = n_key old -> n_key n2 = n_key old -> doc_same n1 n2 ->
  doc_same (put_subtree d pp n1) (put_subtree d pp n2).
Proof.
  induction pp as [|i p IH]; intros d old n1 n2 S K1 K2 E; cbn [put_subtree]; [exact E|].
  cbn [subtree] in S. destruct (nth_error (n_children d) i) as [c|] eqn:N; [|discriminate].
  specialize (IH c old n1 n2 S K1 K2 E).
  destruct d as [ty vs vi vd k cs]. cbn [n_children set_children] in *.
  apply doc_same_head; [reflexivity | |]; intros _.
  - apply Forall2_replace_nth; [intros; apply doc_same_refl | exact IH].
  - apply osame_of_F2. apply Forall2_replace_nth; [intros; apply msame_refl|].
    split; [|exact IH]. rewrite (key_put _ _ _ _ S K1), (key_put _ _ _ _ S K2). reflexivity.
Qed.

(** ---------- the add step of apply_patch = RFC 6902 "add", exactly ---------- *)
Lemma msame_keyed v v' t : doc_same v v' -> msame (keyed v t) (with_key v' t).
Proof.
  intro S. split; [destruct v, v'; reflexivity|].
  eapply doc_same_trans; [apply doc_same_keyed|]. eapply doc_same_trans; [exact S|]. apply doc_same_sym. apply doc_same_with_key.
Qed.

Lemma finish_add_same doc v v' pstr toks : dwf doc -> nz pstr -> pstr <> [] ->
  rfc_parse_pointer pstr = Some toks -> doc_same v v' ->
  exists st doc', finish_add doc v pstr true = Ok (st, doc') /\
    match Rfc6902.add doc toks v' with
    | Some d' => st = 0 /\ doc_same doc' d'
    | None => st <> 0 /\ doc' = doc
    end.
Proof.
  intros Hd Hnz Hne Hp Ev.
  destruct (pointer_split pstr toks Hne Hp) as (i & ptoks & t & Hls & Hpp & Hu & Ht & Hns). subst toks.
  unfold Rfc6902.add. rewrite split_last_snoc. rewrite at_location_resolve.
  unfold finish_add. destruct pstr as [|c0 p0]; [contradiction|]. set (pstr := c0 :: p0) in *.
  rewrite Hls. rewrite (parent_lookup doc pstr i ptoks Hd Hnz Hpp).
  destruct (rfc_resolve doc ptoks) as [pp|] eqn:R; [|do 2 eexists; split; [reflexivity | split; [discriminate | reflexivity]]].
  destruct (rfc_resolve_subtree _ _ _ R) as (par & Sp). rewrite Sp.
  assert (Hpar : dwf par) by exact (dwf_subtree _ _ _ Hd Sp).
  set (raw := skipn (S i) pstr) in *.
  assert (Hrnz : nz raw) by (apply nz_skipn; exact Hnz).
  assert (Hrefl : Forall2 doc_same (n_children par) (n_children par)).
  { apply Forall2_refl_in. intros x Hx. apply doc_same_refl. }
  assert (Hput : forall l1 l2,
            (is_object par = false -> Forall2 doc_same l1 l2) ->
            (is_object par = true -> osame l1 l2) ->
            doc_same (put_subtree doc pp (set_children par l1)) (put_subtree doc pp (with_children par l2))).
  { intros l1 l2 HA HO. eapply doc_same_put; [exact Sp | destruct par; reflexivity | destruct par; reflexivity |].
    rewrite <- with_children_set. apply same_with_children; [apply doc_same_refl | exact HA | exact HO]. }
  unfold add_member. destruct (is_array par) eqn:Ea.
  - rewrite strcmp_eqb by (try exact Hrnz; repeat constructor; discriminate).
    rewrite (unescape_dash raw t Hu).
    destruct (bytes_eqb t [45]).
    { do 2 eexists. split; [reflexivity|]. split; [reflexivity|].
      apply Hput; [intros _; apply F2_snoc; assumption | intro Ho; exfalso; eapply not_both; eassumption]. }
    destruct (dwf_local par Hpar) as (L & _).
    pose proof (index_bridge raw t (length (n_children par)) Hrnz Hns Hu L) as B.
    destruct (decode_array_index_from_pointer raw) as [idx|].
    + destruct B as [B1 B2]. rewrite B1.
      destruct (Z.gtb_spec idx (Z.of_nat (length (n_children par)))) as [Hgt|Hle].
      * destruct (Z.leb_spec idx (Z.of_nat (length (n_children par)))); [lia|].
        do 2 eexists. split; [reflexivity|]. split; [discriminate | reflexivity].
      * destruct (Z.leb_spec idx (Z.of_nat (length (n_children par)))); [|lia].
        do 2 eexists. split; [reflexivity|]. split; [reflexivity|].
        apply Hput.
        -- intros _. rewrite insert_nth_ins by lia. apply F2_ins_nth; assumption.
        -- intro Ho. exfalso. eapply not_both; eassumption.
    + destruct (rfc_array_index t) as [j|].
      * destruct (Z.leb_spec j (Z.of_nat (length (n_children par)))); [lia|].
        do 2 eexists. split; [reflexivity|]. split; [discriminate | reflexivity].
      * do 2 eexists. split; [reflexivity|]. split; [discriminate | reflexivity].
  - destruct (is_object par) eqn:Eo; [|do 2 eexists; split; [reflexivity | split; [discriminate | reflexivity]]].
    destruct (decode_pointer_inplace_unescape raw t Hrnz Hu) as (b & Hb & Hc & _). rewrite Hb. cbn [bind]. rewrite Hc.
    destruct (is_object_local par Hpar Eo) as [_ Hk].
    assert (Htnz : nz t) by (eapply unescape_nz; eassumption).
    rewrite get_object_item_member; [|exact Hk | exact Htnz].
    pose proof (msame_keyed v v' t Ev) as Hm.
    destruct (find_key (n_children par) t 0%nat) as [[j it]|] eqn:K.
    + do 2 eexists. split; [reflexivity|]. split; [reflexivity|].
      apply Hput; [intro Hf; congruence|]. intros _.
      assert (Hj : (j < length (n_children par))%nat) by (apply nth_error_Some; rewrite (find_key_nth _ _ _ _ K); discriminate).
      rewrite <- (replace_nth_upd j _ _ Hj).
      eapply osame_trans; [apply osame_perm; apply perm_remove_replace; exact Hj|].
      apply osame_of_F2. apply Forall2_replace_nth; [intros; apply msame_refl | exact Hm].
    + do 2 eexists. split; [reflexivity|]. split; [reflexivity|].
      apply Hput; [intro Hf; congruence|]. intros _.
      apply osame_snoc; [apply osame_refl | exact Hm].
Qed.

(** ---------- operation objects: only String-typed members need to carry C strings ---------- *)
Definition op_wf2 (p : node) : Prop :=
  keyed_children (n_children p) /\
  Forall (fun m => is_string m = true -> forall s, n_vstr m = Some s -> nz s) (n_children p).

Lemma op_wf_wf2 p : op_wf p -> op_wf2 p.
Proof. intros [Hk Hs]. split; [exact Hk|]. eapply Forall_impl; [|exact Hs]. intros m H _. exact H. Qed.

Lemma member_lookup2 p name : op_wf2 p -> nz name ->
  get_object_item p (Some name) true = find_key (n_children p) name 0%nat.
Proof. intros [Hk _] Hn. apply get_object_item_member; assumption. Qed.

Lemma member_nz2 p k m s : op_wf2 p -> member p k = Some m -> is_string m = true -> n_vstr m = Some s -> nz s.
Proof.
  intros [_ Hs] Hm Hst E. destruct (member_find _ _ _ Hm) as (j & F). apply find_key_nth in F.
  rewrite Forall_forall in Hs. eapply Hs; [eapply nth_error_In; exact F | exact Hst | exact E].
Qed.

Lemma decode_op2 p o : op_wf2 p -> str_member p k_op = Some o -> decode_patch_operation p true = Ok (opcode_of o).
Proof.
  intros Hw Ho. destruct (str_member_inv _ _ _ Ho) as (m & Hm & Hs & Hv).
  destruct (member_find _ _ _ Hm) as (j & F).
  unfold decode_patch_operation. rewrite member_lookup2 by (try exact Hw; apply nz_consts).
  change s_op with k_op. rewrite F. rewrite Hs. cbn [negb]. rewrite Hv.
  assert (Hnz : nz o) by (eapply member_nz2; eassumption).
  destruct nz_consts as (_ & _ & _ & _ & N1 & N2 & N3 & N4 & N5 & N6).
  rewrite !strcmp_eqb by assumption. unfold opcode_of.
  change s_add with v_add. change s_remove with v_remove. change s_replace with v_replace.
  change s_move with v_move. change s_copy with v_copy. change s_test with v_test.
  destruct (bytes_eqb o v_add); [reflexivity|]. destruct (bytes_eqb o v_remove); [reflexivity|].
  destruct (bytes_eqb o v_replace); [reflexivity|]. destruct (bytes_eqb o v_move); [reflexivity|].
  destruct (bytes_eqb o v_copy); [reflexivity|]. destruct (bytes_eqb o v_test); reflexivity.
Qed.

Lemma path_lookup2 p toks : op_wf2 p -> ptr_member p k_path = Some toks ->
  exists j pathn pstr, get_object_item p (Some s_path) true = Some (j, pathn) /\ is_string pathn = true /\
                       n_vstr pathn = Some pstr /\ nz pstr /\ rfc_parse_pointer pstr = Some toks.
Proof.
  intros Hw Hp. unfold ptr_member in Hp. destruct (str_member p k_path) as [pstr|] eqn:Es; [|discriminate].
  destruct (str_member_inv _ _ _ Es) as (m & Hm & Hs & Hv). destruct (member_find _ _ _ Hm) as (j & F).
  exists j, m, pstr. rewrite member_lookup2 by (try exact Hw; apply nz_consts). change s_path with k_path.
  repeat split; try assumption. eapply member_nz2; eassumption.
Qed.

Lemma from_lookup2 p ftoks : op_wf2 p -> ptr_member p k_from = Some ftoks ->
  exists j fromn fstr, get_object_item p (Some s_from) true = Some (j, fromn) /\ is_string fromn = true /\
                       n_vstr fromn = Some fstr /\ nz fstr /\ rfc_parse_pointer fstr = Some ftoks.
Proof.
  intros Hw Hp. unfold ptr_member in Hp. destruct (str_member p k_from) as [fstr|] eqn:Es; [|discriminate].
  destruct (str_member_inv _ _ _ Es) as (m & Hm & Hs & Hv). destruct (member_find _ _ _ Hm) as (j & F).
  exists j, m, fstr. rewrite member_lookup2 by (try exact Hw; apply nz_consts). change s_from with k_from.
  repeat split; try assumption. eapply member_nz2; eassumption.
Qed.

Lemma value_lookup2 p v : op_wf2 p -> member p k_value = Some v ->
  exists j, get_object_item p (Some s_value) true = Some (j, v).
Proof.
  intros Hw Hm. destruct (member_find _ _ _ Hm) as (j & F). exists j.
  rewrite member_lookup2 by (try exact Hw; apply nz_consts). exact F.
Qed.

(** ---------- the conclusion shared by all operations ---------- *)
Definition conforms_same (doc : node) (o : op) (r : res (Z * node * node)) (p : node) : Prop :=
  exists st doc', r = Ok (st, doc', p) /\
    match eval1 doc o with
    | Some d' => st = 0 /\ doc_same doc' d'
    | None => st <> 0
    end.

Lemma add_tail_same (e : Z) (doc p v0 : node) pstr toks : dwf doc -> nz pstr -> pstr <> [] -> rfc_parse_pointer pstr = Some toks ->
  shallow v0 ->
  exists st doc',
    match cJSON_Duplicate v0 with
    | Some v => x <- finish_add doc v pstr true ;; (let (st, o) := x in Ok (st, o, p))
    | None => Ok (e, doc, p)
    end = Ok (st, doc', p) /\
    match Rfc6902.add doc toks v0 with Some d' => st = 0 /\ doc_same doc' d' | None => st <> 0 end.
Proof.
  intros Hd Hnz Hne Hp Hs. destruct (dup_value_same v0 Hs) as (d & Ed & Eq). rewrite Ed.
  destruct (finish_add_same doc d v0 pstr toks Hd Hnz Hne Hp Eq) as (st & doc' & Ef & Hr).
  rewrite Ef. cbn [bind]. exists st, doc'. split; [reflexivity|].
  destruct (Rfc6902.add doc toks v0); [exact Hr | apply Hr].
Qed.

Theorem apply_patch_add_same doc p toks v0 : dwf doc -> op_wf2 p -> op_of p = Some (Add toks v0) -> shallow v0 ->
  conforms_same doc (Add toks v0) (apply_patch doc p true) p.
Proof.
  intros Hd Hw Ho Hs. destruct (op_of_inv _ _ Ho) as (opname & toks' & Eop & Ept & (Eo & Et & Ev)). subst toks'.
  destruct (path_lookup2 _ _ Hw Ept) as (j & pathn & pstr & Gp & Sp & Vp & Np & Pp).
  destruct (value_lookup2 _ _ Hw Ev) as (jv & Gv).
  unfold conforms_same, apply_patch. rewrite Gp, Sp. cbn [negb]. rewrite (decode_op2 _ _ Hw Eop), Eo. cbn [bind]. rewrite Vp, Gv.
  cbn [eval1]. destruct pstr as [|c0 p0].
  - assert (toks = []) by (apply (parse_nil_iff [] toks Pp); reflexivity). subst toks.
    cbn [is_nil andb orb]. destruct (dup_value_same v0 Hs) as (d & Ed & Eq). rewrite Ed.
    do 2 eexists. split; [reflexivity|]. cbn. split; [reflexivity|].
    eapply doc_same_trans; [apply doc_same_unnamed | exact Eq].
  - cbn [is_nil andb orb bind].
    apply (add_tail_same 8 doc p v0 (c0 :: p0) toks); try assumption. discriminate.
Qed.

Theorem apply_patch_remove_same doc p toks : dwf doc -> op_wf2 p -> op_of p = Some (Remove toks) -> toks <> [] ->
  conforms_same doc (Remove toks) (apply_patch doc p true) p.
Proof.
  intros Hd Hw Ho Hne. destruct (op_of_inv _ _ Ho) as (opname & toks' & Eop & Ept & (Eo & Et)). subst toks'.
  destruct (path_lookup2 _ _ Hw Ept) as (j & pathn & pstr & Gp & Sp & Vp & Np & Pp).
  unfold conforms_same, apply_patch. rewrite Gp, Sp. cbn [negb]. rewrite (decode_op2 _ _ Hw Eop), Eo. cbn [bind]. rewrite Vp.
  destruct pstr as [|c0 p0].
  { exfalso. apply Hne. apply (parse_nil_iff [] toks Pp). reflexivity. }
  cbn [is_nil andb orb]. cbn [eval1].
  pose proof (detach_conform doc (c0 :: p0) toks Hd Np Pp) as D.
  destruct (Rfc6902.remove doc toks) as [d'|] eqn:R.
  - destruct D as (it & Ed & _). rewrite Ed. cbn [bind]. do 2 eexists. split; [reflexivity|]. split; [reflexivity|].
    apply doc_same_refl.
  - rewrite D. cbn [bind]. do 2 eexists. split; [reflexivity|]. discriminate.
Qed.

Theorem apply_patch_replace_same doc p toks v0 : dwf doc -> op_wf2 p -> op_of p = Some (Replace toks v0) -> shallow v0 ->
  conforms_same doc (Replace toks v0) (apply_patch doc p true) p.
Proof.
  intros Hd Hw Ho Hs. destruct (op_of_inv _ _ Ho) as (opname & toks' & Eop & Ept & (Eo & Et & Ev)). subst toks'.
  destruct (path_lookup2 _ _ Hw Ept) as (j & pathn & pstr & Gp & Sp & Vp & Np & Pp).
  destruct (value_lookup2 _ _ Hw Ev) as (jv & Gv).
  unfold conforms_same, apply_patch. rewrite Gp, Sp. cbn [negb]. rewrite (decode_op2 _ _ Hw Eop), Eo. cbn [bind]. rewrite Vp, Gv.
  cbn [eval1]. destruct pstr as [|c0 p0].
  - assert (toks = []) by (apply (parse_nil_iff [] toks Pp); reflexivity). subst toks.
    cbn [is_nil andb orb]. destruct (dup_value_same v0 Hs) as (d & Ed & Eq). rewrite Ed.
    do 2 eexists. split; [reflexivity|]. cbn. split; [reflexivity|].
    eapply doc_same_trans; [apply doc_same_unnamed | exact Eq].
  - cbn [is_nil andb orb].
    assert (Hne : toks <> []).
    { intro E. apply (parse_nil_iff (c0 :: p0) toks Pp) in E. discriminate. }
    unfold replace. destruct toks as [|t0 ts]; [contradiction|].
    pose proof (detach_conform doc (c0 :: p0) (t0 :: ts) Hd Np Pp) as D.
    destruct (Rfc6902.remove doc (t0 :: ts)) as [d1|] eqn:R.
    + destruct D as (it & Ed & _). rewrite Ed. cbn [bind].
      apply (add_tail_same 8 d1 p v0 (c0 :: p0) (t0 :: ts)); try assumption; [exact (remove_dwf _ _ _ Hd R) | discriminate].
    + rewrite D. cbn [bind]. do 2 eexists. split; [reflexivity|]. discriminate.
Qed.

(* copy: the value designated by "from" must be duplicable (nested no deeper than CJSON_CIRCULAR_LIMIT) *)
Theorem apply_patch_copy_same doc p ftoks toks : dwf doc -> op_wf2 p -> op_of p = Some (Copy ftoks toks) ->
  (forall v0, get doc ftoks = Some v0 -> shallow v0) ->
  conforms_same doc (Copy ftoks toks) (apply_patch doc p true) p.
Proof.
  intros Hd Hw Ho Hsh. destruct (op_of_inv _ _ Ho) as (opname & toks' & Eop & Ept & (Eo & Et & Ef)). subst toks'.
  destruct (path_lookup2 _ _ Hw Ept) as (j & pathn & pstr & Gp & Sp & Vp & Np & Pp).
  destruct (from_lookup2 _ _ Hw Ef) as (jf & fromn & fstr & Gf & Sf & Vf & Nf & Pf).
  unfold conforms_same, apply_patch. rewrite Gp, Sp. cbn [negb]. rewrite (decode_op2 _ _ Hw Eop), Eo. cbn [bind]. rewrite Vp.
  rewrite !andb_false_r. cbn [orb bind]. rewrite Gf, Sf. cbn [negb]. rewrite Vf.
  rewrite (whole_lookup doc fstr ftoks Hd Nf Pf). cbn [eval1].
  destruct (get doc ftoks) as [v0|] eqn:G; [|do 2 eexists; split; [reflexivity | discriminate]].
  pose proof (Hsh v0 eq_refl) as Hs.
  destruct pstr as [|c0 p0].
  - assert (toks = []) by (apply (parse_nil_iff [] toks Pp); reflexivity). subst toks.
    destruct (dup_value_same v0 Hs) as (d & Ed & Eq). rewrite Ed. cbn [finish_add bind].
    do 2 eexists. split; [reflexivity|]. cbn. split; [reflexivity|].
    eapply doc_same_trans; [apply doc_same_unnamed | exact Eq].
  - apply (add_tail_same 6 doc p v0 (c0 :: p0) toks); try assumption. discriminate.
Qed.

Theorem apply_patch_move_same doc p ftoks toks : dwf doc -> op_wf2 p -> op_of p = Some (Move ftoks toks) ->
  conforms_same doc (Move ftoks toks) (apply_patch doc p true) p.
Proof.
  intros Hd Hw Ho. destruct (op_of_inv _ _ Ho) as (opname & toks' & Eop & Ept & (Eo & Et & Ef)). subst toks'.
  destruct (path_lookup2 _ _ Hw Ept) as (j & pathn & pstr & Gp & Sp & Vp & Np & Pp).
  destruct (from_lookup2 _ _ Hw Ef) as (jf & fromn & fstr & Gf & Sf & Vf & Nf & Pf).
  unfold conforms_same, apply_patch. rewrite Gp, Sp. cbn [negb]. rewrite (decode_op2 _ _ Hw Eop), Eo. cbn [bind]. rewrite Vp.
  rewrite !andb_false_r. cbn [orb bind]. rewrite Gf, Sf. cbn [negb]. rewrite Vf.
  rewrite (own_child_check fstr pstr ftoks toks Pf Pp). cbn [eval1].
  destruct (proper_prefix ftoks toks); [do 2 eexists; split; [reflexivity | discriminate]|].
  pose proof (detach_conform doc fstr ftoks Hd Nf Pf) as D.
  destruct (Rfc6902.remove doc ftoks) as [d1|] eqn:R.
  2:{ rewrite D. cbn [bind]. do 2 eexists. split; [reflexivity|]. destruct (get doc ftoks); discriminate. }
  destruct D as (it & Ed & Eg). rewrite Ed, Eg. cbn [bind].
  pose proof (remove_dwf _ _ _ Hd R) as Hd1.
  destruct pstr as [|c0 p0].
  - assert (toks = []) by (apply (parse_nil_iff [] toks Pp); reflexivity). subst toks.
    cbn [finish_add bind]. do 2 eexists. split; [reflexivity|]. cbn. split; [reflexivity|].
    apply doc_same_unnamed.
  - destruct (finish_add_same d1 it it (c0 :: p0) toks Hd1 Np ltac:(discriminate) Pp (doc_same_refl it)) as (st & doc' & Efa & Hr).
    rewrite Efa. cbn [bind]. exists st, doc'. split; [reflexivity|].
    destruct (Rfc6902.add d1 toks it); [exact Hr | apply Hr].
Qed.

(** ---------- compare_json leaves its first operand the same document (members sorted) ---------- *)
Definition same2 (x' x : node) : Prop := doc_same x' x /\ n_key x' = n_key x.
Lemma same2_refl x : same2 x x.
Proof. split; [apply doc_same_refl | reflexivity]. Qed.
Lemma same2_refl_list l : Forall2 same2 l l.
Proof. apply Forall2_refl_in. intros; apply same2_refl. Qed.

Lemma cmp_arr_keeps rec : forall la lb r la' lb',
  (forall x y r x' y', In x la -> rec x y = Ok (r, x', y') -> same2 x' x) ->
  cmp_arr rec la lb = Ok (r, la', lb') -> Forall2 same2 la' la.
Proof.
  induction la as [|x la IH]; intros lb r la' lb' H E; destruct lb as [|y lb]; cbn [cmp_arr] in E.
  - inversion E; subst. constructor.
  - inversion E; subst. constructor.
  - inversion E; subst. apply same2_refl_list.
  - destruct (rec x y) as [[[r1 x'] y']| |] eqn:Er; cbn [bind] in E; try discriminate.
    pose proof (H x y r1 x' y' (or_introl eq_refl) Er) as Sx.
    destruct r1.
    + destruct (cmp_arr rec la lb) as [[[r2 la2] lb2]| |] eqn:E2; cbn [bind] in E; try discriminate.
      inversion E; subst. constructor; [exact Sx|]. eapply IH; [|exact E2]. intros; eapply H; [right; eassumption | eassumption].
    + inversion E; subst. constructor; [exact Sx | apply same2_refl_list].
Qed.

Lemma cmp_obj_keeps rec cs : forall la lb r la' lb',
  (forall x y r x' y', In x la -> rec x y = Ok (r, x', y') -> same2 x' x) ->
  cmp_obj rec cs la lb = Ok (r, la', lb') -> Forall2 same2 la' la.
Proof.
  induction la as [|x la IH]; intros lb r la' lb' H E; destruct lb as [|y lb]; cbn [cmp_obj] in E.
  - inversion E; subst. constructor.
  - inversion E; subst. constructor.
  - inversion E; subst. apply same2_refl_list.
  - destruct (negb (compare_strings (n_key x) (n_key y) cs =? 0)).
    { inversion E; subst. apply same2_refl_list. }
    destruct (rec x y) as [[[r1 x'] y']| |] eqn:Er; cbn [bind] in E; try discriminate.
    pose proof (H x y r1 x' y' (or_introl eq_refl) Er) as Sx.
    destruct r1.
    + destruct (cmp_obj rec cs la lb) as [[[r2 la2] lb2]| |] eqn:E2; cbn [bind] in E; try discriminate.
      inversion E; subst. constructor; [exact Sx|]. eapply IH; [|exact E2]. intros; eapply H; [right; eassumption | eassumption].
    + inversion E; subst. constructor; [exact Sx | apply same2_refl_list].
Qed.

Lemma set_children_twice a l l' : set_children (set_children a l) l' = set_children a l'.
Proof. destruct a; reflexivity. Qed.
Lemma set_children_key a l : n_key (set_children a l) = n_key a.
Proof. destruct a; reflexivity. Qed.

Lemma compare_json_keeps : forall fuel a b cs r a' b', compare_json fuel a b cs = Ok (r, a', b') -> same2 a' a.
Proof.
  induction fuel as [|f IH]; intros a b cs r a' b' E; cbn [compare_json] in E; [discriminate|].
  destruct (negb (tymask (n_ty a) =? tymask (n_ty b))); [inversion E; subst; apply same2_refl|].
  destruct (tymask (n_ty a) =? c_cJSON_Number); [inversion E; subst; apply same2_refl|].
  destruct (tymask (n_ty a) =? c_cJSON_String).
  { destruct (n_vstr a); [|discriminate]. destruct (n_vstr b); [|discriminate]. inversion E; subst; apply same2_refl. }
  destruct (Z.eqb_spec (tymask (n_ty a)) c_cJSON_Array) as [Ea|Ea].
  { destruct (cmp_arr (fun x y => compare_json f x y cs) (n_children a) (n_children b)) as [[[r1 ca] cb]| |] eqn:C; cbn [bind] in E; try discriminate.
    inversion E; subst. split; [|apply set_children_key].
    apply same_set_children; [|intro Ho; rewrite Ea in Ho; discriminate Ho]. intros _.
    eapply Forall2_impl'; [|eapply cmp_arr_keeps; [|exact C]].
    - intros x y [H _]. exact H.
    - intros x y r0 x' y' _ Er. eapply IH; exact Er. }
  destruct (Z.eqb_spec (tymask (n_ty a)) c_cJSON_Object) as [Eo|Eo]; [|inversion E; subst; apply same2_refl].
  destruct (sort_object_ok a cs) as (ra & Hra & Pa). destruct (sort_object_ok b cs) as (rb & Hrb & Pb).
  rewrite Hra in E. cbn [bind] in E. rewrite Hrb in E. cbn [bind] in E. rewrite !n_children_set in E.
  destruct (cmp_obj (fun x y => compare_json f x y cs) cs ra rb) as [[[r1 ca] cb]| |] eqn:C; cbn [bind] in E; try discriminate.
  inversion E; subst. rewrite set_children_twice. split; [|apply set_children_key].
  apply same_set_children; [intro Hn; contradiction|]. intros _.
  eapply osame_trans; [|apply osame_sym; apply osame_perm; exact Pa].
  apply osame_of_F2. eapply Forall2_impl'; [|eapply cmp_obj_keeps; [|exact C]].
  - intros x y [H K]. split; assumption.
  - intros x y r0 x' y' _ Er. eapply IH; exact Er.
Qed.

(** ---------- test ---------- *)
Theorem apply_patch_test_same doc p toks v0 : dwf doc -> op_wf2 p -> op_of p = Some (Test toks v0) -> dwf v0 ->
  exists st doc' p', apply_patch doc p true = Ok (st, doc', p') /\ doc_same doc' doc /\
    match eval1 doc (Test toks v0) with
    | Some d' => st = 0 /\ d' = doc
    | None => st <> 0
    end.
Proof.
  intros Hd Hw Ho Hv. destruct (op_of_inv _ _ Ho) as (opname & toks' & Eop & Ept & (Eo & Et & Ev)). subst toks'.
  destruct (path_lookup2 _ _ Hw Ept) as (j & pathn & pstr & Gp & Sp & Vp & Np & Pp).
  destruct (value_lookup2 _ _ Hw Ev) as (jv & Gv).
  unfold apply_patch. rewrite Gp, Sp. cbn [negb]. rewrite (decode_op2 _ _ Hw Eop), Eo. cbn [bind]. rewrite Vp, Gv.
  cbn [eval1]. rewrite get_resolve.
  change (get_item_from_pointer doc pstr true) with (cJSONUtils_GetPointerCaseSensitive doc pstr).
  rewrite get_pointer_rfc; [|apply dwf_small; exact Hd | exact Np]. unfold rfc6901. rewrite Pp.
  destruct (rfc_resolve doc toks) as [tp|] eqn:R.
  2:{ do 3 eexists. split; [reflexivity|]. split; [apply doc_same_refl | discriminate]. }
  destruct (rfc_resolve_subtree _ _ _ R) as (a & Sa). rewrite Sa.
  assert (Ha : dwf a) by exact (dwf_subtree _ _ _ Hd Sa).
  destruct (compare_json_spec (node_depth a) a v0 ltac:(lia) Ha Hv) as (a' & v' & E & _).
  destruct (compare_json_keeps _ _ _ _ _ _ _ E) as [D K].
  rewrite E. cbn [bind].
  assert (Dd : doc_same (put_subtree doc tp a') doc).
  { rewrite <- (put_subtree_same tp doc a Sa) at 2.
    eapply doc_same_put; [exact Sa | exact K | reflexivity | exact D]. }
  do 3 eexists. split; [reflexivity|]. split; [exact Dd|]. destruct (doc_eqb a v0).
  - split; reflexivity.
  - discriminate.
Qed.

(** ---------- all six operations, exactly ---------- *)
Definition copy_ok (doc : node) (o : op) : Prop :=
  match o with Copy f _ => forall v0, get doc f = Some v0 -> shallow v0 | _ => True end.

Theorem apply_patch_same doc p o : dwf doc -> op_wf2 p -> op_of p = Some o -> op_values_ok o -> o <> Remove [] -> copy_ok doc o ->
  exists st doc' p', apply_patch doc p true = Ok (st, doc', p') /\
    match eval1 doc o with
    | Some d' => st = 0 /\ doc_same doc' d'
    | None => st <> 0
    end.
Proof.
  intros Hd Hw Ho Hv Hne Hc.
  assert (G : forall r, conforms_same doc o r p -> exists st doc' p', r = Ok (st, doc', p') /\
            match eval1 doc o with Some d' => st = 0 /\ doc_same doc' d' | None => st <> 0 end).
  { intros r (st & doc' & E & H). exists st, doc', p. split; assumption. }
  destruct o as [q v|q|q v|f q|f q|q v]; cbn [op_values_ok copy_ok] in Hv, Hc.
  - apply G. apply apply_patch_add_same; tauto.
  - apply G. apply apply_patch_remove_same; try assumption. intro E. apply Hne. subst. reflexivity.
  - apply G. apply apply_patch_replace_same; tauto.
  - apply G. apply apply_patch_move_same; assumption.
  - apply G. apply apply_patch_copy_same; assumption.
  - destruct (apply_patch_test_same doc p q v Hd Hw Ho Hv) as (st & doc' & p' & E & D & H).
    exists st, doc', p'. split; [exact E|]. destruct (eval1 doc (Test q v)) as [d'|]; [|exact H].
    destruct H as [H1 H2]. subst d'. split; assumption.
Qed.
