(** PatchHeapFailCons.v — for EVERY allocation-failure schedule [oracle]: whenever the heap-level [apply_patch] /
    [cJSONUtils_ApplyPatches[CaseSensitive]] (PatchHeapApplyDefs.v) RETURN from a sane heap, the heap is sane again
    ([HeapOK]), identities were only handed out upwards, ownership tags of existing blocks are unchanged and every
    block the library only borrows is still live with bit-identical contents ([CoreLedgerGen.Cons], the generic half
    of C07).  No well-formedness hypothesis on the arguments. *)
From CJ Require Import Base Dbl Heap Forest CoreDefs CoreRefineBase CoreLedgerGen CoreLedgerDup.
From CJ Require Import TierBridgeUtilsDefs TierBridgeOverwriteDefs MergeHeapDefs MergeHeapProofs
  PatchHeapDefs PatchHeapStr PatchHeapApplyDefs PatchHeapOps PatchHeapTest.
From CJ Require SortDefs PatchDefs.
From CJ.gen Require Import Constants.
From stdpp Require Import gmap.
Local Open Scope Z_scope.

(** * the heap-level sort (C19) *)
Lemma pf_Cons_compare_strings a b cs : Cons (SortDefs.compare_strings a b cs).
Proof. unfold SortDefs.compare_strings. cons. Qed.
Local Hint Resolve pf_Cons_compare_strings : cons.
Lemma pf_Cons_scan_sorted fuel : forall c cs, Cons (SortDefs.scan_sorted fuel c cs).
Proof. induction fuel as [|f IH]; intros c cs; cbn [SortDefs.scan_sorted]; [cons|]. cons; try apply IH. Qed.
Lemma pf_Cons_find_middle fuel : forall s c, Cons (SortDefs.find_middle fuel s c).
Proof. induction fuel as [|f IH]; intros s c; cbn [SortDefs.find_middle]; [cons|]. cons; try apply IH. Qed.
Lemma pf_Cons_split_before s : Cons (SortDefs.split_before s).
Proof. unfold SortDefs.split_before. cons. Qed.
Lemma pf_Cons_sort_merge_loop fuel : forall a b r t cs, Cons (SortDefs.merge_loop fuel a b r t cs).
Proof. induction fuel as [|f IH]; intros a b r t cs; cbn [SortDefs.merge_loop]; [cons|]. cons; try apply IH. Qed.
Lemma pf_Cons_append_rest rest r t (k : M ptr) : Cons k -> Cons (SortDefs.append_rest rest r t k).
Proof. intros Hk. unfold SortDefs.append_rest. cons; exact Hk. Qed.
Lemma pf_Cons_merge_finish a b r t : Cons (SortDefs.merge_finish a b r t).
Proof. unfold SortDefs.merge_finish. apply pf_Cons_append_rest, pf_Cons_append_rest. cons. Qed.
Lemma pf_Cons_sort_list fuel : forall l cs, Cons (SortDefs.sort_list fuel l cs).
Proof.
  induction fuel as [|f IH]; intros l cs; cbn [SortDefs.sort_list]; [cons|].
  cons; try apply IH; try apply pf_Cons_scan_sorted; try apply pf_Cons_find_middle; try apply pf_Cons_split_before;
    try apply pf_Cons_sort_merge_loop; try apply pf_Cons_merge_finish.
Qed.
Lemma pf_Cons_find_last fuel : forall l, Cons (SortDefs.find_last fuel l).
Proof. induction fuel as [|f IH]; intros l; cbn [SortDefs.find_last]; [cons|]. cons; try apply IH. Qed.
Lemma pf_Cons_sort_object fuel o cs : Cons (SortDefs.sort_object fuel o cs).
Proof. unfold SortDefs.sort_object. cons; try apply pf_Cons_sort_list; try apply pf_Cons_find_last. Qed.

(** * compare_json *)
Lemma Cons_cj_arr_loop rec : (forall a b, Cons (rec a b)) -> forall lf a b, Cons (cj_arr_loop rec lf a b).
Proof. intros Hrec. induction lf as [|lf IH]; intros a b; cbn [cj_arr_loop]; [cons|]. cons; try apply Hrec; try apply IH. Qed.
Lemma Cons_cj_obj_loop rec flag : (forall a b, Cons (rec a b)) -> forall lf a b, Cons (cj_obj_loop rec flag lf a b).
Proof. intros Hrec. induction lf as [|lf IH]; intros a b; cbn [cj_obj_loop]; [cons|]. cons; try apply Hrec; try apply IH. Qed.

Theorem Cons_compare_json_fuel df : forall lf a b flag, Cons (compare_json_fuel df lf a b flag).
Proof.
  induction df as [|df IH]; intros lf a b flag; [cbn [compare_json_fuel]; cons|].
  rewrite compare_json_fuel_S. repeat (first [cons_step | progress (cbv zeta)]); try apply pf_Cons_sort_object.
  - apply Cons_cj_arr_loop. intros; apply IH.
  - apply Cons_cj_obj_loop. intros; apply IH.
Qed.
Theorem Cons_compare_json a b flag : Cons (compare_json a b flag).
Proof. unfold compare_json. cons. apply Cons_compare_json_fuel. Qed.

(** * decode_patch_operation *)
Lemma Cons_u_get_object_item o n cs : Cons (u_get_object_item o n cs).
Proof. unfold u_get_object_item, cJSON_GetObjectItemCaseSensitive_s, cJSON_GetObjectItem_s. cons. Qed.
Lemma Cons_vs_is i l : Cons (vs_is i l).
Proof. unfold vs_is. cons. Qed.
Local Hint Resolve Cons_u_get_object_item Cons_vs_is Cons_compare_json : cons.
Lemma Cons_decode_patch_operation p cs : Cons (decode_patch_operation p cs).
Proof. unfold decode_patch_operation. cons. Qed.
Local Hint Resolve Cons_decode_patch_operation : cons.

(** * apply_patch and the entry points, for every oracle *)
Section FailCons.
  Variable oracle : nat -> bool.

  Lemma Cons_cleanup v p st : Cons (cleanup v p st).
  Proof. unfold cleanup, cJSON_free. cons. Qed.
  Hint Resolve Cons_cleanup : cons.

  Lemma Cons_apply_patch_finish o p v cs : Cons (apply_patch_finish oracle o p v cs).
  Proof.
    unfold apply_patch_finish, cJSON_AddItemToArray. cons;
      try apply Cons_cJSON_DeleteItemFromObjectCaseSensitive_s; try apply Cons_cJSON_DeleteItemFromObject_s.
  Qed.
  Hint Resolve Cons_apply_patch_finish : cons.

  Theorem Cons_apply_patch o p cs : Cons (apply_patch oracle o p cs).
  Proof. unfold apply_patch. cons; apply Cons_cJSON_Duplicate. Qed.

  Lemma Cons_apply_patches_loop fuel : forall o c cs, Cons (apply_patches_loop oracle fuel o c cs).
  Proof. induction fuel as [|f IH]; intros o c cs; cbn [apply_patches_loop]; [cons|]. cons; try apply Cons_apply_patch; try apply IH. Qed.

  Theorem Cons_apply_patches o p cs : Cons (apply_patches oracle o p cs).
  Proof. unfold apply_patches. cons. apply Cons_apply_patches_loop. Qed.
  Theorem Cons_cJSONUtils_ApplyPatches o p : Cons (cJSONUtils_ApplyPatches oracle o p).
  Proof. apply Cons_apply_patches. Qed.
  Theorem Cons_cJSONUtils_ApplyPatchesCaseSensitive o p : Cons (cJSONUtils_ApplyPatchesCaseSensitive oracle o p).
  Proof. apply Cons_apply_patches. Qed.
End FailCons.
