(** LibcG15Scale.v — the arithmetic of the reference "%1.<P>g" ([LibcPrint.fmt_g]) in integers.

    [fmt_g P (S754_finite s m e)] is split into its three stages
      [g_scale]  (decimal exponent X and the scaled fraction nS/dS in [1,10)),
      [g_round]  (the P-digit integer D nearest to nS/dS * 10^(P-1), ties to even, and X'),
      [g_text]   (the characters for sign, D and X'),
    ([fmt_g_finite], by computation), and the first two stages are specified:
      [g_scale_spec]  nS/dS * 10^X = num/den exactly and dS <= nS < 10 dS, for every num/den whose
                      binary logarithm lies within +-1200 (all doubles);
      [g_round_spec]  what [g_round] returns is nearest / ties-to-even;
      [g_round_unique] conversely a P-digit D that is nearest (ties: even) IS what [g_round] returns.
    Powers of ten with integer exponents of either sign are written as fractions
    [p10n x / p10d x].  No real numbers in this file. *)
From Coq Require Import ZArith List Bool Lia Floats.SpecFloat.
From CJ Require Import Base Dbl LibcNum LibcPrint.
Import ListNotations.
Local Open Scope Z_scope.

(** * the three stages of fmt_g *)
Definition g_num (m : positive) (e : Z) : Z := if 0 <=? e then Zpos m * 2 ^ e else Zpos m.
Definition g_den (e : Z) : Z := if 0 <=? e then 1 else 2 ^ (- e).

Definition g_x0 (num den : Z) : Z := ((Z.log2 num - Z.log2 den) * 30103) / 100000.

Definition g_scale (num den : Z) : Z * Z * Z :=
  let x0 := g_x0 num den in
  let t := 10 ^ (Z.abs x0) in
  let '(nS1, dS1, x1) :=
    scale_down 8 (if 0 <=? x0 then num else num * t) (if 0 <=? x0 then den * t else den) x0 in
  scale_up 8 nS1 dS1 x1.

Definition g_q' (N Dn : Z) : Z :=
  let q := N / Dn in
  let r := N mod Dn in
  if 2 * r <? Dn then q else if Dn <? 2 * r then q + 1 else if Z.even q then q else q + 1.

Definition g_round (P nS dS X : Z) : Z * Z :=
  let q' := g_q' (nS * 10 ^ (P - 1)) dS in
  (if q' =? 10 ^ P then 10 ^ (P - 1) else q', if q' =? 10 ^ P then X + 1 else X).

Definition g_body (P D X' : Z) : bytes :=
  let ds := dec_fixed (Z.to_nat P) D in
  if (-4 <=? X') && (X' <? P) then
    if 0 <=? X' then
      with_point (firstn (Z.to_nat (X' + 1)) ds) (strip0 (skipn (Z.to_nat (X' + 1)) ds))
    else
      with_point [48] (strip0 (repeat 48 (Z.to_nat (- X' - 1)) ++ ds))
  else
    with_point (firstn 1 ds) (strip0 (skipn 1 ds)) ++ exp_part X'.

Definition g_text (P : Z) (s : bool) (D X' : Z) : bytes :=
  (if s then [45] else []) ++ g_body P D X'.

Lemma fmt_g_finite P s m e :
  fmt_g P (S754_finite s m e) =
  let '(nS, dS, X) := g_scale (g_num m e) (g_den e) in
  let '(D, X') := g_round P nS dS X in
  g_text P s D X'.
Proof.
  unfold fmt_g, g_scale, g_round, g_text, g_body, g_q', g_x0, g_num, g_den.
  destruct (scale_down 8 _ _ _) as [[nS1 dS1] x1].
  destruct (scale_up 8 nS1 dS1 x1) as [[nS dS] X].
  reflexivity.
Qed.

(** * powers of ten with an exponent of either sign, as a fraction *)
Definition p10n (x : Z) : Z := 10 ^ Z.max x 0.
Definition p10d (x : Z) : Z := 10 ^ Z.max (- x) 0.

Lemma p10n_pos x : 0 < p10n x. Proof. apply Z.pow_pos_nonneg; lia. Qed.
Lemma p10d_pos x : 0 < p10d x. Proof. apply Z.pow_pos_nonneg; lia. Qed.

Lemma p10n_nonneg x : 0 <= x -> p10n x = 10 ^ x /\ p10d x = 1.
Proof. intro H. unfold p10n, p10d. rewrite Z.max_l by lia. rewrite Z.max_r by lia. split; reflexivity. Qed.
Lemma p10d_neg x : x <= 0 -> p10n x = 1 /\ p10d x = 10 ^ (- x).
Proof. intro H. unfold p10n, p10d. rewrite Z.max_r by lia. rewrite Z.max_l by lia. split; reflexivity. Qed.

(** 10^x = 10 * 10^(x-1) *)
Lemma p10_step x : p10n x * p10d (x - 1) = 10 * p10n (x - 1) * p10d x.
Proof.
  destruct (Z_le_gt_dec 1 x) as [H|H].
  - destruct (p10n_nonneg x ltac:(lia)) as [-> ->]. destruct (p10n_nonneg (x - 1) ltac:(lia)) as [-> ->].
    replace x with (Z.succ (x - 1)) at 1 by lia. rewrite Z.pow_succ_r by lia. ring.
  - destruct (p10d_neg x ltac:(lia)) as [-> ->]. destruct (p10d_neg (x - 1) ltac:(lia)) as [-> ->].
    replace (- (x - 1)) with (Z.succ (- x)) by lia. rewrite Z.pow_succ_r by lia. ring.
Qed.

(** [frac_eq num den n d x]:  num/den = (n/d) * 10^x *)
Definition frac_eq (num den n d x : Z) : Prop := num * d * p10d x = n * den * p10n x.

Lemma frac_eq_down num den n d x : frac_eq num den n d x -> frac_eq num den (n * 10) d (x - 1).
Proof.
  unfold frac_eq. intro H. pose proof (p10_step x) as S. pose proof (p10d_pos x) as Hp.
  apply Z.mul_reg_r with (p := p10d x); [lia|].
  transitivity (num * d * p10d x * p10d (x - 1)); [ring|]. rewrite H.
  transitivity (n * den * (p10n x * p10d (x - 1))); [ring|]. rewrite S. ring.
Qed.

Lemma frac_eq_up num den n d x : frac_eq num den n d x -> frac_eq num den n (d * 10) (x + 1).
Proof.
  unfold frac_eq. intro H. pose proof (p10_step (x + 1)) as S. replace (x + 1 - 1) with x in S by lia.
  pose proof (p10d_pos x) as Hp.
  apply Z.mul_reg_r with (p := p10d x); [lia|].
  transitivity (n * den * (p10n (x + 1) * p10d x)); [|ring]. rewrite S.
  transitivity (10 * (num * d * p10d x) * p10d (x + 1)); [ring|]. rewrite H. ring.
Qed.

(** * the two loops *)
Lemma scale_down_spec num den : forall fuel n d x,
  0 < n -> 0 < d -> frac_eq num den n d x -> d <= n * 10 ^ Z.of_nat fuel ->
  exists n' x', scale_down fuel n d x = (n', d, x') /\ frac_eq num den n' d x' /\ d <= n' /\
                (n' = n \/ n' < 10 * d).
Proof.
  induction fuel as [|f IH]; intros n d x Hn Hd Hf Hb.
  - exists n, x. cbn [scale_down]. change (10 ^ Z.of_nat 0) with 1 in Hb. repeat split; try assumption; lia.
  - cbn [scale_down]. destruct (Z.ltb_spec n d) as [Hlt|Hge].
    + rewrite Nat2Z.inj_succ, Z.pow_succ_r in Hb by lia.
      destruct (IH (n * 10) d (x - 1) ltac:(lia) Hd (frac_eq_down _ _ _ _ _ Hf) ltac:(lia))
        as (n' & x' & E & Hf' & Hle & Hor).
      exists n', x'. repeat split; try assumption. right. lia.
    + exists n, x. repeat split; try assumption. left; reflexivity.
Qed.

Lemma scale_up_spec num den : forall fuel n d x,
  0 < n -> 0 < d -> frac_eq num den n d x -> d <= n -> n < d * 10 ^ Z.of_nat (S fuel) ->
  exists d' x', scale_up fuel n d x = (n, d', x') /\ frac_eq num den n d' x' /\ 0 < d' /\ d' <= n < 10 * d'.
Proof.
  induction fuel as [|f IH]; intros n d x Hn Hd Hf Hle Hb.
  - exists d, x. cbn [scale_up]. change (10 ^ Z.of_nat 1) with 10 in Hb. repeat split; try assumption; lia.
  - cbn [scale_up]. destruct (Z.leb_spec (d * 10) n) as [Hge|Hlt].
    + rewrite Nat2Z.inj_succ, Z.pow_succ_r in Hb by lia.
      destruct (IH n (d * 10) (x + 1) Hn ltac:(lia) (frac_eq_up _ _ _ _ _ Hf) Hge ltac:(lia))
        as (d' & x' & E & Hf' & Hd' & Hr).
      exists d', x'. repeat split; try assumption; lia.
    + exists d, x. repeat split; try assumption; lia.
Qed.

(** * the estimate of the decimal exponent from the bit lengths: 10^x0 <= 2^k < 10^(x0+1)
      for x0 = floor (k * 0.30103), checked for every |k| <= 1200 *)
Definition p2n (k : Z) : Z := 2 ^ Z.max k 0.
Definition p2d (k : Z) : Z := 2 ^ Z.max (- k) 0.

Definition est_ok (k : Z) : bool :=
  let x0 := (k * 30103) / 100000 in
  (p10n x0 * p2d k <=? p2n k * p10d x0) && (p2n k * p10d x0 <? 10 * p10n x0 * p2d k).

Fixpoint all_from (f : Z -> bool) (lo : Z) (n : nat) : bool :=
  match n with O => true | S n' => f lo && all_from f (lo + 1) n' end.

Lemma all_from_spec f : forall n lo k, all_from f lo n = true -> lo <= k < lo + Z.of_nat n -> f k = true.
Proof.
  induction n as [|n IH]; intros lo k H Hk; [lia|].
  cbn [all_from] in H. apply andb_true_iff in H as [H0 H1].
  destruct (Z.eq_dec k lo) as [->|Hne]; [exact H0|].
  apply (IH (lo + 1)); [exact H1|lia].
Qed.

Lemma est_table : all_from est_ok (-1200) 2401 = true.
Proof. vm_compute. reflexivity. Qed.

Lemma est_ok_range k : -1200 <= k <= 1200 -> est_ok k = true.
Proof. intro H. apply (all_from_spec est_ok 2401 (-1200)); [exact est_table|lia]. Qed.

Lemma p2_split a b : 0 <= a -> 0 <= b -> 2 ^ a * p2d (a - b) = 2 ^ b * p2n (a - b).
Proof.
  intros Ha Hb. unfold p2n, p2d. destruct (Z_le_gt_dec b a) as [H|H].
  - rewrite (Z.max_r (- (a - b))) by lia. rewrite (Z.max_l (a - b)) by lia.
    change (2 ^ 0) with 1. rewrite Z.mul_1_r.
    rewrite <- Z.pow_add_r by lia. f_equal. lia.
  - rewrite (Z.max_l (- (a - b))) by lia. rewrite (Z.max_r (a - b)) by lia.
    change (2 ^ 0) with 1. rewrite Z.mul_1_r.
    rewrite <- Z.pow_add_r by lia. f_equal. lia.
Qed.

Lemma log2_bounds n : 0 < n -> 0 <= Z.log2 n /\ 2 ^ Z.log2 n <= n < 2 * 2 ^ Z.log2 n.
Proof.
  intro H. pose proof (Z.log2_nonneg n) as H0. pose proof (Z.log2_spec n H) as [H1 H2].
  rewrite Z.pow_succ_r in H2 by lia. lia.
Qed.

(** the start of the loops is within [1/2, 20) of the target *)
Lemma est_start num den : 0 < num -> 0 < den -> -1200 <= Z.log2 num - Z.log2 den <= 1200 ->
  let x0 := g_x0 num den in
  den * p10n x0 < 2 * (num * p10d x0) /\ num * p10d x0 < 20 * (den * p10n x0).
Proof.
  intros Hn Hd Hk. cbv zeta. unfold g_x0.
  destruct (log2_bounds num Hn) as [Ha0 [Ha1 Ha2]]. destruct (log2_bounds den Hd) as [Hb0 [Hb1 Hb2]].
  set (a := Z.log2 num) in *. set (b := Z.log2 den) in *.
  pose proof (est_ok_range (a - b) Hk) as C. unfold est_ok in C. cbv zeta in C.
  set (x0 := (a - b) * 30103 / 100000) in *.
  apply andb_true_iff in C as [C1 C2]. apply Z.leb_le in C1. apply Z.ltb_lt in C2.
  pose proof (p2_split a b Ha0 Hb0) as S.
  pose proof (p10n_pos x0) as Pn. pose proof (p10d_pos x0) as Pd.
  assert (P2n : 0 < p2n (a - b)) by (apply Z.pow_pos_nonneg; lia).
  assert (P2d : 0 < p2d (a - b)) by (apply Z.pow_pos_nonneg; lia).
  assert (Pa : 0 < 2 ^ a) by (apply Z.pow_pos_nonneg; lia).
  assert (Pb : 0 < 2 ^ b) by (apply Z.pow_pos_nonneg; lia).
  set (A := 2 ^ a) in *. set (B := 2 ^ b) in *. set (tn := p10n x0) in *. set (td := p10d x0) in *.
  set (kn := p2n (a - b)) in *. set (kd := p2d (a - b)) in *.
  split.
  - (* den*tn < 2 B tn ; 2 B tn kn = 2 A kd tn <= 2 A kn td <= 2 num kn td *)
    apply Z.mul_lt_mono_pos_r with (p := kn); [exact P2n|].
    apply Z.lt_le_trans with (2 * B * tn * kn).
    + apply Z.mul_lt_mono_pos_r; [exact P2n|]. apply Z.mul_lt_mono_pos_r; [exact Pn|]. lia.
    + replace (2 * B * tn * kn) with (2 * (B * kn) * tn) by ring. rewrite <- S.
      replace (2 * (A * kd) * tn) with (2 * A * (tn * kd)) by ring.
      apply Z.le_trans with (2 * A * (kn * td)).
      * apply Z.mul_le_mono_nonneg_l; [lia|exact C1].
      * replace (2 * (num * td) * kn) with (2 * num * (kn * td)) by ring.
        apply Z.mul_le_mono_nonneg_r; [|lia]. apply Z.lt_le_incl, Z.mul_pos_pos; assumption.
  - (* num td < 2 A td ; 2 A td kd = 2 B kn td < 2 B 10 tn kd <= 20 den tn kd *)
    apply Z.mul_lt_mono_pos_r with (p := kd); [exact P2d|].
    apply Z.lt_le_trans with (2 * A * td * kd).
    + apply Z.mul_lt_mono_pos_r; [exact P2d|]. apply Z.mul_lt_mono_pos_r; [exact Pd|]. lia.
    + replace (2 * A * td * kd) with (2 * (A * kd) * td) by ring. rewrite S.
      replace (2 * (B * kn) * td) with (2 * B * (kn * td)) by ring.
      apply Z.le_trans with (2 * B * (10 * tn * kd)).
      * apply Z.mul_le_mono_nonneg_l; [lia|lia].
      * replace (2 * B * (10 * tn * kd)) with (20 * B * (tn * kd)) by ring.
        replace (20 * (den * tn) * kd) with (20 * den * (tn * kd)) by ring.
        apply Z.mul_le_mono_nonneg_r; [|lia]. apply Z.lt_le_incl, Z.mul_pos_pos; assumption.
Qed.

(** * stage 1 specified *)
Definition scaled (num den nS dS X : Z) : Prop :=
  0 < dS /\ dS <= nS < 10 * dS /\ frac_eq num den nS dS X.

Theorem g_scale_spec num den : 0 < num -> 0 < den -> -1200 <= Z.log2 num - Z.log2 den <= 1200 ->
  exists nS dS X, g_scale num den = (nS, dS, X) /\ scaled num den nS dS X.
Proof.
  intros Hn Hd Hk. destruct (est_start num den Hn Hd Hk) as [E1 E2]. cbv zeta in E1, E2.
  unfold g_scale. set (x0 := g_x0 num den) in *.
  pose proof (p10n_pos x0) as Pn. pose proof (p10d_pos x0) as Pd.
  assert (Hn0 : (if 0 <=? x0 then num else num * 10 ^ Z.abs x0) = num * p10d x0).
  { destruct (Z.leb_spec 0 x0) as [H|H].
    - destruct (p10n_nonneg x0 H) as [_ ->]. ring.
    - destruct (p10d_neg x0 ltac:(lia)) as [_ ->]. rewrite Z.abs_neq by lia. reflexivity. }
  assert (Hd0 : (if 0 <=? x0 then den * 10 ^ Z.abs x0 else den) = den * p10n x0).
  { destruct (Z.leb_spec 0 x0) as [H|H].
    - destruct (p10n_nonneg x0 H) as [-> _]. rewrite Z.abs_eq by lia. reflexivity.
    - destruct (p10d_neg x0 ltac:(lia)) as [-> _]. ring. }
  rewrite Hn0, Hd0.
  set (n0 := num * p10d x0) in *. set (d0 := den * p10n x0) in *.
  assert (Pn0 : 0 < n0) by (apply Z.mul_pos_pos; assumption).
  assert (Pd0 : 0 < d0) by (apply Z.mul_pos_pos; assumption).
  assert (F0 : frac_eq num den n0 d0 x0) by (unfold frac_eq, n0, d0; ring).
  destruct (scale_down_spec num den 8 n0 d0 x0 Pn0 Pd0 F0) as (n1 & x1 & Es & F1 & Hle & Hor).
  { change (10 ^ Z.of_nat 8) with 100000000. lia. }
  rewrite Es.
  destruct (scale_up_spec num den 8 n1 d0 x1 ltac:(lia) Pd0 F1 Hle) as (d2 & X & Eu & F2 & Pd2 & Hr).
  { change (10 ^ Z.of_nat 9) with 1000000000. destruct Hor as [->|H]; lia. }
  exists n1, d2, X. split; [exact Eu|]. split; [exact Pd2|]. split; [exact Hr|exact F2].
Qed.

(** * stage 2 specified: nearest, ties to even *)
Lemma g_q'_spec N Dn : 0 < Dn ->
  let q' := g_q' N Dn in
  2 * Z.abs (N - q' * Dn) <= Dn /\ (2 * Z.abs (N - q' * Dn) = Dn -> Z.even q' = true).
Proof.
  intro HD. cbv zeta. unfold g_q'.
  pose proof (Z.div_mod N Dn ltac:(lia)) as E. pose proof (Z.mod_pos_bound N Dn HD) as Hr.
  set (q := N / Dn) in *. set (r := N mod Dn) in *.
  destruct (Z.ltb_spec (2 * r) Dn) as [H1|H1].
  - replace (N - q * Dn) with r by lia. rewrite Z.abs_eq by lia. split; lia.
  - destruct (Z.ltb_spec Dn (2 * r)) as [H2|H2].
    + replace (N - (q + 1) * Dn) with (r - Dn) by lia. rewrite Z.abs_neq by lia. split; lia.
    + destruct (Z.even q) eqn:Ev.
      * replace (N - q * Dn) with r by lia. rewrite Z.abs_eq by lia. split; [lia|intros _; exact Ev].
      * replace (N - (q + 1) * Dn) with (r - Dn) by lia. rewrite Z.abs_neq by lia. split; [lia|].
        intros _. rewrite Z.even_add, Ev. reflexivity.
Qed.

(** the nearest integer (ties: the even one) is unique *)
Lemma g_q'_unique N Dn D : 0 < Dn ->
  2 * Z.abs (N - D * Dn) <= Dn -> (2 * Z.abs (N - D * Dn) = Dn -> Z.even D = true) ->
  g_q' N Dn = D.
Proof.
  intros HD H1 H2. destruct (g_q'_spec N Dn HD) as [G1 G2]. cbv zeta in G1, G2.
  set (q' := g_q' N Dn) in *.
  assert (Hd : Z.abs (q' - D) * Dn <= Dn).
  { replace (Z.abs (q' - D) * Dn) with (Z.abs ((N - D * Dn) - (N - q' * Dn))).
    - lia.
    - replace (N - D * Dn - (N - q' * Dn)) with ((q' - D) * Dn) by ring.
      rewrite Z.abs_mul. rewrite (Z.abs_eq Dn) by lia. reflexivity. }
  assert (Hc : Z.abs (q' - D) <= 1) by nia.
  destruct (Z.eq_dec q' D) as [E|Ne]; [exact E|exfalso].
  assert (Hone : q' = D + 1 \/ q' = D - 1) by lia.
  assert (T1 : 2 * Z.abs (N - D * Dn) = Dn) by (destruct Hone as [-> | ->]; lia).
  assert (T2 : 2 * Z.abs (N - q' * Dn) = Dn) by (destruct Hone as [E | E]; rewrite E in *; lia).
  specialize (H2 T1). specialize (G2 T2).
  destruct Hone as [E | E]; rewrite E in G2.
  - rewrite Z.even_add, H2 in G2. discriminate.
  - rewrite Z.even_sub, H2 in G2. discriminate.
Qed.

Lemma pow10_pos k : 0 <= k -> 0 < 10 ^ k. Proof. intro H. apply Z.pow_pos_nonneg; lia. Qed.

Lemma pow10_succ P : 1 <= P -> 10 ^ P = 10 * 10 ^ (P - 1).
Proof. intro H. replace P with (Z.succ (P - 1)) at 1 by lia. rewrite Z.pow_succ_r by lia. reflexivity. Qed.

(** what g_round returns, in the case that matters for a P-digit result above 10^(P-1) *)
Theorem g_round_spec P nS dS X D X' : 1 <= P -> 0 < dS -> dS <= nS < 10 * dS ->
  g_round P nS dS X = (D, X') ->
  10 ^ (P - 1) <= D < 10 ^ P /\
  (10 ^ (P - 1) < D -> X' = X /\
     2 * Z.abs (nS * 10 ^ (P - 1) - D * dS) <= dS /\
     (2 * Z.abs (nS * 10 ^ (P - 1) - D * dS) = dS -> Z.even D = true)).
Proof.
  intros HP Hd Hr E. unfold g_round in E.
  destruct (g_q'_spec (nS * 10 ^ (P - 1)) dS Hd) as [G1 G2]. cbv zeta in G1, G2.
  set (q' := g_q' (nS * 10 ^ (P - 1)) dS) in *.
  pose proof (pow10_pos (P - 1) ltac:(lia)) as Pp. pose proof (pow10_succ P HP) as Ps.
  set (T := 10 ^ (P - 1)) in *.
  assert (Hlo : T <= q') by nia.
  assert (Hhi : q' <= 10 * T) by nia.
  destruct (Z.eqb_spec q' (10 ^ P)) as [Eq|Ne]; injection E as <- <-.
  - split; [lia|]. intro H; lia.
  - split; [lia|]. intros _. split; [reflexivity|]. split; assumption.
Qed.

Theorem g_round_unique P nS dS X D : 1 <= P -> 0 < dS ->
  10 ^ (P - 1) <= D < 10 ^ P ->
  2 * Z.abs (nS * 10 ^ (P - 1) - D * dS) <= dS ->
  (2 * Z.abs (nS * 10 ^ (P - 1) - D * dS) = dS -> Z.even D = true) ->
  g_round P nS dS X = (D, X).
Proof.
  intros HP Hd HD H1 H2. unfold g_round.
  rewrite (g_q'_unique _ _ D Hd H1 H2).
  destruct (Z.eqb_spec D (10 ^ P)) as [E|_]; [lia|reflexivity].
Qed.
