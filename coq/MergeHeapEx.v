(** MergeHeapEx.v — non-vacuity of MergeHeapProofs / MergeHeapConform on a concrete heap, by computation.

    [exh_heap] encodes the forest [exh_F] = [patch; target]:
      target (root 1)  {"a":"b","c":{"d":1}}                 nodes 1 2 3 4, string blocks 101-104
      patch  (root 10) {"a":null,"c":{"d":null,"e":[1]},"f":"g"}   nodes 10-16, string blocks 111-117
    allocator pointer 1000.  The heap-level [cJSONUtils_MergePatchCaseSensitive] is RUN on it ([vm_compute]); the
    result is read back from the result heap by the structural walk [CoreOps.dump_node] (which also checks the
    prev/next discipline) and compared with the value-level model (MergeDefs) and with the RFC 7396 evaluator.

    [exk_heap]: the hypothesis [members_keyed] cannot be dropped from the ledger statement — a patch object with a
    member that has no name (possible through cJSON_AddItemToArray(object, item)) makes cJSON_AddItemToObject
    refuse; merge_patch ignores that result and the duplicated replacement stays allocated, unreachable. *)
From CJ Require Import Base Dbl Heap Forest ForestLemmas CoreDefs CoreRefineFrame CoreRefineDupValue CoreRefineDupForest
  CoreRefineCreate CoreLedgerGen.
From CJ Require Import TierBridgeDefs TierBridgeEndToEndStr MergeHeapDefs MergeHeapInv MergeHeapProofs MergeHeapConform.
From CJ Require Tree CoreOps CompareDefs MergeDefs Rfc7396.
From CJ.gen Require Import Constants.
From stdpp Require Import gmap.
Local Open Scope Z_scope.

Definition exh_mk (i : positive) (ty : Z) (vs : ptr) (vi : Z) (key : ptr) (cs : list tree) : tree :=
  T i (mkRD ty vs vi (dbl_of_int vi) key None) cs.
(** target {"a":"b","c":{"d":1}} *)
Definition exh_target : tree :=
  exh_mk 1 c_cJSON_Object None 0 None
    [exh_mk 2 c_cJSON_String (Some 102%positive) 0 (Some 101%positive) [];
     exh_mk 3 c_cJSON_Object None 0 (Some 103%positive) [exh_mk 4 c_cJSON_Number None 1 (Some 104%positive) []]].
(** patch {"a":null,"c":{"d":null,"e":[1]},"f":"g"} *)
Definition exh_patch : tree :=
  exh_mk 10 c_cJSON_Object None 0 None
    [exh_mk 11 c_cJSON_NULL None 0 (Some 111%positive) [];
     exh_mk 12 c_cJSON_Object None 0 (Some 112%positive)
        [exh_mk 13 c_cJSON_NULL None 0 (Some 113%positive) [];
         exh_mk 14 c_cJSON_Array None 0 (Some 114%positive) [exh_mk 15 c_cJSON_Number None 1 None []]];
     exh_mk 16 c_cJSON_String (Some 117%positive) 0 (Some 116%positive) []].
Definition exh_F : forest := [exh_patch; exh_target].
Definition exh_St : gmap positive bytes :=
  list_to_map [(101%positive, [97; 0]); (102%positive, [98; 0]); (103%positive, [99; 0]); (104%positive, [100; 0]);
               (111%positive, [97; 0]); (112%positive, [99; 0]); (113%positive, [100; 0]); (114%positive, [101; 0]);
               (116%positive, [102; 0]); (117%positive, [103; 0])].
Definition heap_of_forest (F : forest) (St : gmap positive bytes) : heap :=
  mkHeap (heap_lnk_of F) (heap_dat_of F) St
         (list_to_map ((fun b => (b, Lib)) <$> owned F))
         (list_to_set (owned F))
         1000%positive 0 default_hooks [].
Definition exh_heap : heap := heap_of_forest exh_F exh_St.

(** the expected result {"c":{"e":[1]},"f":"g"} *)
Definition exh_num1 : Tree.node := Tree.Node c_cJSON_Number None 1 (dbl_of_int 1) None [].
Definition exh_expected : Tree.node :=
  Tree.Node c_cJSON_Object None 0 dzero None
    [Tree.Node c_cJSON_Object None 0 dzero (Some [99])
       [Tree.Node c_cJSON_Array None 0 dzero (Some [101]) [exh_num1]];
     Tree.Node c_cJSON_String (Some [103]) 0 dzero (Some [102]) []].

Definition out_val {A} (o : out (A * heap)) : option A := match o with Ret (a, _) => Some a | Err _ => None end.
Definition out_heap {A} (o : out (A * heap)) (dflt : heap) : heap := match o with Ret (_, h') => h' | Err _ => dflt end.

Definition exh_run : out (ptr * heap) :=
  MergeHeapDefs.cJSONUtils_MergePatchCaseSensitive nofail (Some 1%positive) (Some 10%positive) exh_heap.
Definition exh_after : heap := out_heap exh_run exh_heap.

Ltac ex_dec := apply (bool_decide_unpack _); vm_compute; exact I.

(** ** the invariant holds *)
Lemma heap_of_forest_WF F St :
  bool_decide (NoDup (ids F)) = true -> bool_decide (NoDup (owned F)) = true ->
  forallb (fun b => bool_decide (b < 1000)%positive) (owned F) = true ->
  forallb (fun n : fnode => bool_decide (is_ref (fn_data n) = true -> fn_cids n = []) &&
                            bool_decide (rd_ref (fn_data n) <> None -> is_ref (fn_data n) = true)) (flat F) = true ->
  WF (heap_of_forest F St) F.
Proof.
  intros H1 H2 H3 H4. apply bool_decide_eq_true in H1, H2. rewrite forallb_forall in H3, H4.
  constructor; cbn; try done.
  - intros b Hb. by apply elem_of_list_to_set.
  - intros b Hb. apply elem_of_list_to_map_1.
    + rewrite <- list_fmap_compose. cbn. by rewrite list_fmap_id.
    + apply elem_of_list_fmap. by exists b.
  - intros b Hb. specialize (H3 b ltac:(by apply elem_of_list_In)). by apply bool_decide_eq_true in H3.
  - apply Forall_forall. intros n Hn. specialize (H4 n ltac:(by apply elem_of_list_In)).
    apply andb_true_iff in H4 as [A B]. apply bool_decide_eq_true in A, B. by split.
Qed.

Lemma heap_of_forest_OK F St :
  forallb (fun b => bool_decide (b < 1000)%positive) (owned F) = true ->
  forallb (fun kv : positive * bytes => bool_decide (kv.1 ∈ owned F) && bool_decide (kv.1 ∉ ids F)) (map_to_list St) = true ->
  bool_decide (NoDup (ids F)) = true ->
  HeapOK (heap_of_forest F St).
Proof.
  intros H1 H2 H3. rewrite forallb_forall in H1, H2. apply bool_decide_eq_true in H3. constructor; cbn.
  - intros b Hb. cbn in Hb. apply elem_of_list_to_set in Hb.
    specialize (H1 b ltac:(by apply elem_of_list_In)). by apply bool_decide_eq_true in H1.
  - intros b [s Hs]. specialize (H2 (b, s) ltac:(apply elem_of_list_In; by apply elem_of_map_to_list)).
    apply andb_true_iff in H2 as [A B]. apply bool_decide_eq_true in A, B. cbn in A, B.
    split; [by apply elem_of_list_to_set|]. by apply heap_dat_of_lookup_None.
  - intros b Hb. rewrite <- elem_of_dom, dom_heap_dat_of, elem_of_list_to_set in Hb.
    apply ids_subseteq_owned in Hb. specialize (H1 b ltac:(by apply elem_of_list_In)). by apply bool_decide_eq_true in H1.
Qed.

Definition str_okb (F : forest) (St : gmap positive bytes) (p : ptr) : bool :=
  match p with
  | None => true
  | Some b => bool_decide (b ∈ owned F) && match St !! b with Some s => existsb (Z.eqb 0) s | None => false end
  end.
Lemma heap_of_forest_MInv F St :
  bool_decide (NoDup (ids F)) = true -> bool_decide (NoDup (owned F)) = true ->
  forallb (fun b => bool_decide (b < 1000)%positive) (owned F) = true ->
  forallb (fun n : fnode => bool_decide (is_ref (fn_data n) = true -> fn_cids n = []) &&
                            bool_decide (rd_ref (fn_data n) <> None -> is_ref (fn_data n) = true)) (flat F) = true ->
  forallb (fun kv : positive * bytes => bool_decide (kv.1 ∈ owned F) && bool_decide (kv.1 ∉ ids F)) (map_to_list St) = true ->
  forallb (fun e : positive * rdata => negb (is_ref e.2) && negb (is_const e.2) &&
                                       str_okb F St (rd_vstr e.2) && str_okb F St (rd_key e.2)) (datas F) = true ->
  MInv (heap_of_forest F St) F.
Proof.
  intros H1 H2 H3 H4 H5 H6. rewrite forallb_forall in H6.
  assert (Hok : forall p b, str_okb F St p = true -> p = Some b -> str_ok (heap_of_forest F St) b).
  { intros p b Hp ->. cbn in Hp. apply andb_true_iff in Hp as [A B]. apply bool_decide_eq_true in A.
    split; [cbn; by apply elem_of_list_to_set|]. cbn. destruct (St !! b) as [s|]; [|done]. by exists s. }
  constructor.
  - by apply heap_of_forest_WF.
  - by apply heap_of_forest_OK.
  - intros e He. specialize (H6 e ltac:(by apply elem_of_list_In)).
    apply andb_true_iff in H6 as [H6 _]. apply andb_true_iff in H6 as [H6 _]. apply andb_true_iff in H6 as [A B].
    split; [by apply negb_true_iff in A|by apply negb_true_iff in B].
  - intros e He. specialize (H6 e ltac:(by apply elem_of_list_In)).
    apply andb_true_iff in H6 as [H6 Hk]. apply andb_true_iff in H6 as [_ Hv].
    split; intros b Hb; [exact (Hok _ b Hv Hb)|exact (Hok _ b Hk Hb)].
Qed.

Lemma exh_MInv : MInv exh_heap exh_F.
Proof. apply heap_of_forest_MInv; vm_compute; reflexivity. Qed.

Lemma heap_of_forest_NoLeak F St : NoLeak (heap_of_forest F St) F.
Proof. intros b Hb. apply elem_of_filter in Hb as [_ Hb]. cbn [heap_of_forest h_live] in Hb. by apply elem_of_list_to_set in Hb. Qed.
Lemma exh_NoLeak : NoLeak exh_heap exh_F.
Proof. apply heap_of_forest_NoLeak. Qed.

(** ** the hypotheses of [merge_patch_refines] / [c18_heap_conform] hold *)
Lemma exh_hypotheses :
  MInv exh_heap exh_F /\ NoLeak exh_heap exh_F /\
  find_root 1%positive exh_F = Some exh_target /\
  find_tree 10%positive (rest_of exh_F (Some exh_target)) = Some exh_patch /\
  find_root 10%positive exh_F = Some exh_patch /\
  (height exh_patch <= Z.to_nat c_CJSON_CIRCULAR_LIMIT)%nat /\ members_keyed exh_patch /\
  Forall owns_strings exh_F /\
  Rfc7396.m7396_doc (reify (h_str exh_heap) exh_target) = true /\
  Rfc7396.m7396_doc (reify (h_str exh_heap) exh_patch) = true /\
  Rfc7396.m7396_depth_ok (reify (h_str exh_heap) exh_patch) = true.
Proof.
  assert (Hdoc : Rfc7396.m7396_doc (reify (h_str exh_heap) exh_patch) = true) by (vm_compute; reflexivity).
  split_and!; try (vm_compute; reflexivity).
  - exact exh_MInv.
  - exact exh_NoLeak.
  - vm_compute. lia.
  - exact (doc_members_keyed _ _ Hdoc).
  - apply Forall_forall. intros t Ht. apply (owns_strings_of_datas exh_F t (mi_own _ _ exh_MInv)). by apply roots_in_nodes.
Qed.

(** ** the run *)
Lemma exh_result :
  out_val exh_run = Some (Some 1%positive) /\
  out_val (CoreOps.dump_node 50 (Some 1%positive) exh_after) = Some (Some (exh_expected, true)) /\
  MergeDefs.cJSONUtils_MergePatchCaseSensitive (Some (reify exh_St exh_target)) (Some (reify exh_St exh_patch)) = Some exh_expected /\
  Rfc7396.merge (Some (reify exh_St exh_target)) (reify exh_St exh_patch) = exh_expected /\
  (* the patch, read back from the result heap, is what it was *)
  out_val (CoreOps.dump_node 50 (Some 10%positive) exh_after) = Some (Some (reify exh_St exh_patch, true)) /\
  (* the ledger: the blocks of the patch, the surviving nodes of the target (root 1, member 3 = "c", which was
     detached and added again under a fresh copy of its name), and the new blocks ("e":[1] and "f":"g" duplicated
     from the patch, the key copies made by cJSON_AddItemToObject) *)
  bool_decide (lib_live exh_after =
               list_to_set (owned [exh_patch] ++ [1; 3; 1000; 1002; 1003; 1004; 1005; 1006; 1008]%positive)) = true /\
  (* released: member "a" (2, 101, 102), member "c"."d" (4, 104), the old key of "c" (103), and the keys that the
     duplicates of "e" and "f" brought along (1001, 1007), replaced by cJSON_AddItemToObject's own copies *)
  forallb (fun b => bool_decide (b ∉ h_live exh_after)) [2; 101; 102; 4; 104; 103; 1001; 1007]%positive = true.
Proof. split_and!; vm_compute; reflexivity. Qed.

Lemma exh_run_is :
  exh_run = MergeHeapDefs.cJSONUtils_MergePatchCaseSensitive nofail (Some 1%positive) (Some 10%positive) exh_heap /\
  exh_after = out_heap exh_run exh_heap.
Proof. unfold exh_after, exh_run. split; reflexivity. Qed.

(** ** the general theorem instantiated on the run: the heap the computation ends in encodes a forest in which
       the returned pointer is a root that reifies to the expected document *)
Lemma exh_run_is2 : merge_patch nofail (Some 1%positive) (Some 10%positive) true exh_heap = exh_run.
Proof. unfold exh_run, MergeHeapDefs.cJSONUtils_MergePatchCaseSensitive. reflexivity. Qed.

Lemma exh_instance :
  exists ty,
    exh_run = Ret (Some (tid ty), exh_after) /\ tid ty = 1%positive /\
    MInv exh_after ([exh_patch] ++ [ty]) /\ NoLeak exh_after ([exh_patch] ++ [ty]) /\
    find_root 10%positive ([exh_patch] ++ [ty]) = Some exh_patch /\
    reify (h_str exh_after) ty = exh_expected /\
    reify (h_str exh_after) ty = Rfc7396.merge (Some (reify exh_St exh_target)) (reify exh_St exh_patch).
Proof.
  destruct exh_hypotheses as (I & NL & Hr & Hp & Hpr & Hh & Hk & _).
  assert (Htgt : forall tx, Some exh_target = Some tx -> find_root (tid tx) exh_F = Some tx).
  { intros tx [= <-]. exact Hr. }
  destruct (merge_patch_refines true exh_heap exh_F (Some exh_target) 10%positive exh_patch I Htgt Hp Hh Hk)
    as (h' & ty & Hrun & I' & _ & _ & _ & V & NL' & _).
  assert (E1 : tid <$> Some exh_target = Some 1%positive) by reflexivity. rewrite E1 in Hrun.
  rewrite exh_run_is2 in Hrun.
  assert (Erest : rest_of exh_F (Some exh_target) = [exh_patch]) by (vm_compute; reflexivity).
  rewrite Erest in I', NL'.
  assert (E2 : h_str exh_heap = exh_St) by reflexivity. rewrite E2 in V.
  cbn [fmap option_fmap option_map] in V.
  destruct exh_result as (R1 & _ & R3 & R4 & _).
  unfold MergeDefs.cJSONUtils_MergePatchCaseSensitive in R3. rewrite R3 in V. injection V as V.
  rewrite Hrun in R1. cbn [out_val] in R1. injection R1 as R1.
  assert (Ea : exh_after = h').
  { rewrite (proj2 exh_run_is), Hrun. reflexivity. }
  rewrite Ea.
  exists ty. split; [exact Hrun|]. split; [by symmetry|]. split; [exact I'|]. split; [exact (NL' NL)|].
  split; [reflexivity|]. split; [by symmetry|]. by rewrite R4.
Qed.

(** ** a member without a name: the replacement is leaked *)
(** target (root 1) {}, patch (root 10) = an object whose only member 11 (the number 5) has NO key *)
Definition exk_target : tree := exh_mk 1 c_cJSON_Object None 0 None [].
Definition exk_patch : tree := exh_mk 10 c_cJSON_Object None 0 None [exh_mk 11 c_cJSON_Number None 5 None []].
Definition exk_F : forest := [exk_patch; exk_target].
Definition exk_heap : heap := heap_of_forest exk_F ∅.
Definition exk_run : out (ptr * heap) :=
  MergeHeapDefs.cJSONUtils_MergePatchCaseSensitive nofail (Some 1%positive) (Some 10%positive) exk_heap.
Definition exk_after : heap := out_heap exk_run exk_heap.
Definition exk_empty_object : Tree.node := Tree.Node c_cJSON_Object None 0 dzero None [].

Lemma exk_run_is :
  exk_run = MergeHeapDefs.cJSONUtils_MergePatchCaseSensitive nofail (Some 1%positive) (Some 10%positive) exk_heap /\
  exk_after = out_heap exk_run exk_heap.
Proof. unfold exk_after, exk_run. split; reflexivity. Qed.

Lemma keyless_member_leaks :
  (* every hypothesis of [merge_patch_refines] but [members_keyed] holds *)
  MInv exk_heap exk_F /\ NoLeak exk_heap exk_F /\
  find_root 1%positive exk_F = Some exk_target /\
  find_tree 10%positive (rest_of exk_F (Some exk_target)) = Some exk_patch /\
  (height exk_patch <= Z.to_nat c_CJSON_CIRCULAR_LIMIT)%nat /\
  ~ members_keyed exk_patch /\
  (* the call returns the target, still {} — as the value-level model says … *)
  out_val exk_run = Some (Some 1%positive) /\
  out_val (CoreOps.dump_node 50 (Some 1%positive) exk_after) = Some (Some (exk_empty_object, true)) /\
  MergeDefs.cJSONUtils_MergePatchCaseSensitive (Some (reify ∅ exk_target)) (Some (reify ∅ exk_patch)) = Some exk_empty_object /\
  (* … but the duplicate 1000 of the member, which cJSON_AddItemToObject(target, NULL, replacement) refused, is a
     live library block without links that neither the result nor the patch reaches *)
  bool_decide (lib_live exk_after = list_to_set [1; 10; 11; 1000]%positive) = true /\
  h_lnk exk_after !! 1000%positive = Some (None, None) /\
  out_val (CoreOps.dump_node 50 (Some 10%positive) exk_after) = Some (Some (reify ∅ exk_patch, true)) /\
  ~ NoLeak exk_after [exk_patch; exk_target].
Proof.
  split_and!; try (vm_compute; reflexivity).
  - apply heap_of_forest_MInv; vm_compute; reflexivity.
  - apply heap_of_forest_NoLeak.
  - vm_compute. lia.
  - intros H. apply (H 10%positive _ _ ltac:(apply nodes_t_self) eq_refl (exh_mk 11 c_cJSON_Number None 5 None [])); [by left|reflexivity].
  - intros NL. assert (Hin : 1000%positive ∈ lib_live exk_after) by (apply (bool_decide_unpack _); vm_compute; exact I).
    apply NL in Hin. revert Hin. apply (bool_decide_unpack _). vm_compute. exact I.
Qed.

(** ** outside [nofail]: an allocation failure inside cJSON_AddItemToObject (DESIGN 11.6, reproduced in the model) *)
(** the run of [exh_heap] with the FIFTH allocation request refused: that request is the copy of the name "c" made
    by cJSON_AddItemToObject(target, "c", replacement) for the member that was detached, patched and is now to be
    put back.  merge_patch ignores the refusal. *)
Definition exf_oracle : nat -> bool := fun k => Nat.eqb k 4.
Definition exf_run : out (ptr * heap) :=
  MergeHeapDefs.cJSONUtils_MergePatchCaseSensitive exf_oracle (Some 1%positive) (Some 10%positive) exh_heap.
Definition exf_after : heap := out_heap exf_run exh_heap.
Definition exf_result : Tree.node :=
  Tree.Node c_cJSON_Object None 0 dzero None [Tree.Node c_cJSON_String (Some [103]) 0 dzero (Some [102]) []].

Lemma alloc_failure_observed :
  (* the call "succeeds": it returns the target, a healthy tree — {"f":"g"}: the member "c" is gone … *)
  out_val exf_run = Some (Some 1%positive) /\
  out_val (CoreOps.dump_node 50 (Some 1%positive) exf_after) = Some (Some (exf_result, true)) /\
  Rfc7396.doc_eq exf_result (Rfc7396.merge (Some (reify exh_St exh_target)) (reify exh_St exh_patch)) = false /\
  (* … and the patched member (node 3 with its old key 103 and the new "e":[1] below it) is a detached,
     unreachable, live library tree *)
  h_lnk exf_after !! 3%positive = Some (None, None) /\
  out_val (CoreOps.dump_node 50 (Some 3%positive) exf_after) =
    Some (Some (Tree.Node c_cJSON_Object None 0 dzero (Some [99])
                  [Tree.Node c_cJSON_Array None 0 dzero (Some [101]) [exh_num1]], true)) /\
  forallb (fun b => bool_decide (b ∈ lib_live exf_after)) [3; 103; 1000; 1002; 1003]%positive = true.
Proof. split_and!; vm_compute; reflexivity. Qed.
Lemma exf_run_is :
  exf_run = MergeHeapDefs.cJSONUtils_MergePatchCaseSensitive exf_oracle (Some 1%positive) (Some 10%positive) exh_heap /\
  exf_after = out_heap exf_run exh_heap /\ exf_oracle = (fun k => Nat.eqb k 4).
Proof. unfold exf_after, exf_run, exf_oracle. split_and!; reflexivity. Qed.
