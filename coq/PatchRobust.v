(** PatchRobust.v — apply_patches returns a status (no fault outcome) for every patch value:
    the only fault of the value-level model is the dereference of the NULL valuestring of a
    String-typed node, which no parser produces; [strs_ok] (every String node has its string) is
    an invariant of every operation. *)
From Coq Require Import Lia ZArith List Bool Permutation.
From CJ Require Import Base Dbl Tree PointerDefs CompareDefs PatchDefs PatchProofs.
Import ListNotations.
Local Open Scope Z_scope.

Definition str_ok (ty : Z) (vs : option bytes) : Prop := tymask ty = c_cJSON_String -> vs <> None.
Fixpoint strs_ok (n : node) : Prop :=
  match n with
  | Node ty vs _ _ _ cs =>
      str_ok ty vs /\ (fix go (l : list node) : Prop := match l with [] => True | c :: r => strs_ok c /\ go r end) cs
  end.

Lemma strs_ok_unfold ty vs vi vd k cs : strs_ok (Node ty vs vi vd k cs) <-> str_ok ty vs /\ Forall strs_ok cs.
Proof.
  assert (G : forall l, (fix go (l : list node) : Prop :=
                           match l with [] => True | c :: r => strs_ok c /\ go r end) l
                        <-> Forall strs_ok l).
  { induction l as [|c r IH]; split; intro H.
    - constructor.
    - exact I.
    - destruct H as [H1 H2]. constructor; [exact H1 | apply IH; exact H2].
    - inversion H; subst. split; [assumption | apply IH; assumption]. }
  cbn [strs_ok]. rewrite G. reflexivity.
Qed.

Lemma strs_ok_children n : strs_ok n -> Forall strs_ok (n_children n).
Proof. destruct n. rewrite strs_ok_unfold. intros [_ H]. exact H. Qed.
Lemma strs_ok_set_children n cs : strs_ok n -> Forall strs_ok cs -> strs_ok (set_children n cs).
Proof. destruct n. cbn [set_children]. rewrite !strs_ok_unfold. intros [H _] H2. split; assumption. Qed.
Lemma strs_ok_set_key n k : strs_ok n -> strs_ok (set_key n k).
Proof. destruct n. cbn [set_key]. rewrite !strs_ok_unfold. tauto. Qed.
Lemma strs_ok_vstr n : strs_ok n -> is_string n = true -> exists s, n_vstr n = Some s.
Proof.
  destruct n as [ty vs vi vd k cs]. rewrite strs_ok_unfold. intros [H _] Hs.
  unfold is_string, is_type in Hs. cbn [n_ty] in Hs. apply Z.eqb_eq in Hs. specialize (H Hs).
  cbn [n_vstr]. destruct vs as [s|]; [exists s; reflexivity | contradiction].
Qed.

Lemma tymask_ldiff ty f : Z.land f 255 = 0 -> tymask (Z.ldiff ty f) = tymask ty.
Proof.
  intro H. unfold tymask. apply Z.bits_inj'. intros n Hn.
  rewrite !Z.land_spec, Z.ldiff_spec.
  assert (Hb : Z.testbit (Z.land f 255) n = false) by (rewrite H; apply Z.bits_0).
  rewrite Z.land_spec in Hb.
  destruct (Z.testbit ty n), (Z.testbit f n), (Z.testbit 255 n); cbn in *; congruence.
Qed.

Lemma strs_ok_keyed v k : strs_ok v -> strs_ok (keyed v k).
Proof.
  destruct v as [ty vs vi vd key cs]. unfold keyed. cbn [set_ty set_key n_ty]. rewrite !strs_ok_unfold.
  intros [H1 H2]. split; [|exact H2]. unfold str_ok in *. rewrite tymask_ldiff by reflexivity. exact H1.
Qed.
Lemma strs_ok_unnamed v : strs_ok v -> strs_ok (unnamed v).
Proof.
  destruct v as [ty vs vi vd key cs]. unfold unnamed. cbn [set_ty set_key n_ty]. rewrite !strs_ok_unfold.
  intros [H1 H2]. split; [|exact H2]. unfold str_ok in *. rewrite tymask_ldiff by reflexivity. exact H1.
Qed.

(** ---- list surgery keeps Forall ---- *)
Lemma Forall_remove_nth {A} (P : A -> Prop) : forall i l, Forall P l -> Forall P (remove_nth i l).
Proof.
  intros i l; revert i; induction l as [|x l IH]; intros i H; cbn [remove_nth]; [constructor|].
  inversion H; subst. destruct i; [assumption | constructor; [assumption | apply IH; assumption]].
Qed.
Lemma Forall_insert_nth {A} (P : A -> Prop) : forall i x l, P x -> Forall P l -> Forall P (insert_nth i x l).
Proof.
  induction i as [|i IH]; intros x l Hx H; cbn [insert_nth].
  - constructor; assumption.
  - destruct l as [|y r]; [constructor; [assumption | constructor]|].
    inversion H; subst. constructor; [assumption | apply IH; assumption].
Qed.
Lemma Forall_replace_nth {A} (P : A -> Prop) : forall i x l, P x -> Forall P l -> Forall P (replace_nth i x l).
Proof.
  intros i x l; revert i; induction l as [|y l IH]; intros i Hx H; cbn [replace_nth]; [constructor|].
  inversion H; subst. destruct i; constructor; try assumption. apply IH; assumption.
Qed.
Lemma Forall_nth_error {A} (P : A -> Prop) l i (x : A) : Forall P l -> nth_error l i = Some x -> P x.
Proof. intros H E. rewrite Forall_forall in H. apply H. eapply nth_error_In; exact E. Qed.

Lemma strs_ok_subtree : forall p n x, strs_ok n -> subtree n p = Some x -> strs_ok x.
Proof.
  induction p as [|i p IH]; intros n x Hn E; cbn [subtree] in E.
  - inversion E; subst. exact Hn.
  - destruct (nth_error (n_children n) i) as [c|] eqn:N; [|discriminate].
    eapply IH; [|exact E]. eapply Forall_nth_error; [apply strs_ok_children; exact Hn | exact N].
Qed.

Lemma strs_ok_put : forall p n new, strs_ok n -> strs_ok new -> strs_ok (put_subtree n p new).
Proof.
  induction p as [|i p IH]; intros n new Hn Hnew; cbn [put_subtree]; [exact Hnew|].
  destruct (nth_error (n_children n) i) as [c|] eqn:N; [|exact Hn].
  apply strs_ok_set_children; [exact Hn|].
  apply Forall_replace_nth; [|apply strs_ok_children; exact Hn].
  apply IH; [|exact Hnew]. eapply Forall_nth_error; [apply strs_ok_children; exact Hn | exact N].
Qed.

(** ---- cJSON_Duplicate ---- *)
Fixpoint dup_list (l : list node) (depth : Z) : option (list node) :=
  match l with
  | [] => Some []
  | c :: r =>
      if depth >=? c_CJSON_CIRCULAR_LIMIT then None
      else match dup_rec c (depth + 1) with
           | None => None
           | Some c' => match dup_list r depth with None => None | Some r' => Some (c' :: r') end
           end
  end.
Lemma dup_rec_unfold ty vs vi vd k cs depth :
  dup_rec (Node ty vs vi vd k cs) depth =
  match dup_list cs depth with
  | None => None
  | Some cs' => Some (Node (Z.ldiff ty c_cJSON_IsReference) vs vi vd k cs')
  end.
Proof.
  cbn [dup_rec].
  assert (G : forall l, (fix go (l : list node) : option (list node) :=
             match l with
             | [] => Some []
             | c :: r => if depth >=? c_CJSON_CIRCULAR_LIMIT then None
                         else match dup_rec c (depth + 1) with
                              | None => None
                              | Some c' => match go r with None => None | Some r' => Some (c' :: r') end
                              end
             end) l = dup_list l depth).
  { induction l as [|c r IH]; [reflexivity|]. cbn [dup_list]. rewrite IH. reflexivity. }
  rewrite G. reflexivity.
Qed.

Lemma strs_ok_dup : forall item depth x, strs_ok item -> dup_rec item depth = Some x -> strs_ok x.
Proof.
  induction item as [ty vs vi vd k cs IH] using node_ind'. intros depth x Hs E.
  rewrite dup_rec_unfold in E. destruct (dup_list cs depth) as [cs'|] eqn:D; [|discriminate].
  inversion E; subst x. apply strs_ok_unfold in Hs. destruct Hs as [H1 H2].
  apply strs_ok_unfold. split.
  - unfold str_ok in *. rewrite tymask_ldiff by reflexivity. exact H1.
  - clear E H1. revert cs' D. induction cs as [|c r IHr]; intros cs' D; cbn [dup_list] in D.
    + inversion D. constructor.
    + destruct (depth >=? c_CJSON_CIRCULAR_LIMIT); [discriminate|].
      destruct (dup_rec c (depth + 1)) as [c'|] eqn:Dc; [|discriminate].
      destruct (dup_list r depth) as [r'|] eqn:Dr; [|discriminate].
      inversion D; subst cs'. inversion IH; subst. inversion H2; subst.
      constructor; [eapply H1; eassumption | apply IHr; auto].
Qed.

(** ---- get_object_item returns one of the children ---- *)
Lemma get_object_item_cs_nth : forall cs name s j it, get_object_item_cs cs name s = Some (j, it) ->
  (s <= j)%nat /\ nth_error cs (j - s) = Some it.
Proof.
  induction cs as [|c r IH]; intros name s j it E; cbn [get_object_item_cs] in E; [discriminate|].
  destruct (n_key c) as [k|]; [|discriminate].
  destruct (strcmp name k =? 0).
  - inversion E; subst. rewrite Nat.sub_diag. split; [lia | reflexivity].
  - apply IH in E. destruct E as [E1 E2]. split; [lia|].
    replace (j - s)%nat with (S (j - S s)) by lia. exact E2.
Qed.
Lemma get_object_item_ci_nth : forall cs name s j it, get_object_item_ci cs name s = Some (j, it) ->
  (s <= j)%nat /\ nth_error cs (j - s) = Some it.
Proof.
  induction cs as [|c r IH]; intros name s j it E; cbn [get_object_item_ci] in E; [discriminate|].
  assert (R : get_object_item_ci r name (S s) = Some (j, it) -> (s <= j)%nat /\ nth_error (c :: r) (j - s) = Some it).
  { intro E'. apply IH in E'. destruct E' as [E1 E2]. split; [lia|].
    replace (j - s)%nat with (S (j - S s)) by lia. exact E2. }
  destruct (n_key c) as [k|]; [|apply R; exact E].
  destruct (case_insensitive_strcmp name k =? 0); [|apply R; exact E].
  inversion E; subst. rewrite Nat.sub_diag. split; [lia | reflexivity].
Qed.
Lemma get_object_item_nth object name cs j it :
  get_object_item object name cs = Some (j, it) -> nth_error (n_children object) j = Some it.
Proof.
  unfold get_object_item. destruct name as [nm|]; [|discriminate]. destruct cs; intro E.
  - apply get_object_item_cs_nth in E. rewrite Nat.sub_0_r in E. apply E.
  - apply get_object_item_ci_nth in E. rewrite Nat.sub_0_r in E. apply E.
Qed.
Lemma strs_ok_member object name cs j it : strs_ok object -> get_object_item object name cs = Some (j, it) -> strs_ok it.
Proof.
  intros H E. apply get_object_item_nth in E. eapply Forall_nth_error; [apply strs_ok_children; exact H | exact E].
Qed.

Lemma nth_z_nth (l : list node) idx it : nth_z l idx = Some it -> nth_error l (Z.to_nat idx) = Some it.
Proof. unfold nth_z. destruct ((0 <=? idx) && (idx <? Z.of_nat (length l))); [tauto | discriminate]. Qed.

(** ---- compare_json: no fault, operands stay well-formed ---- *)
Definition cmp_good (r : res (bool * node * node)) : Prop :=
  exists v a' b', r = Ok (v, a', b') /\ strs_ok a' /\ strs_ok b'.

Lemma cmp_arr_good rec : forall la lb,
  Forall strs_ok la -> Forall strs_ok lb ->
  (forall x y, In x la -> strs_ok x -> strs_ok y -> cmp_good (rec x y)) ->
  exists v la' lb', cmp_arr rec la lb = Ok (v, la', lb') /\ Forall strs_ok la' /\ Forall strs_ok lb'.
Proof.
  induction la as [|x la IH]; intros lb Ha Hb H; destruct lb as [|y lb]; cbn [cmp_arr];
    try (do 3 eexists; split; [reflexivity | split; assumption]).
  inversion Ha; subst. inversion Hb; subst.
  destruct (H x y (or_introl eq_refl)) as (v & x' & y' & E & Hx & Hy); try assumption.
  rewrite E. cbn [bind]. destruct v.
  - destruct (IH lb) as (v2 & la2 & lb2 & E2 & H2a & H2b); try assumption.
    { intros; apply H; try assumption. right; assumption. }
    rewrite E2. cbn [bind]. do 3 eexists. split; [reflexivity|]. split; constructor; assumption.
  - do 3 eexists. split; [reflexivity|]. split; constructor; assumption.
Qed.

Lemma cmp_obj_good rec cs : forall la lb,
  Forall strs_ok la -> Forall strs_ok lb ->
  (forall x y, In x la -> strs_ok x -> strs_ok y -> cmp_good (rec x y)) ->
  exists v la' lb', cmp_obj rec cs la lb = Ok (v, la', lb') /\ Forall strs_ok la' /\ Forall strs_ok lb'.
Proof.
  induction la as [|x la IH]; intros lb Ha Hb H; destruct lb as [|y lb]; cbn [cmp_obj];
    try (do 3 eexists; split; [reflexivity | split; assumption]).
  destruct (negb (compare_strings (n_key x) (n_key y) cs =? 0)).
  { do 3 eexists; split; [reflexivity | split; assumption]. }
  inversion Ha; subst. inversion Hb; subst.
  destruct (H x y (or_introl eq_refl)) as (v & x' & y' & E & Hx & Hy); try assumption.
  rewrite E. cbn [bind]. destruct v.
  - destruct (IH lb) as (v2 & la2 & lb2 & E2 & H2a & H2b); try assumption.
    { intros; apply H; try assumption. right; assumption. }
    rewrite E2. cbn [bind]. do 3 eexists. split; [reflexivity|]. split; constructor; assumption.
  - do 3 eexists. split; [reflexivity|]. split; constructor; assumption.
Qed.

Lemma Forall_perm {A} (P : A -> Prop) l l' : Permutation l l' -> Forall P l -> Forall P l'.
Proof. intros Hp H. rewrite Forall_forall in *. intros x Hx. apply H. eapply Permutation_in; [apply Permutation_sym; exact Hp | exact Hx]. Qed.

Lemma compare_json_good : forall fuel a b cs, (node_depth a <= fuel)%nat -> strs_ok a -> strs_ok b ->
  cmp_good (compare_json fuel a b cs).
Proof.
  induction fuel as [|f IH]; intros a b cs Hd Ha Hb.
  - destruct a. rewrite node_depth_eq in Hd. lia.
  - cbn [compare_json]. unfold cmp_good.
    destruct (negb (tymask (n_ty a) =? tymask (n_ty b))) eqn:Et; [do 3 eexists; split; [reflexivity | split; assumption]|].
    destruct (tymask (n_ty a) =? c_cJSON_Number); [do 3 eexists; split; [reflexivity | split; assumption]|].
    destruct (tymask (n_ty a) =? c_cJSON_String) eqn:Es.
    { apply negb_false_iff in Et. apply Z.eqb_eq in Et. apply Z.eqb_eq in Es.
      destruct (strs_ok_vstr a Ha) as (x & Ex); [unfold is_string, is_type; apply Z.eqb_eq; exact Es|].
      destruct (strs_ok_vstr b Hb) as (y & Ey); [unfold is_string, is_type; apply Z.eqb_eq; congruence|].
      rewrite Ex, Ey. do 3 eexists; split; [reflexivity | split; assumption]. }
    destruct (tymask (n_ty a) =? c_cJSON_Array).
    { destruct (cmp_arr_good (fun x y => compare_json f x y cs) (n_children a) (n_children b)) as (v & la' & lb' & E & H1 & H2).
      - apply strs_ok_children; assumption.
      - apply strs_ok_children; assumption.
      - intros x y Hx Hsx Hsy. apply IH; try assumption. pose proof (depth_child a x Hx). lia.
      - rewrite E. cbn [bind]. do 3 eexists. split; [reflexivity|]. split; apply strs_ok_set_children; assumption. }
    destruct (tymask (n_ty a) =? c_cJSON_Object); [|do 3 eexists; split; [reflexivity | split; assumption]].
    destruct (sort_object_ok a cs) as (ra & Hra & Pa). destruct (sort_object_ok b cs) as (rb & Hrb & Pb).
    rewrite Hra. cbn [bind]. rewrite Hrb. cbn [bind]. rewrite !n_children_set.
    destruct (cmp_obj_good (fun x y => compare_json f x y cs) cs ra rb) as (v & la' & lb' & E & H1 & H2).
    + eapply Forall_perm; [exact Pa | apply strs_ok_children; assumption].
    + eapply Forall_perm; [exact Pb | apply strs_ok_children; assumption].
    + intros x y Hx Hsx Hsy. apply IH; try assumption.
      assert (In x (n_children a)) by (eapply Permutation_in; [apply Permutation_sym; exact Pa | exact Hx]).
      pose proof (depth_child a x H). lia.
    + rewrite E. cbn [bind]. do 3 eexists. split; [reflexivity|].
      split; apply strs_ok_set_children; try assumption; apply strs_ok_set_children; try assumption.
      * eapply Forall_perm; [exact Pa | apply strs_ok_children; assumption].
      * eapply Forall_perm; [exact Pb | apply strs_ok_children; assumption].
Qed.

(** ---- detach_path, finish_add, apply_patch ---- *)
Lemma detach_path_good object path cs : strs_ok object ->
  exists r, detach_path object path cs = Ok r /\
            match r with Some (it, o') => strs_ok it /\ strs_ok o' | None => True end.
Proof.
  intro Ho. unfold detach_path.
  destruct (last_slash path 0 None) as [i|]; [|eexists; split; [reflexivity | exact I]].
  destruct (get_item_from_pointer object (firstn i path) cs) as [pp|]; [|eexists; split; [reflexivity | exact I]].
  destruct (subtree object pp) as [par|] eqn:Sp; [|eexists; split; [reflexivity | exact I]].
  assert (Hpar : strs_ok par) by (eapply strs_ok_subtree; eassumption).
  destruct (is_array par).
  { destruct (decode_array_index_from_pointer (skipn (S i) path)) as [idx|]; [|eexists; split; [reflexivity | exact I]].
    destruct (nth_z (n_children par) idx) as [it|] eqn:N; [|eexists; split; [reflexivity | exact I]].
    eexists; split; [reflexivity|]. split.
    - eapply Forall_nth_error; [apply strs_ok_children; exact Hpar | apply nth_z_nth; exact N].
    - apply strs_ok_put; [exact Ho|]. apply strs_ok_set_children; [exact Hpar|].
      apply Forall_remove_nth. apply strs_ok_children; exact Hpar. }
  destruct (is_object par); [|eexists; split; [reflexivity | exact I]].
  destruct (decode_pointer_inplace_safe (skipn (S i) path)) as (b & Hb & _). rewrite Hb. cbn [bind].
  destruct (get_object_item par (Some (cstr b)) cs) as [[j it]|] eqn:G; [|eexists; split; [reflexivity | exact I]].
  eexists; split; [reflexivity|]. split.
  - eapply strs_ok_member; eassumption.
  - apply strs_ok_put; [exact Ho|]. apply strs_ok_set_children; [exact Hpar|].
    apply Forall_remove_nth. apply strs_ok_children; exact Hpar.
Qed.

Lemma finish_add_good object value pstr cs : strs_ok object -> strs_ok value ->
  exists st o, finish_add object value pstr cs = Ok (st, o) /\ strs_ok o.
Proof.
  intros Ho Hv. unfold finish_add. destruct pstr as [|c0 p0].
  { do 2 eexists; split; [reflexivity|]. apply strs_ok_unnamed; exact Hv. }
  destruct (last_slash (c0 :: p0) 0 None) as [i|]; [|do 2 eexists; split; [reflexivity | exact Ho]].
  destruct (get_item_from_pointer object (firstn i (c0 :: p0)) cs) as [pp|]; [|do 2 eexists; split; [reflexivity | exact Ho]].
  destruct (subtree object pp) as [par|] eqn:Sp; [|do 2 eexists; split; [reflexivity | exact Ho]].
  assert (Hpar : strs_ok par) by (eapply strs_ok_subtree; [exact Ho | exact Sp]).
  destruct (is_array par).
  { destruct (strcmp (skipn (S i) (c0 :: p0)) s_dash =? 0).
    { do 2 eexists; split; [reflexivity|]. apply strs_ok_put; [exact Ho|]. apply strs_ok_set_children; [exact Hpar|].
      apply Forall_app. split; [apply strs_ok_children; exact Hpar | constructor; [exact Hv | constructor]]. }
    destruct (decode_array_index_from_pointer (skipn (S i) (c0 :: p0))) as [idx|]; [|do 2 eexists; split; [reflexivity | exact Ho]].
    destruct (idx >? Z.of_nat (length (n_children par))); [do 2 eexists; split; [reflexivity | exact Ho]|].
    do 2 eexists; split; [reflexivity|]. apply strs_ok_put; [exact Ho|]. apply strs_ok_set_children; [exact Hpar|].
    apply Forall_insert_nth; [exact Hv | apply strs_ok_children; exact Hpar]. }
  destruct (is_object par); [|do 2 eexists; split; [reflexivity | exact Ho]].
  destruct (decode_pointer_inplace_safe (skipn (S i) (c0 :: p0))) as (b & Hb & _). rewrite Hb. cbn [bind].
  do 2 eexists; split; [reflexivity|]. apply strs_ok_put; [exact Ho|]. apply strs_ok_set_children; [exact Hpar|].
  apply Forall_app. split; [|constructor; [apply strs_ok_keyed; exact Hv | constructor]].
  destruct (get_object_item par (Some (cstr b)) cs) as [[j it]|]; [apply Forall_remove_nth|]; apply strs_ok_children; exact Hpar.
Qed.

Lemma decode_patch_operation_good patch cs : strs_ok patch -> exists opc, decode_patch_operation patch cs = Ok opc.
Proof.
  intro Hp. unfold decode_patch_operation.
  destruct (get_object_item patch (Some s_op) cs) as [[j operation]|] eqn:G; [|eexists; reflexivity].
  destruct (negb (is_string operation)) eqn:Es; [eexists; reflexivity|].
  apply negb_false_iff in Es.
  destruct (strs_ok_vstr operation) as (s & E); [eapply strs_ok_member; eassumption | exact Es|].
  rewrite E.
  repeat match goal with |- exists _, (if ?c then _ else _) = _ => destruct c; [eexists; reflexivity|] end.
  eexists; reflexivity.
Qed.

Definition ap_good (r : res (Z * node * node)) : Prop :=
  exists st o p', r = Ok (st, o, p') /\ strs_ok o /\ strs_ok p'.

Lemma ap_good_ok st o p : strs_ok o -> strs_ok p -> ap_good (Ok (st, o, p)).
Proof. intros; do 3 eexists; split; [reflexivity | split; assumption]. Qed.

Lemma strs_ok_invalid : strs_ok invalid_node.
Proof. unfold invalid_node. apply strs_ok_unfold. split; [intro H; discriminate | constructor]. Qed.

Lemma apply_patch_good object patch cs : strs_ok object -> strs_ok patch -> ap_good (apply_patch object patch cs).
Proof.
  intros Ho Hp. unfold apply_patch.
  destruct (get_object_item patch (Some s_path) cs) as [[j pathn]|] eqn:Gp; [|apply ap_good_ok; assumption].
  destruct (negb (is_string pathn)) eqn:Es; [apply ap_good_ok; assumption|].
  apply negb_false_iff in Es.
  destruct (strs_ok_vstr pathn) as (pstr & Ep); [eapply strs_ok_member; eassumption | exact Es|].
  destruct (decode_patch_operation_good patch cs Hp) as (opc & Eo). rewrite Eo. cbn [bind]. rewrite Ep.
  (* the pieces used by several branches *)
  assert (Hval : forall vi v, get_object_item patch (Some s_value) cs = Some (vi, v) -> strs_ok v)
    by (intros; eapply strs_ok_member; eassumption).
  assert (Hfin : forall obj v, strs_ok obj -> strs_ok v ->
            ap_good (x <- finish_add obj v pstr cs ;; (let (st, o) := x in Ok (st, o, patch)))).
  { intros obj v H1 H2. destruct (finish_add_good obj v pstr cs H1 H2) as (st & o & E & H3). rewrite E. cbn [bind].
    apply ap_good_ok; assumption. }
  assert (Hdupv : forall obj, strs_ok obj ->
            ap_good match get_object_item patch (Some s_value) cs with
                    | Some (_, v0) => match cJSON_Duplicate v0 with
                                      | Some v => x <- finish_add obj v pstr cs ;; (let (st, o) := x in Ok (st, o, patch))
                                      | None => Ok (8, obj, patch)
                                      end
                    | None => Ok (7, obj, patch)
                    end).
  { intros obj H1. destruct (get_object_item patch (Some s_value) cs) as [[vi v0]|] eqn:Gv; [|apply ap_good_ok; assumption].
    destruct (cJSON_Duplicate v0) as [v|] eqn:D; [|apply ap_good_ok; assumption].
    apply Hfin; [exact H1|]. eapply strs_ok_dup; [eapply Hval; first [exact Gv | reflexivity] | exact D]. }
  destruct opc; cbn [andb orb].
  - (* INVALID *) apply ap_good_ok; assumption.
  - (* ADD *)
    destruct (is_nil pstr) eqn:En; cbn [andb orb].
    + destruct (get_object_item patch (Some s_value) cs) as [[vi v0]|] eqn:Gv; [|apply ap_good_ok; assumption].
      destruct (cJSON_Duplicate v0) as [v|] eqn:D; [|apply ap_good_ok; assumption].
      apply ap_good_ok; [|assumption]. apply strs_ok_unnamed. eapply strs_ok_dup; [eapply Hval; first [exact Gv | reflexivity] | exact D].
    + apply Hdupv. exact Ho.
  - (* REMOVE *)
    destruct (is_nil pstr); cbn [andb orb]; [apply ap_good_ok; [apply strs_ok_invalid | assumption]|].
    destruct (detach_path_good object pstr cs Ho) as (r & Er & Hr). rewrite Er. cbn [bind].
    destruct r as [[it o']|]; [apply ap_good_ok; tauto | apply ap_good_ok; assumption].
  - (* REPLACE *)
    destruct (is_nil pstr) eqn:En; cbn [andb orb].
    + destruct (get_object_item patch (Some s_value) cs) as [[vi v0]|] eqn:Gv; [|apply ap_good_ok; assumption].
      destruct (cJSON_Duplicate v0) as [v|] eqn:D; [|apply ap_good_ok; assumption].
      apply ap_good_ok; [|assumption]. apply strs_ok_unnamed. eapply strs_ok_dup; [eapply Hval; first [exact Gv | reflexivity] | exact D].
    + destruct (detach_path_good object pstr cs Ho) as (r & Er & Hr). rewrite Er. cbn [bind].
      destruct r as [[it o']|]; [|apply ap_good_ok; assumption].
      apply Hdupv. tauto.
  - (* MOVE *)
    rewrite !andb_false_r. cbn [bind].
    destruct (get_object_item patch (Some s_from) cs) as [[fj fromn]|] eqn:Gf; [|apply ap_good_ok; assumption].
    destruct (negb (is_string fromn)) eqn:Ef; [apply ap_good_ok; assumption|].
    apply negb_false_iff in Ef.
    destruct (strs_ok_vstr fromn) as (fstr & Efs); [eapply strs_ok_member; eassumption | exact Ef|].
    rewrite Efs.
    destruct (bytes_eqb (firstn (length fstr) pstr) fstr && (hd 0 (skipn (length fstr) pstr) =? 47)); [apply ap_good_ok; assumption|].
    destruct (detach_path_good object fstr cs Ho) as (r & Er & Hr). rewrite Er. cbn [bind].
    destruct r as [[v o2]|]; [|apply ap_good_ok; assumption].
    apply Hfin; tauto.
  - (* COPY *)
    rewrite !andb_false_r. cbn [bind].
    destruct (get_object_item patch (Some s_from) cs) as [[fj fromn]|] eqn:Gf; [|apply ap_good_ok; assumption].
    destruct (negb (is_string fromn)) eqn:Ef; [apply ap_good_ok; assumption|].
    destruct (match n_vstr fromn with
              | Some fstr => match get_item_from_pointer object fstr cs with Some fp => subtree object fp | None => None end
              | None => None end) as [v0|] eqn:Ev; [|apply ap_good_ok; assumption].
    destruct (cJSON_Duplicate v0) as [v|] eqn:D; [|apply ap_good_ok; assumption].
    apply Hfin; [exact Ho|]. eapply strs_ok_dup; [|exact D].
    destruct (n_vstr fromn) as [fstr|]; [|discriminate].
    destruct (get_item_from_pointer object fstr cs) as [fp|]; [|discriminate].
    eapply strs_ok_subtree; [exact Ho | exact Ev].
  - (* TEST *)
    destruct (get_item_from_pointer object pstr cs) as [tp|]; [|apply ap_good_ok; assumption].
    destruct (get_object_item patch (Some s_value) cs) as [[vi v]|] eqn:Gv; [|apply ap_good_ok; assumption].
    destruct (subtree object tp) as [a|] eqn:Sa; [|apply ap_good_ok; assumption].
    destruct (compare_json_good (node_depth a) a v cs) as (r & a' & v' & E & Ha' & Hv'); [lia | eapply strs_ok_subtree; [exact Ho | exact Sa] | eapply Hval; first [exact Gv | reflexivity]|].
    rewrite E. cbn [bind]. apply ap_good_ok.
    + apply strs_ok_put; assumption.
    + apply strs_ok_set_children; [exact Hp|]. apply Forall_replace_nth; [exact Hv' | apply strs_ok_children; exact Hp].
Qed.

Lemma apply_loop_good : forall ps object cs, strs_ok object -> Forall strs_ok ps ->
  exists st o ps', apply_loop object ps cs = Ok (st, o, ps') /\ strs_ok o /\ Forall strs_ok ps'.
Proof.
  induction ps as [|p r IH]; intros object cs Ho Hps; cbn [apply_loop].
  - do 3 eexists. split; [reflexivity | split; [exact Ho | constructor]].
  - inversion Hps as [|? ? Hp0 Hr0]; subst.
    destruct (apply_patch_good object p cs Ho) as (st & o & p' & E & H1 & H2'); [assumption|].
    rewrite E. cbn [bind]. destruct (negb (st =? 0)).
    + do 3 eexists. split; [reflexivity | split; [exact H1 | constructor; assumption]].
    + destruct (IH o cs H1) as (st2 & o2 & r' & E2 & H3 & H4); [assumption|].
      rewrite E2. cbn [bind]. do 3 eexists. split; [reflexivity | split; [exact H3 | constructor; assumption]].
Qed.

(** every document, every JSON value as patch, both case modes: a status is returned and the
    document (and the patch) are again trees whose String nodes have their strings *)
Theorem apply_patches_returns object patches cs : strs_ok object -> strs_ok patches ->
  exists st o p', apply_patches object patches cs = Ok (st, o, p') /\ strs_ok o /\ strs_ok p' /\
                  (is_array patches = false -> st = 1 /\ o = object).
Proof.
  intros Ho Hp. unfold apply_patches. destruct (is_array patches) eqn:Ea; cbn [negb].
  - destruct (apply_loop_good (n_children patches) object cs Ho) as (st & o & ps' & E & H1 & H2); [apply strs_ok_children; exact Hp|].
    rewrite E. cbn [bind]. do 3 eexists. split; [reflexivity|]. repeat split; try assumption; try discriminate.
    apply strs_ok_set_children; assumption.
  - do 3 eexists. split; [reflexivity|]. repeat split; assumption.
Qed.
