(** PrintHeapEx.v — NON-VACUITY of the heap-level printer theorems: a concrete heap, built with the
    transliterated construction API (CoreDefs.v) from the empty heap,

        { s'k : a TAB b BACKSLASH c 0x01,  n : 42 (constant key),  arr : [true, null, [1.5, x NEWLINE]],
          raw : RAW {'r':1},  ref : ARRAY-REFERENCE to the first element of arr }        (' stands for the double quote)

    an object with a nested array, strings and a member name that need escapes, both number branches
    (%d and %1.15g), a raw node, a constant key, and a reference node made by cJSON_CreateArrayReference
    whose child pointer borrows the chain of [arr] (printed as the C code prints it: the referenced
    elements once more).

    * the hypotheses of the theorems hold: [WF], [refs_in], [forest_readable], the unrolling to 3 levels is
      complete, hence [heap_value ex_h 9 ex_value] with [ex_value] the value written out below;
    * the heap-level entry points, evaluated by [vm_compute] with the reference C library conversions
      (LibcPrint / LibcNum), no allocation failure, fresh memory 0xA5, in both formats, return exactly
      [render] of the reification (+ terminator): cJSON_Print_h, cJSON_PrintUnformatted_h,
      cJSON_PrintBuffered_h (prebuffer 0 and 300), cJSON_PrintPreallocated_h (a 130-byte caller buffer;
      a 100-byte one is refused);
    * the same bytes were obtained from the REAL library (cJSON_Print / cJSON_PrintUnformatted /
      cJSON_PrintBuffered / cJSON_PrintPreallocated on the same structure under ASan + UBSan): recorded
      here as [ex_text_formatted] / [ex_text_unformatted];
    * failure paths: a raw node with NULL valuestring and the NULL item print as NULL (no block left). *)
From CJ Require Import Base Dbl Tree LibcNum LibcPrint PrintDefs Heap Forest ForestLemmas CoreDefs CoreRefineDupTree
  CoreRefineDupLoop CoreRefineDupValue CoreRefineDupForest CoreRefineDupUnroll CoreRefineDupExample
  PrintHeapDefs PrintHeapRefine PrintHeapForest PrintHeapTransfer.
From CJ.gen Require Import Constants.
From stdpp Require Import gmap.
Local Open Scope Z_scope.

Definition d_15 : dbl := S754_finite false 6755399441055744 (-52).      (* 1.5 *)

Definition ex_build : M (ptr * ptr * ptr) :=
  k1 <~ foreign_bytes [115;34;107;0] ;;                    (* s, double quote, k *)
  v1 <~ foreign_bytes [97;9;98;92;99;1;0] ;;               (* a TAB b BACKSLASH c 0x01 *)
  k2 <~ foreign_bytes [110;0] ;;                           (* n: used as a constant key *)
  k3 <~ foreign_bytes [97;114;114;0] ;;                    (* arr *)
  vx <~ foreign_bytes [120;10;0] ;;                        (* x NEWLINE *)
  k4 <~ foreign_bytes [114;97;119;0] ;;                    (* raw *)
  vraw <~ foreign_bytes [123;34;114;34;58;49;125;0] ;;     (* the text of an object with member r = 1 *)
  k5 <~ foreign_bytes [114;101;102;0] ;;                   (* ref *)
  obj <~ cJSON_CreateObject orc0 ;;
  s <~ cJSON_CreateString orc0 v1 ;;
  cJSON_AddItemToObject orc0 obj k1 s ;;;
  n <~ cJSON_CreateNumber orc0 (dbl_of_int 42) ;;
  cJSON_AddItemToObjectCS orc0 obj k2 n ;;;
  arr <~ cJSON_CreateArray orc0 ;;
  t <~ cJSON_CreateTrue orc0 ;;
  cJSON_AddItemToArray arr t ;;;
  nl <~ cJSON_CreateNull orc0 ;;
  cJSON_AddItemToArray arr nl ;;;
  inner <~ cJSON_CreateArray orc0 ;;
  n15 <~ cJSON_CreateNumber orc0 d_15 ;;
  cJSON_AddItemToArray inner n15 ;;;
  sx <~ cJSON_CreateString orc0 vx ;;
  cJSON_AddItemToArray inner sx ;;;
  cJSON_AddItemToArray arr inner ;;;
  cJSON_AddItemToObject orc0 obj k3 arr ;;;
  raw <~ cJSON_CreateRaw orc0 vraw ;;
  cJSON_AddItemToObject orc0 obj k4 raw ;;;
  ar <~ cJSON_CreateArrayReference orc0 t ;;               (* child = the first element of arr *)
  cJSON_AddItemToObject orc0 obj k5 ar ;;;
  ret (obj, t, ar).

Definition ex_run := Eval vm_compute in ex_build empty_heap.
Definition ex_h : heap := match ex_run with Ret (_, h) => h | Err _ => empty_heap end.

Lemma ex_run_ok : ex_build empty_heap = Ret (Some 9%positive, Some 15%positive, Some 25%positive, ex_h).
Proof. vm_compute. reflexivity. Qed.

(** the forest the heap encodes *)
Definition e9 := mkRD 64 None 0 dzero None None.
Definition e10 := mkRD 16 (Some 11%positive) 0 dzero (Some 12%positive) None.
Definition e13 := mkRD 520 None 42 (dbl_of_int 42) (Some 3%positive) None.           (* cJSON_Number | cJSON_StringIsConst *)
Definition e14 := mkRD 32 None 0 dzero (Some 21%positive) None.
Definition e15 := mkRD 2 None 0 dzero None None.
Definition e16 := mkRD 4 None 0 dzero None None.
Definition e17 := mkRD 32 None 0 dzero None None.
Definition e18 := mkRD 8 None 1 d_15 None None.
Definition e19 := mkRD 16 (Some 20%positive) 0 dzero None None.
Definition e22 := mkRD 128 (Some 23%positive) 0 dzero (Some 24%positive) None.
Definition e25 := mkRD 288 None 0 dzero (Some 26%positive) (Some 15%positive).       (* cJSON_Array | cJSON_IsReference; child -> 15 *)

Definition ex_inner : tree := (T 17 e17 [T 18 e18 []; T 19 e19 []])%positive.
Definition ex_elems : list tree := [T 15 e15 []; T 16 e16 []; ex_inner]%positive.
Definition ex_t0 : tree :=
  (T 9 e9 [T 10 e10 []; T 13 e13 []; T 14 e14 ex_elems; T 22 e22 []; T 25 e25 []])%positive.
Definition ex_F : forest := [ex_t0].
(** what the printer reads: below the reference node 25, the elements of arr *)
Definition ex_u : tree :=
  (T 9 e9 [T 10 e10 []; T 13 e13 []; T 14 e14 ex_elems; T 22 e22 []; T 25 e25 ex_elems])%positive.

Lemma ex_WF : WF ex_h ex_F.
Proof.
  constructor.
  - dec_vm.
  - dec_vm.
  - dec_vm.
  - dec_vm.
  - apply Forall_forall. dec_vm.
  - apply Forall_forall. dec_vm.
  - apply Forall_forall. dec_vm.
  - unfold ref_ok. dec_vm.
Qed.

Definition data_readableb (h : heap) (e : fnode) : bool :=
  match rd_vstr (fn_data e) with Some b => readableb h b | None => true end &&
  match rd_key (fn_data e) with Some b => readableb h b | None => true end.
Lemma forest_readable_check h F : forallb (data_readableb h) (flat F) = true -> forest_readable h F.
Proof.
  intros H i d ks He. rewrite forallb_forall in H. specialize (H (i, d, ks) ltac:(by apply elem_of_list_In)).
  unfold data_readableb in H. cbn in H. apply andb_true_iff in H as [H1 H2]. split.
  - intros b Hb. rewrite Hb in H1. by apply readableb_sound.
  - intros b Hb. rewrite Hb in H2. by apply readableb_sound.
Qed.

Lemma ex_refs_in : refs_in ex_F.
Proof. apply refs_in_check. vm_compute. reflexivity. Qed.
Lemma ex_readable : forest_readable ex_h ex_F.
Proof. apply forest_readable_check. vm_compute. reflexivity. Qed.
Lemma ex_find : find_tree 9%positive ex_F = Some ex_t0.
Proof. reflexivity. Qed.
Lemma ex_unroll : unroll ex_F 3 ex_t0 = ex_u.
Proof. vm_compute. reflexivity. Qed.
Lemma ex_complete : complete ex_u.
Proof.
  intros i d He. unfold ex_u, ex_elems, ex_inner in He. rewrite !flat_t_unfold in He. cbn in He.
  repeat (apply elem_of_cons in He as [He|He]; [first [discriminate He|by injection He as -> ->]|]).
  by apply elem_of_nil in He.
Qed.

(** the value the heap denotes from node 9 *)
Definition ex_elems_v : list node :=
  [Node 2 None 0 dzero None []; Node 4 None 0 dzero None [];
   Node 32 None 0 dzero None [Node 8 None 1 d_15 None []; Node 16 (Some [120;10]) 0 dzero None []]].
Definition ex_value : node :=
  Node 64 None 0 dzero None
    [Node 16 (Some [97;9;98;92;99;1]) 0 dzero (Some [115;34;107]) [];
     Node 520 None 42 (dbl_of_int 42) (Some [110]) [];
     Node 32 None 0 dzero (Some [97;114;114]) ex_elems_v;
     Node 128 (Some [123;34;114;34;58;49;125]) 0 dzero (Some [114;97;119]) [];
     Node 288 None 0 dzero (Some [114;101;102]) ex_elems_v].

Lemma ex_reify : reify (h_str ex_h) ex_u = ex_value.
Proof. vm_compute. reflexivity. Qed.

Theorem ex_heap_value : heap_value ex_h 9%positive ex_value.
Proof.
  rewrite <- ex_reify, <- ex_unroll.
  apply (heap_value_forest ex_h ex_F 9%positive ex_t0 3 ex_WF ex_refs_in ex_readable ex_find).
  - rewrite ex_unroll. apply ex_complete.
  - vm_compute. lia.
Qed.

(** the texts (also: what the real library printed for this structure) *)
Definition ex_text_formatted : bytes :=
  [123; 10; 9; 34; 115; 92; 34; 107; 34; 58; 9; 34; 97; 92; 116; 98; 92; 92; 99; 92; 117; 48; 48; 48; 49; 34; 44; 10;
   9; 34; 110; 34; 58; 9; 52; 50; 44; 10;
   9; 34; 97; 114; 114; 34; 58; 9; 91; 116; 114; 117; 101; 44; 32; 110; 117; 108; 108; 44; 32; 91; 49; 46; 53; 44; 32; 34; 120; 92; 110; 34; 93; 93; 44; 10;
   9; 34; 114; 97; 119; 34; 58; 9; 123; 34; 114; 34; 58; 49; 125; 44; 10;
   9; 34; 114; 101; 102; 34; 58; 9; 91; 116; 114; 117; 101; 44; 32; 110; 117; 108; 108; 44; 32; 91; 49; 46; 53; 44; 32; 34; 120; 92; 110; 34; 93; 93; 10;
   125].
Definition ex_text_unformatted : bytes :=
  [123; 34; 115; 92; 34; 107; 34; 58; 34; 97; 92; 116; 98; 92; 92; 99; 92; 117; 48; 48; 48; 49; 34; 44;
   34; 110; 34; 58; 52; 50; 44;
   34; 97; 114; 114; 34; 58; 91; 116; 114; 117; 101; 44; 110; 117; 108; 108; 44; 91; 49; 46; 53; 44; 34; 120; 92; 110; 34; 93; 93; 44;
   34; 114; 97; 119; 34; 58; 123; 34; 114; 34; 58; 49; 125; 44;
   34; 114; 101; 102; 34; 58; 91; 116; 114; 117; 101; 44; 110; 117; 108; 108; 44; 91; 49; 46; 53; 44; 34; 120; 92; 110; 34; 93; 93;
   125].

Notation ref_render := (render fmt_d fmt_g15 fmt_g17 sscanf_lg).
Definition junk_a5 : nat -> Z := fun _ => 165.

Lemma ex_renders :
  ref_render true 0 ex_value = Some ex_text_formatted /\ ref_render false 0 ex_value = Some ex_text_unformatted.
Proof. split; vm_compute; reflexivity. Qed.

(** observables of an outcome (the result heap is the argument heap: PrintHeapRO.v) *)
Definition block_of (o : out (print_result * heap)) : option (option bytes * Z * nat) :=
  match o with Ret (r, _) => Some (prr_block r, prr_live r, prr_requests r) | Err _ => None end.
Definition prealloc_of (o : out (prealloc_result * heap)) : option (bool * option bytes * Z * nat) :=
  match o with Ret (r, _) => Some (par_flag r, par_buffer r, par_live r, par_requests r) | Err _ => None end.

Notation Print_h := (cJSON_Print_h fmt_d fmt_g15 fmt_g17 sscanf_lg orc0 junk_a5).
Notation PrintUnformatted_h := (cJSON_PrintUnformatted_h fmt_d fmt_g15 fmt_g17 sscanf_lg orc0 junk_a5).
Notation PrintBuffered_h := (cJSON_PrintBuffered_h fmt_d fmt_g15 fmt_g17 sscanf_lg orc0 junk_a5).
Notation PrintPreallocated_h := (cJSON_PrintPreallocated_h fmt_d fmt_g15 fmt_g17 sscanf_lg orc0 junk_a5).

(** evaluated through the heap-level functions: pointer 9 in [ex_h] *)
Theorem ex_prints :
  block_of (Print_h (Some 9%positive) ex_h) = Some (Some (ex_text_formatted ++ [0]), 1, 2%nat) /\
  block_of (PrintUnformatted_h (Some 9%positive) ex_h) = Some (Some (ex_text_unformatted ++ [0]), 1, 2%nat) /\
  (exists rest, block_of (PrintBuffered_h (Some 9%positive) 0 true ex_h) = Some (Some (ex_text_formatted ++ 0 :: rest), 1, 6%nat)) /\
  (exists rest, block_of (PrintBuffered_h (Some 9%positive) 300 false ex_h) = Some (Some (ex_text_unformatted ++ 0 :: rest), 1, 1%nat)) /\
  prealloc_of (PrintPreallocated_h (Some 9%positive) (Some (repeat 7 130)) 130 false ex_h)
    = Some (true, Some (ex_text_unformatted ++ 0 :: repeat 7 24), 0, 0%nat) /\
  (exists b, prealloc_of (PrintPreallocated_h (Some 9%positive) (Some (repeat 7 100)) 100 false ex_h) = Some (false, Some b, 0, 0%nat)).
Proof.
  split; [vm_compute; reflexivity|]. split; [vm_compute; reflexivity|].
  split; [eexists; vm_compute; reflexivity|]. split; [eexists; vm_compute; reflexivity|].
  split; [vm_compute; reflexivity|]. eexists; vm_compute; reflexivity.
Qed.

(** … and equal to [render] of the reification, in both formats *)
Theorem ex_prints_render :
  block_of (Print_h (Some 9%positive) ex_h)
    = option_map (fun txt => (Some (txt ++ [0]), 1, 2%nat)) (ref_render true 0 (reify (h_str ex_h) (unroll ex_F 3 ex_t0))) /\
  block_of (PrintUnformatted_h (Some 9%positive) ex_h)
    = option_map (fun txt => (Some (txt ++ [0]), 1, 2%nat)) (ref_render false 0 (reify (h_str ex_h) (unroll ex_F 3 ex_t0))).
Proof. split; vm_compute; reflexivity. Qed.

(** through the theorem (not by evaluation): the equalities of PrintHeapTransfer.v on this heap *)
Theorem ex_prints_by_theorem fmt :
  cJSON_Print_fmt_h fmt_d fmt_g15 fmt_g17 sscanf_lg orc0 junk_a5 fmt (Some 9%positive) ex_h
  = lift (print fmt_d fmt_g15 fmt_g17 sscanf_lg orc0 junk_a5 ex_value fmt (hr_of ex_h)) ex_h.
Proof. exact (heap_Print_fmt fmt_d fmt_g15 fmt_g17 sscanf_lg orc0 junk_a5 ex_h 9%positive ex_value ex_heap_value fmt). Qed.

(** a sub-structure: the reference node itself (pointer 25) prints the borrowed elements *)
Theorem ex_prints_reference_node :
  block_of (PrintUnformatted_h (Some 25%positive) ex_h)
  = Some (Some ([91; 116; 114; 117; 101; 44; 110; 117; 108; 108; 44; 91; 49; 46; 53; 44; 34; 120; 92; 110; 34; 93; 93] ++ [0]), 1, 2%nat).
Proof. vm_compute. reflexivity. Qed.

(** * failure paths *)
Definition ex2_build : M ptr := create_with_type orc0 c_cJSON_Raw.          (* a raw node whose valuestring is NULL *)
Definition ex2_run := Eval vm_compute in ex2_build empty_heap.
Definition ex2_h : heap := match ex2_run with Ret (_, h) => h | Err _ => empty_heap end.

Theorem ex_failures :
  block_of (Print_h (Some 1%positive) ex2_h) = Some (None, 0, 1%nat) /\                 (* raw, valuestring NULL *)
  ref_render true 0 (Node c_cJSON_Raw None 0 dzero None []) = None /\
  block_of (Print_h None ex_h) = Some (None, 0, 1%nat) /\                              (* item == NULL *)
  block_of (Print_h (Some 2%positive) ex_h) = None /\                                  (* not a node: error outcome *)
  prealloc_of (PrintPreallocated_h None (Some (repeat 7 10)) 10 false ex_h) = Some (false, Some (repeat 7 10), 0, 0%nat).
Proof. split_and!; vm_compute; reflexivity. Qed.

(** * a structure that is NOT finite below the item: [complete] fails, the printer does not terminate
    cJSON_AddItemReferenceToArray(a, a) on a non-empty array (public API only) appends a reference node whose
    child pointer is a->child: the chain it borrows contains the reference node itself.  The real
    cJSON_PrintUnformatted(a) recurses until the stack is exhausted (observed under ASan: stack-overflow;
    cJSON_Duplicate of the same structure stops at CJSON_CIRCULAR_LIMIT and returns NULL).  In the model: the
    heap is a well-formed forest with a live reference target, but no unrolling is complete (checked to 6
    levels), and the heap-level printer runs out of fuel — for the fuel of the public entry point and for
    ten times as much. *)
Definition ex3_build : M ptr :=
  a <~ cJSON_CreateArray orc0 ;;
  n <~ cJSON_CreateNumber orc0 (dbl_of_int 1) ;;
  cJSON_AddItemToArray a n ;;;
  cJSON_AddItemReferenceToArray orc0 a a ;;;
  ret a.
Definition ex3_run := Eval vm_compute in ex3_build empty_heap.
Definition ex3_h : heap := match ex3_run with Ret (_, h) => h | Err _ => empty_heap end.
Definition ex3_t : tree :=
  (T 1 (mkRD 32 None 0 dzero None None)
     [T 2 (mkRD 8 None 1 (dbl_of_int 1) None None) []; T 3 (mkRD 288 None 0 dzero None (Some 2%positive)) []])%positive.
Definition ex3_F : forest := [ex3_t].

Definition err_of {A} (o : out A) : option err := match o with Ret _ => None | Err e => Some e end.

(** boolean form of [complete]: no leaf keeps a child pointer *)
Definition cut_freeb (u : tree) : bool :=
  forallb (fun e : fnode => match fn_cids e, rd_ref (fn_data e) with [], Some _ => false | _, _ => true end) (flat_t u).
Lemma complete_cut_freeb u : complete u -> cut_freeb u = true.
Proof.
  intros Hu. apply forallb_forall. intros [[i d] ks] Hin. apply elem_of_list_In in Hin. cbn.
  destruct ks; [|done]. by rewrite (Hu i d Hin).
Qed.

Lemma ex3_run_ok : ex3_build empty_heap = Ret (Some 1%positive, ex3_h).
Proof. vm_compute. reflexivity. Qed.
Lemma ex3_WF : WF ex3_h ex3_F.
Proof.
  constructor.
  - dec_vm.
  - dec_vm.
  - dec_vm.
  - dec_vm.
  - apply Forall_forall. dec_vm.
  - apply Forall_forall. dec_vm.
  - apply Forall_forall. dec_vm.
  - unfold ref_ok. dec_vm.
Qed.
Lemma ex3_refs_in : refs_in ex3_F.
Proof. apply refs_in_check. vm_compute. reflexivity. Qed.
Lemma ex3_never_complete : forall k, (k <= 6)%nat -> ~ complete (unroll ex3_F k ex3_t).
Proof.
  intros k Hk Hc. apply complete_cut_freeb in Hc.
  do 7 (destruct k as [|k]; [vm_compute in Hc; discriminate Hc|]). lia.
Qed.
Lemma ex3_no_fuel :
  err_of (PrintUnformatted_h (Some 1%positive) ex3_h) = Some NoFuel /\
  err_of (print_h fmt_d fmt_g15 fmt_g17 sscanf_lg orc0 junk_a5 40 40 (Some 1%positive) false ex3_h) = Some NoFuel.
Proof. split; vm_compute; reflexivity. Qed.

Theorem ex_cyclic :
  ex3_build empty_heap = Ret (Some 1%positive, ex3_h) /\ WF ex3_h ex3_F /\ refs_in ex3_F /\
  find_tree 1%positive ex3_F = Some ex3_t /\
  (forall k, (k <= 6)%nat -> ~ complete (unroll ex3_F k ex3_t)) /\
  err_of (PrintUnformatted_h (Some 1%positive) ex3_h) = Some NoFuel /\
  err_of (print_h fmt_d fmt_g15 fmt_g17 sscanf_lg orc0 junk_a5 40 40 (Some 1%positive) false ex3_h) = Some NoFuel.
Proof.
  exact (conj ex3_run_ok (conj ex3_WF (conj ex3_refs_in (conj eq_refl (conj ex3_never_complete ex3_no_fuel))))).
Qed.
