(** CoreOpsBridgeDupEx.v — NON-VACUITY of the history theorem with [cJSON_Duplicate]
    (CoreOpsBridgeDupHist.v).

    [exD]: a 33-call history in the syntax of the EXTRACTED interpreter.  It builds an object with an
    OWNED key over an owned string, a CONSTANT key (the caller's block), a STRING REFERENCE to a
    caller string and an ARRAY REFERENCE whose child pointer designates the element of another
    array; duplicates it recursively and non-recursively; queries the copy (the former string
    reference is an owned string that is read; the former array reference is an array that owns a
    copy of the element; the flat copy has no children); deletes the SOURCE and goes on using the
    copy (the constant key is still the caller's block); duplicates the copy, a dead handle (NULL),
    NULL, and an inner node of the copy; deletes everything.

    It is accepted by the rule checker ([accepted_rulesD]; the old checker [accepted_rules] rejects it),
    and the list model and the extracted interpreter, both RUN by [vm_compute] from the empty state,
    give the same 33 results, the same pools, the same allocator counters; in the middle of the
    history (before the first deletion) the heap the interpreter reached IS the encoding of the
    model's state, compared field by field. *)
From CJ Require Import Base Dbl Heap Forest CoreSpec CoreDefs CoreRefineHistory CoreRefineHistoryObj
  CoreRefineCreate CoreHistoryAllSteps CoreHistoryAll CoreLedgerAll CoreOpsBridge CoreOpsBridgeHist CoreOpsBridgeOwned
  CoreOpsBridgeEx CoreOpsBridgeDupDefs CoreOpsBridgeDupHist.
From CJ Require CoreOps.
From Coq Require Import Floats.SpecFloat.
From stdpp Require Import gmap.
Local Open Scope Z_scope.
Import CoreOps.

Definition exD : list CoreOps.op :=
  [OString [104; 105];                                          (* s0: the caller's string "hi" *)
   OCreateObject;                                               (* h0 *)
   CoreOps.OCreateString (SPool 0);                             (* h1 = "hi" (owned copy) *)
   OAddItemToObject (IH 0) (SLit [120]) (IH 1);                 (* "x": owned key; the literal is s1 *)
   CoreOps.OCreateNumber (dbl_of_int 1);                        (* h2 *)
   OAddItemToObjectCS (IH 0) (SLit [99]) (IH 2);                (* "c": constant key = the caller's block s2 *)
   CoreOps.OCreateStringReference (SPool 0);                    (* h3: string reference to s0 *)
   OAddItemToObject (IH 0) (SLit [114]) (IH 3);                 (* "r"; s3 *)
   OCreateArray;                                                (* h4 *)
   OCreateTrue;                                                 (* h5 *)
   OAddItemToArray (IH 4) (IH 5);                               (* [true] *)
   CoreOps.OCreateArrayReference (IH 5);                        (* h6: array reference, child points into h4 *)
   OAddItemToObject (IH 0) (SLit [97]) (IH 6);                  (* "a"; s4 *)
   ODuplicate (IH 0) true;                                      (* h7: the deep copy *)
   ODuplicate (IH 0) false;                                     (* h8: the node alone *)
   OGetObjectItemCaseSensitive (IH 7) (SPool 3);                (* h9: the copy's "r": now an owned string *)
   CoreOps.OGetStringValue (IH 9);                              (* "hi" *)
   OGetObjectItem (IH 7) (SPool 4);                             (* h10: the copy's "a": an array that owns its element *)
   OGetArraySize (IH 10);
   OArrayForEach (IH 10);
   OGetArraySize (IH 8);                                        (* the flat copy has no children *)
   CoreOps.ODelete (IH 0);                                      (* the source dies; the copy is independent *)
   OGetObjectItemCaseSensitive (IH 7) (SPool 2);                (* h11: the copy's "c": key block shared with the caller *)
   CoreOps.OGetNumberValue (IH 11);
   ODuplicate (IH 7) true;                                      (* h12: a copy of the copy *)
   ODuplicate (IH 0) true;                                      (* h13: dead handle = NULL: NULL *)
   ODuplicate INull false;                                      (* h14: NULL *)
   ODuplicate (IH 10) true;                                     (* h15: an inner node of the copy *)
   CoreOps.ODelete (IH 4);
   CoreOps.ODelete (IH 7);
   CoreOps.ODelete (IH 8);
   CoreOps.ODelete (IH 12);
   CoreOps.ODelete (IH 15)].

Lemma exD_accepted : accepted_rulesD exD = true.
Proof. vm_compute. reflexivity. Qed.
(** the checker without the duplicate step rejects it *)
Lemma exD_not_accepted_before : accepted_rules exD = false.
Proof. vm_compute. reflexivity. Qed.

Definition exD_results : list CoreOps.result :=
  [RUnit; RPtr (P 2); RPtr (P 3); RFlag true; RPtr (P 7); RFlag true; RPtr (P 9); RFlag true; RPtr (P 12);
   RPtr (P 13); RFlag true; RPtr (P 14); RFlag true;
   RPtr (P 17);                                 (* the deep copy: blocks 17 … 27 *)
   RPtr (P 28);                                 (* the flat copy *)
   RPtr (P 22); RStr (Some [104; 105]); RPtr (P 25); RInt 1; RInts [2]; RInt 0; RUnit; RPtr (P 21);
   RDbl (dbl_of_int 1);
   RPtr (P 29);                                 (* the copy of the copy: blocks 29 … 39 *)
   RPtr None; RPtr None;
   RPtr (P 40);                                 (* the copy of the inner array: blocks 40 … 42 *)
   RUnit; RUnit; RUnit; RUnit; RUnit].
Definition exD_pools : CoreOps.state :=
  mkState [None; None; None; None; None; None; None; None; None; None; None; None; None; None; None; None]
          [P 1; P 5; P 8; P 10; P 15].

(** the list model: results, final pools, empty forest, allocator counters *)
Lemma exD_model :
  match runRD empty_state S0 exD with
  | Some (xs, st, S') => Some (xs, st, a_forest S', nxt S', req S') | None => None end =
  Some (exD_results, exD_pools, [], 43%positive, 37%nat).
Proof. vm_compute. reflexivity. Qed.

(** the extracted interpreter, RUN: the same results, pools and counters; no live library block left *)
Lemma exD_run :
  match run_ops nv empty_state exD empty_heap with
  | Ret ((xs, st), h) => Some (xs, st, live_count h, h_next h, h_req h)
  | Err _ => None
  end = Some (exD_results, exD_pools, 0%nat, 43%positive, 37%nat).
Proof. vm_compute. reflexivity. Qed.

(** in the middle (after the two duplications and the queries, before the first deletion): the heap
    the interpreter reached is the canonical encoding of the model's forest, the string heaps and
    the counters agree, the live library blocks are as many as the model owns *)
Definition model_obs (S : astate2) :=
  (map_to_list (heap_lnk_of (a_forest S)), map_to_list (heap_dat_of (a_forest S)), map_to_list (a_str S),
   nxt S, req S, length (owned (a_forest S))).
Definition heap_obsD (h : heap) :=
  (map_to_list (h_lnk h), map_to_list (h_dat h), map_to_list (h_str h), h_next h, h_req h, live_count h).
Lemma exD_same_state :
  match runRD empty_state S0 (take 21 exD) with Some (_, _, S') => Some (model_obs S') | None => None end =
  match run_ops nv empty_state (take 21 exD) empty_heap with Ret (_, h) => Some (heap_obsD h) | Err _ => None end /\
  match runRD empty_state S0 (take 21 exD) with Some (_, _, S') => length (owned (a_forest S')) | None => 0%nat end = 23%nat.
Proof. vm_compute. split; reflexivity. Qed.

(** the copy in the model: reference bits cleared, own strings, the constant key shared (block 8),
    the former array reference owns a copy of the element *)
Definition exD_copy : tree :=
  T 17 (mkRD 64 None 0 dzero None None)
    [T 18 (mkRD 16 (Some 19%positive) 0 dzero (Some 20%positive) None) [];
     T 21 (mkRD 520 None 1 (dbl_of_int 1) (Some 8%positive) None) [];
     T 22 (mkRD 16 (Some 23%positive) 0 dzero (Some 24%positive) None) [];
     T 25 (mkRD 32 None 0 dzero (Some 26%positive) None) [T 27 (mkRD 2 None 0 dzero None None) []]].
Lemma exD_copy_in_model :
  match runRD empty_state S0 (take 14 exD) with Some (_, _, S') => last (a_forest S') | None => None end = Some exD_copy.
Proof. vm_compute. reflexivity. Qed.

(** the theorem applies *)
Corollary exD_history :
  exists h', run_ops nv empty_state exD empty_heap = Ret ((exD_results, exD_pools), h') /\ lib_live h' = ∅.
Proof.
  pose proof exD_model as E. destruct (runRD empty_state S0 exD) as [[[xs st] S']|] eqn:Er; [|done].
  injection E as -> -> HF _ _. destruct (ledger_extractedD _ _ _ _ Er) as (h1 & h2 & H1 & HA & _).
  exists h1. split; [done|]. by apply (Abs3_no_roots _ _ HA).
Qed.

(** * the depth limit

    [exC] builds a CYCLIC structure with the public API alone: the array [h0 = [true, r]] where [r]
    is an array reference whose child pointer designates the first element of [h0] — what the
    duplication reads below [r] is the chain [true, r] again.  [cJSON_Duplicate(h0, 1)] descends
    CJSON_CIRCULAR_LIMIT levels, is refused there (NULL) and releases the 20001 nodes it has built;
    the allocator counters have advanced by as many requests.  The history is accepted; the list
    model computes NULL, the counters, and hence the identities of the items created AFTERWARDS
    (20005, 20006), without building anything.  What the extracted interpreter does on [exC] is
    then a CONSEQUENCE of the history theorem ([exC_history]); running it by [vm_compute] (about
    three minutes and 19 GB, therefore not part of the build) gives exactly these results and counters. *)
Definition exC : list CoreOps.op :=
  [OCreateArray;                                  (* h0 *)
   OCreateTrue;                                   (* h1 *)
   OAddItemToArray (IH 0) (IH 1);                 (* [true] *)
   CoreOps.OCreateArrayReference (IH 1);          (* h2: child = h1, i.e. the chain of h0's children *)
   OAddItemToArray (IH 0) (IH 2);                 (* [true, r]: below r the walk sees [true, r] again *)
   ODuplicate (IH 0) true;                        (* h3: refused at the depth limit: NULL *)
   OCreateNull;                                   (* h4: its identity shows how far the counter advanced *)
   ODuplicate (IH 2) false;                       (* h5: the reference node alone can be copied *)
   CoreOps.ODelete (IH 0); CoreOps.ODelete (IH 4); CoreOps.ODelete (IH 5)].

Definition exC_results : list CoreOps.result :=
  [RPtr (P 1); RPtr (P 2); RFlag true; RPtr (P 3); RFlag true; RPtr None; RPtr (P 20005); RPtr (P 20006);
   RUnit; RUnit; RUnit].
Definition exC_pools : CoreOps.state := mkState [None; None; None; None; None; None] [].

Lemma exC_accepted : accepted_rulesD exC = true.
Proof. vm_compute. reflexivity. Qed.
Lemma exC_model :
  match runRD empty_state S0 exC with
  | Some (xs, st, S') => Some (xs, st, a_forest S', nxt S', Z.of_nat (req S')) | None => None end =
  Some (exC_results, exC_pools, [], 20007%positive, 20006).
Proof. vm_compute. reflexivity. Qed.

(** by the theorem (not by running): the extracted interpreter returns these results, the refused
    duplicate included, ends with these counters and an empty ledger *)
Corollary exC_history :
  exists h', run_ops nv empty_state exC empty_heap = Ret ((exC_results, exC_pools), h') /\
             lib_live h' = ∅ /\ h_next h' = 20007%positive /\ Z.of_nat (h_req h') = 20006.
Proof.
  pose proof exC_model as E. destruct (runRD empty_state S0 exC) as [[[xs st] S']|] eqn:Er; [|discriminate E].
  injection E as Hxs Hst HF Hn Hr. destruct (ledger_extractedD _ _ _ _ Er) as (h1 & h2 & H1 & HA & _).
  exists h1. split; [rewrite <- Hxs, <- Hst; exact H1|]. split; [exact (Abs3_no_roots _ _ HA HF)|].
  destruct HA as [((_ & _ & Hnext & Hreq) & _) _]. unfold nxt in Hn. unfold req in Hr.
  split; [exact (eq_trans Hnext Hn)|]. rewrite Hreq. exact Hr.
Qed.
