(** PrintFailExt.v — C08 for the printers, the "completes normally" half made exact.

    A printing call consults the failure schedule only at the indices of the requests it actually
    makes: if two schedules agree below the number of requests the call made under the first, the call
    returns the same result under the second ([print_ext], [print_buffered_ext]).  Consequences:
      * a call none of whose requests was refused completes normally — in particular the schedule
        "the k-th request fails" with k beyond the requests of the failure-free run;
      * a call that returns NULL on a printable tree (text below INT_MAX) was refused one of the
        requests it made: allocation failure is the only cause of failure.
    Proofs only. *)
From CJ Require Import Base Dbl Tree PrintDefs PrintLemmas PrintString PrintProofs PrintFail.
From Coq Require Import Lia ZArith List Bool.
Import ListNotations.
Local Open Scope Z_scope.

Section Ext.
  Variable o1 o2 : nat -> bool.
  Variable junk : nat -> Z.

  Notation printbuffer := PrintDefs.printbuffer.

  Definition agree_below (N : nat) : Prop := forall k, (k < N)%nat -> o2 k = o1 k.

  (** [f2] (under schedule o2) reproduces every run of [f1] (under o1) whose requests lie below a
      bound under which the schedules agree; requests are only ever added *)
  Definition ext (f1 f2 : printbuffer -> res (bool * printbuffer)) : Prop :=
    forall p ok p', f1 p = Ok (ok, p') ->
      (pb_req p <= pb_req p')%nat /\
      (forall N, agree_below N -> (pb_req p' <= N)%nat -> f2 p = Ok (ok, p')).

  Ltac req_lia := cbn [pb_req set_offset set_depth set_buf set_length set_alloc] in *; lia.

  (* close a goal [ext]-conclusion at an exit: replay the recorded steps under o2 *)
  Ltac replay N A :=
    repeat (cbn [bind negb];
            match goal with
            | T : _ |- _ => rewrite (T N A) by req_lia
            | H : _ = Ok _ |- _ => rewrite H
            | H : pb_buf _ = Some _ |- _ => rewrite H
            | H : (_ <? _) = _ |- _ => rewrite H
            | H : (_ =? _) = _ |- _ => rewrite H
            | H : pb_format _ = _ |- _ => rewrite H
            end);
    cbn [bind negb]; reflexivity.
  Ltac finish unf := split; [req_lia|]; let N := fresh "N" in let A := fresh "A" in let HN := fresh "HN" in
                     intros N A HN; unf; replay N A.

  Lemma put_req p i l p' : put p i l = Ok p' -> pb_req p' = pb_req p.
  Proof.
    unfold put. destruct (pb_buf p); [|discriminate]. intros E. bind_inv E b' Eb. injection E as <-. reflexivity.
  Qed.
  Lemma update_offset_req p p' : update_offset p = Ok p' -> pb_req p' = pb_req p.
  Proof.
    unfold update_offset. destruct (pb_buf p); [|intros [= <-]; reflexivity].
    intros E. bind_inv E k Ek. injection E as <-. reflexivity.
  Qed.

  Lemma ensure_ext needed : ext (fun p => ensure o1 junk p needed) (fun p => ensure o2 junk p needed).
  Proof.
    intros p ok p'. cbn beta. unfold ensure.
    destruct (pb_buf p) as [buf|]; [|intros [= <- <-]; split; [lia|reflexivity]].
    destruct ((0 <? pb_length p) && (pb_length p <=? pb_offset p)); [intros [= <- <-]; split; [lia|reflexivity]|].
    destruct (c_INT_MAX <? needed); [intros [= <- <-]; split; [lia|reflexivity]|].
    destruct (needed + pb_offset p + 1 <=? pb_length p); [intros [= <- <-]; split; [lia|reflexivity]|].
    destruct (pb_noalloc p); [intros [= <- <-]; split; [lia|reflexivity]|].
    destruct ((c_INT_MAX / 2 <? needed + pb_offset p + 1) && negb (needed + pb_offset p + 1 <=? c_INT_MAX));
      [intros [= <- <-]; split; [lia|reflexivity]|].
    destruct (pb_realloc p).
    - unfold reallocate. destruct (o1 (pb_req p)) eqn:O1; intros [= <- <-];
        (split; [cbn; lia|]); intros N A HN; rewrite (A (pb_req p)) by (cbn in HN; lia); rewrite O1; reflexivity.
    - unfold allocate. destruct (o1 (pb_req p)) eqn:O1.
      + intros [= <- <-]. split; [cbn; lia|]. intros N A HN. rewrite (A (pb_req p)) by (cbn in HN; lia). rewrite O1. reflexivity.
      + intros E. bind_inv E nb Enb. injection E as <- <-. split; [cbn; lia|].
        intros N A HN. rewrite (A (pb_req p)) by (cbn in HN; lia). rewrite O1, Enb. reflexivity.
  Qed.

  Lemma print_literal_ext needed lit :
    ext (fun p => print_literal o1 junk p needed lit) (fun p => print_literal o2 junk p needed lit).
  Proof.
    intros p ok p' E. cbn beta in *. unfold print_literal in E.
    bind_inv E r1 E1. destruct r1 as (ok1 & p1). destruct (ensure_ext needed p ok1 p1 E1) as (L1 & T1). cbn beta in T1.
    destruct ok1; cbn [negb] in E.
    - bind_inv E p2 E2. pose proof (put_req _ _ _ _ E2) as R2. injection E as <- <-.
      finish ltac:(unfold print_literal).
    - injection E as <- <-. finish ltac:(unfold print_literal).
  Qed.

  Section Libc.
    Variable fmt_d : Z -> bytes.
    Variable fmt_g15 fmt_g17 : dbl -> bytes.
    Variable sscanf_lg : bytes -> option dbl.

    Notation print_value o := (PrintDefs.print_value fmt_d fmt_g15 fmt_g17 sscanf_lg o junk).
    Notation print_number o := (PrintDefs.print_number fmt_d fmt_g15 fmt_g17 sscanf_lg o junk).

    Lemma print_number_ext vi d : ext (print_number o1 vi d) (print_number o2 vi d).
    Proof.
      intros p ok p' E. unfold PrintDefs.print_number in E.
      bind_inv E txt Etxt.
      destruct (c_NUMBER_BUFFER_SIZE - 1 <? zlen txt) eqn:Hlen.
      { injection E as <- <-. finish ltac:(unfold PrintDefs.print_number). }
      bind_inv E r1 E1. destruct r1 as (ok1 & p1). destruct (ensure_ext _ p ok1 p1 E1) as (L1 & T1). cbn beta in T1.
      destruct ok1; cbn [negb] in E.
      - bind_inv E p2 E2. pose proof (put_req _ _ _ _ E2) as R2. injection E as <- <-.
        finish ltac:(unfold PrintDefs.print_number).
      - injection E as <- <-. finish ltac:(unfold PrintDefs.print_number).
    Qed.

    Lemma print_string_ptr_ext input : ext (print_string_ptr o1 junk input) (print_string_ptr o2 junk input).
    Proof.
      intros p ok p' E. unfold print_string_ptr in E. destruct input as [s0|].
      - bind_inv E r1 E1. destruct r1 as (ok1 & p1). destruct (ensure_ext _ p ok1 p1 E1) as (L1 & T1). cbn beta in T1.
        destruct ok1; cbn [negb] in E; [|injection E as <- <-; finish ltac:(unfold print_string_ptr)].
        destruct (escape_characters (cstr s0) =? 0) eqn:Hesc.
        + bind_inv E p2 E2. bind_inv E p3 E3. bind_inv E p4 E4. bind_inv E p5 E5. injection E as <- <-.
          pose proof (put_req _ _ _ _ E2) as R2. pose proof (put_req _ _ _ _ E3) as R3.
          pose proof (put_req _ _ _ _ E4) as R4. pose proof (put_req _ _ _ _ E5) as R5.
          finish ltac:(unfold print_string_ptr).
        + bind_inv E p2 E2. pose proof (put_req _ _ _ _ E2) as R2.
          destruct (pb_buf p2) as [buf|] eqn:Hb2; [|discriminate].
          bind_inv E r3 E3. destruct r3 as (buf' & op).
          bind_inv E p4 E4. bind_inv E p5 E5. injection E as <- <-.
          pose proof (put_req _ _ _ _ E4) as R4. pose proof (put_req _ _ _ _ E5) as R5.
          finish ltac:(unfold print_string_ptr).
      - bind_inv E r1 E1. destruct r1 as (ok1 & p1). destruct (ensure_ext _ p ok1 p1 E1) as (L1 & T1). cbn beta in T1.
        destruct ok1; cbn [negb] in E; [|injection E as <- <-; finish ltac:(unfold print_string_ptr)].
        bind_inv E p2 E2. pose proof (put_req _ _ _ _ E2) as R2. injection E as <- <-.
        finish ltac:(unfold print_string_ptr).
    Qed.

    Lemma elements_ext pv1 pv2 : forall l, Forall (fun n => ext (pv1 n) (pv2 n)) l ->
      ext (print_array_elements o1 junk pv1 l) (print_array_elements o2 junk pv2 l).
    Proof.
      induction 1 as [|c next Hc Hnext IH]; intros p ok p' E.
      - cbn in E. injection E as <- <-. split; [lia|reflexivity].
      - cbn [print_array_elements] in E.
        bind_inv E r1 E1. destruct r1 as (ok1 & p1). destruct (Hc p ok1 p1 E1) as (L1 & T1).
        destruct ok1; cbn [negb] in E; [|injection E as <- <-; finish ltac:(cbn [print_array_elements])].
        bind_inv E p2 E2. pose proof (update_offset_req _ _ E2) as R2.
        destruct next as [|c' next'].
        + cbn in E. injection E as <- <-. finish ltac:(cbn [print_array_elements]).
        + bind_inv E r3 E3. destruct r3 as (ok3 & p3). destruct (ensure_ext _ p2 ok3 p3 E3) as (L3 & T3). cbn beta in T3.
          destruct ok3; cbn [negb] in E; [|injection E as <- <-; finish ltac:(cbn [print_array_elements])].
          bind_inv E p4 E4. pose proof (put_req _ _ _ _ E4) as R4.
          destruct (IH _ _ _ E) as (L5 & T5). cbn [print_array_elements] in T5.
          finish ltac:(cbn [print_array_elements]).
    Qed.

    Lemma array_ext pv1 pv2 ch : Forall (fun n => ext (pv1 n) (pv2 n)) ch ->
      ext (print_array o1 junk pv1 ch) (print_array o2 junk pv2 ch).
    Proof.
      intros Hch p ok p' E. unfold print_array in E.
      bind_inv E r1 E1. destruct r1 as (ok1 & p1). destruct (ensure_ext _ p ok1 p1 E1) as (L1 & T1). cbn beta in T1.
      destruct ok1; cbn [negb] in E; [|injection E as <- <-; finish ltac:(unfold print_array)].
      bind_inv E p2 E2. pose proof (put_req _ _ _ _ E2) as R2.
      bind_inv E r4 E4. destruct r4 as (ok4 & p4). destruct (elements_ext pv1 pv2 ch Hch _ ok4 p4 E4) as (L4 & T4).
      destruct ok4; cbn [negb] in E; [|injection E as <- <-; finish ltac:(unfold print_array)].
      bind_inv E r5 E5. destruct r5 as (ok5 & p5). destruct (ensure_ext _ p4 ok5 p5 E5) as (L5 & T5). cbn beta in T5.
      destruct ok5; cbn [negb] in E; [|injection E as <- <-; finish ltac:(unfold print_array)].
      bind_inv E p6 E6. pose proof (put_req _ _ _ _ E6) as R6. injection E as <- <-.
      finish ltac:(unfold print_array).
    Qed.

    Lemma members_ext pv1 pv2 : forall l, Forall (fun n => ext (pv1 n) (pv2 n)) l ->
      ext (print_object_members o1 junk pv1 l) (print_object_members o2 junk pv2 l).
    Proof.
      induction 1 as [|c next Hc Hnext IH]; intros p ok p' E.
      - cbn in E. injection E as <- <-. split; [lia|reflexivity].
      - cbn [print_object_members] in E.
        bind_inv E r0 E0. destruct r0 as (ok0 & p3).
        (* the indentation step, in both formats *)
        assert (S0 : (pb_req p <= pb_req p3)%nat /\
                     forall N, agree_below N -> (pb_req p3 <= N)%nat ->
                       (if pb_format p then
                          '(ok, p1) <- ensure o2 junk p (pb_depth p) ;;
                          if negb ok then Ok (false, p1)
                          else p2 <- put p1 0 (tabs (pb_depth p1)) ;; Ok (true, set_offset p2 (pb_offset p2 + pb_depth p2))
                        else Ok (true, p)) = Ok (ok0, p3)).
        { destruct (pb_format p).
          - bind_inv E0 r1 E1. destruct r1 as (ok1 & p1). destruct (ensure_ext _ p ok1 p1 E1) as (L1 & T1). cbn beta in T1.
            destruct ok1; cbn [negb] in E0.
            + bind_inv E0 p2 E2. pose proof (put_req _ _ _ _ E2) as R2. injection E0 as <- <-. finish idtac.
            + injection E0 as <- <-. finish idtac.
          - injection E0 as <- <-. split; [lia|reflexivity]. }
        destruct S0 as (L0 & T0). clear E0.
        destruct ok0; cbn [negb] in E; [|injection E as <- <-; finish ltac:(cbn [print_object_members])].
        bind_inv E r4 E4. destruct r4 as (ok4 & p4). destruct (print_string_ptr_ext _ p3 ok4 p4 E4) as (L4 & T4).
        destruct ok4; cbn [negb] in E; [|injection E as <- <-; finish ltac:(cbn [print_object_members])].
        bind_inv E p5 E5. pose proof (update_offset_req _ _ E5) as R5.
        bind_inv E r6 E6. destruct r6 as (ok6 & p6). destruct (ensure_ext _ p5 ok6 p6 E6) as (L6 & T6). cbn beta in T6.
        destruct ok6; cbn [negb] in E; [|injection E as <- <-; finish ltac:(cbn [print_object_members])].
        bind_inv E p7 E7. pose proof (put_req _ _ _ _ E7) as R7.
        bind_inv E r9 E9. destruct r9 as (ok9 & p9). destruct (Hc _ ok9 p9 E9) as (L9 & T9).
        destruct ok9; cbn [negb] in E; [|injection E as <- <-; finish ltac:(cbn [print_object_members])].
        bind_inv E p10 E10. pose proof (update_offset_req _ _ E10) as R10.
        bind_inv E r11 E11. destruct r11 as (ok11 & p11). destruct (ensure_ext _ p10 ok11 p11 E11) as (L11 & T11). cbn beta in T11.
        destruct ok11; cbn [negb] in E; [|injection E as <- <-; finish ltac:(cbn [print_object_members])].
        bind_inv E p12 E12. pose proof (put_req _ _ _ _ E12) as R12.
        destruct (IH _ _ _ E) as (L13 & T13). cbn [print_object_members] in T13.
        finish ltac:(cbn [print_object_members]).
    Qed.

    Lemma object_ext pv1 pv2 ch : Forall (fun n => ext (pv1 n) (pv2 n)) ch ->
      ext (print_object o1 junk pv1 ch) (print_object o2 junk pv2 ch).
    Proof.
      intros Hch p ok p' E. unfold print_object in E.
      bind_inv E r1 E1. destruct r1 as (ok1 & p1). destruct (ensure_ext _ p ok1 p1 E1) as (L1 & T1). cbn beta in T1.
      destruct ok1; cbn [negb] in E; [|injection E as <- <-; finish ltac:(unfold print_object)].
      bind_inv E p2 E2. pose proof (put_req _ _ _ _ E2) as R2.
      bind_inv E r4 E4. destruct r4 as (ok4 & p4). destruct (members_ext pv1 pv2 ch Hch _ ok4 p4 E4) as (L4 & T4).
      destruct ok4; cbn [negb] in E; [|injection E as <- <-; finish ltac:(unfold print_object)].
      bind_inv E r5 E5. destruct r5 as (ok5 & p5). destruct (ensure_ext _ p4 ok5 p5 E5) as (L5 & T5). cbn beta in T5.
      destruct ok5; cbn [negb] in E; [|injection E as <- <-; finish ltac:(unfold print_object)].
      bind_inv E p6 E6. pose proof (put_req _ _ _ _ E6) as R6. injection E as <- <-.
      finish ltac:(unfold print_object).
    Qed.

    Theorem print_value_ext : forall n, ext (print_value o1 n) (print_value o2 n).
    Proof.
      induction n as [t s i dv k cs IH] using node_ind'. intros p ok p'.
      cbn [PrintDefs.print_value].
      destruct (tymask t =? c_cJSON_NULL); [apply (print_literal_ext 5 lit_null)|].
      destruct (tymask t =? c_cJSON_False); [apply (print_literal_ext 6 lit_false)|].
      destruct (tymask t =? c_cJSON_True); [apply (print_literal_ext 5 lit_true)|].
      destruct (tymask t =? c_cJSON_Number); [apply print_number_ext|].
      destruct (tymask t =? c_cJSON_Raw).
      { destruct s as [s0|]; [|intros [= <- <-]; split; [lia|reflexivity]].
        intros E. bind_inv E r1 E1. destruct r1 as (ok1 & p1). destruct (ensure_ext _ p ok1 p1 E1) as (L1 & T1). cbn beta in T1.
        destruct ok1; cbn [negb] in E.
        - bind_inv E p2 E2. pose proof (put_req _ _ _ _ E2) as R2. injection E as <- <-. finish idtac.
        - injection E as <- <-. finish idtac. }
      destruct (tymask t =? c_cJSON_String); [apply print_string_ptr_ext|].
      destruct (tymask t =? c_cJSON_Array); [apply array_ext; exact IH|].
      destruct (tymask t =? c_cJSON_Object); [apply object_ext; exact IH|].
      intros [= <- <-]. split; [lia|reflexivity].
    Qed.

    (** ---------------------------------------------------------------- entry points *)
    Notation print o := (PrintDefs.print fmt_d fmt_g15 fmt_g17 sscanf_lg o junk).
    Notation cJSON_PrintBuffered o := (PrintDefs.cJSON_PrintBuffered fmt_d fmt_g15 fmt_g17 sscanf_lg o junk).

    Theorem print_ext (t : node) (fmt hr : bool) r :
      print o1 t fmt hr = Ok r -> forall N, agree_below N -> (prr_requests r <= N)%nat -> print o2 t fmt hr = Ok r.
    Proof.
      intros E N A. unfold PrintDefs.print, allocate in *. cbn [pb_req pb_live] in *.
      destruct (o1 0%nat) eqn:O0.
      { injection E as <-. cbn [prr_requests result_of pb_req set_alloc deallocate set_length set_buf]. intros HN. rewrite (A 0%nat) by lia. rewrite O0. reflexivity. }
      match type of E with context [print_value o1 t ?q] => set (p2 := q) in * end.
      bind_inv E r3 E3. destruct r3 as (ok & p3). destruct (print_value_ext t p2 ok p3 E3) as (L3 & T3).
      assert (R2 : pb_req p2 = 1%nat) by reflexivity.
      destruct ok; cbn [negb] in E.
      2: { injection E as <-. intros HN.
           assert (HN' : (pb_req p3 <= N)%nat) by (revert HN; unfold deallocate; destruct (pb_buf p3); cbn; lia).
           rewrite (A 0%nat) by lia. rewrite O0. fold p2. rewrite (T3 N A HN'). reflexivity. }
      bind_inv E p4 E4. pose proof (update_offset_req _ _ E4) as R4.
      destruct (pb_buf p4) as [buf|] eqn:Hb4; [|discriminate].
      destruct hr.
      - unfold reallocate in *. destruct (o1 (pb_req p4)) eqn:O5; injection E as <-; cbn [prr_requests result_of pb_req set_alloc deallocate set_length set_buf]; intros HN;
          rewrite (A 0%nat) by lia; rewrite O0; fold p2; rewrite (T3 N A ltac:(lia)); cbn [bind negb];
          rewrite E4; cbn [bind]; rewrite Hb4, (A (pb_req p4)) by lia; rewrite O5; reflexivity.
      - unfold allocate in *. destruct (o1 (pb_req p4)) eqn:O5.
        + injection E as <-. cbn [prr_requests result_of pb_req set_alloc deallocate set_length set_buf]. intros HN.
          rewrite (A 0%nat) by lia. rewrite O0. fold p2. rewrite (T3 N A ltac:(lia)). cbn [bind negb].
          rewrite E4. cbn [bind]. rewrite Hb4, (A (pb_req p4)) by lia. rewrite O5. reflexivity.
        + bind_inv E pr1 E5. bind_inv E pr2 E6. injection E as <-. cbn [prr_requests result_of pb_req set_alloc deallocate set_length set_buf]. intros HN.
          rewrite (A 0%nat) by lia. rewrite O0. fold p2. rewrite (T3 N A ltac:(lia)). cbn [bind negb].
          rewrite E4. cbn [bind]. rewrite Hb4, (A (pb_req p4)) by lia. rewrite O5, E5. cbn [bind]. rewrite E6. reflexivity.
    Qed.

    Theorem print_buffered_ext (t : node) (prebuffer : Z) (fmt hr : bool) r :
      cJSON_PrintBuffered o1 t prebuffer fmt hr = Ok r -> forall N, agree_below N -> (prr_requests r <= N)%nat ->
      cJSON_PrintBuffered o2 t prebuffer fmt hr = Ok r.
    Proof.
      intros E N A. unfold PrintDefs.cJSON_PrintBuffered, allocate in *. cbn [pb_req pb_live] in *.
      destruct (prebuffer <? 0); [intros _; exact E|].
      destruct (o1 0%nat) eqn:O0.
      { injection E as <-. cbn [prr_requests result_of pb_req set_alloc deallocate set_length set_buf]. intros HN. rewrite (A 0%nat) by lia. rewrite O0. reflexivity. }
      match type of E with context [print_value o1 t ?q] => set (p2 := q) in * end.
      bind_inv E r3 E3. destruct r3 as (ok & p3). destruct (print_value_ext t p2 ok p3 E3) as (L3 & T3).
      assert (R2 : pb_req p2 = 1%nat) by reflexivity.
      destruct ok; cbn [negb] in E.
      2: { injection E as <-. intros HN.
           assert (HN' : (pb_req p3 <= N)%nat) by (revert HN; unfold deallocate; destruct (pb_buf p3); cbn; lia).
           rewrite (A 0%nat) by lia. rewrite O0. fold p2. rewrite (T3 N A HN'). reflexivity. }
      injection E as <-. cbn [prr_requests result_of pb_req set_alloc deallocate set_length set_buf]. intros HN.
      rewrite (A 0%nat) by lia. rewrite O0. fold p2. rewrite (T3 N A HN). reflexivity.
    Qed.
  End Libc.
End Ext.

(** a bounded search of the schedule *)
Lemma refused_below_dec (o : nat -> bool) (N : nat) :
  (forall k, (k < N)%nat -> o k = false) \/ (exists k, (k < N)%nat /\ o k = true).
Proof.
  induction N as [|N [IH|(k & Hk & Ok)]].
  - left. intros k Hk. lia.
  - destruct (o N) eqn:ON.
    + right. exists N. split; [lia|exact ON].
    + left. intros k Hk. destruct (Nat.eq_dec k N) as [->|Hne]; [exact ON|apply IH; lia].
  - right. exists k. split; [lia|exact Ok].
Qed.

Section C08.
  Variable fmt_d : Z -> bytes.
  Variable fmt_g15 fmt_g17 : dbl -> bytes.
  Variable sscanf_lg : bytes -> option dbl.
  Hypothesis libc : LibcPrintSpec fmt_d fmt_g15 fmt_g17.
  Variable oracle : nat -> bool.
  Variable junk : nat -> Z.
  Notation render := (PrintDefs.render fmt_d fmt_g15 fmt_g17 sscanf_lg).
  Notation print := (PrintDefs.print fmt_d fmt_g15 fmt_g17 sscanf_lg oracle junk).
  Notation cJSON_PrintBuffered := (PrintDefs.cJSON_PrintBuffered fmt_d fmt_g15 fmt_g17 sscanf_lg oracle junk).

  (** none of the requests the call made was refused => it completed normally *)
  Lemma print_unrefused_completes (t : node) (fmt hr : bool) r txt :
    fields_ok t = true -> print t fmt hr = Ok r ->
    (forall k, (k < prr_requests r)%nat -> oracle k = false) ->
    render fmt 0 t = Some txt -> zlen txt + 2 <= c_INT_MAX ->
    prr_block r = Some (txt ++ [0]) /\ prr_live r = 1.
  Proof.
    intros Hi E NF R Hsz.
    assert (A : agree_below oracle (fun _ => false) (prr_requests r)) by (intros k Hk; symmetry; apply NF; exact Hk).
    pose proof (print_ext oracle (fun _ => false) junk fmt_d fmt_g15 fmt_g17 sscanf_lg t fmt hr r E _ A (le_n _)) as E'.
    destruct (print_completes fmt_d fmt_g15 fmt_g17 sscanf_lg libc (fun _ => false) junk t fmt hr txt Hi (fun _ => eq_refl) R Hsz)
      as (r' & Er' & B & L).
    rewrite E' in Er'. injection Er' as <-. split; assumption.
  Qed.

  (** NULL on a printable tree => one of the requests the call made was refused *)
  Lemma print_failure_has_cause (t : node) (fmt hr : bool) r txt :
    fields_ok t = true -> print t fmt hr = Ok r ->
    render fmt 0 t = Some txt -> zlen txt + 2 <= c_INT_MAX ->
    prr_block r = None -> exists k, (k < prr_requests r)%nat /\ oracle k = true.
  Proof.
    intros Hi E R Hsz Hn.
    destruct (refused_below_dec oracle (prr_requests r)) as [NF|Hex]; [|exact Hex].
    destruct (print_unrefused_completes t fmt hr r txt Hi E NF R Hsz) as (B & _). rewrite Hn in B. discriminate.
  Qed.

  Lemma print_buffered_unrefused_completes (t : node) (prebuffer : Z) (fmt hr : bool) r txt :
    fields_ok t = true -> 0 <= prebuffer -> cJSON_PrintBuffered t prebuffer fmt hr = Ok r ->
    (forall k, (k < prr_requests r)%nat -> oracle k = false) ->
    render fmt 0 t = Some txt -> zlen txt + 2 <= c_INT_MAX ->
    (exists rest, prr_block r = Some (txt ++ 0 :: rest)) /\ prr_live r = 1.
  Proof.
    intros Hi Hpre E NF R Hsz.
    assert (A : agree_below oracle (fun _ => false) (prr_requests r)) by (intros k Hk; symmetry; apply NF; exact Hk).
    pose proof (print_buffered_ext oracle (fun _ => false) junk fmt_d fmt_g15 fmt_g17 sscanf_lg t prebuffer fmt hr r E _ A (le_n _)) as E'.
    destruct (print_buffered_completes fmt_d fmt_g15 fmt_g17 sscanf_lg libc (fun _ => false) junk t prebuffer fmt hr txt Hi Hpre (fun _ => eq_refl) R Hsz)
      as (r' & rest & Er' & B & L).
    rewrite E' in Er'. injection Er' as <-. split; [exists rest; exact B|exact L].
  Qed.

  Lemma print_buffered_failure_has_cause (t : node) (prebuffer : Z) (fmt hr : bool) r txt :
    fields_ok t = true -> 0 <= prebuffer -> cJSON_PrintBuffered t prebuffer fmt hr = Ok r ->
    render fmt 0 t = Some txt -> zlen txt + 2 <= c_INT_MAX ->
    prr_block r = None -> exists k, (k < prr_requests r)%nat /\ oracle k = true.
  Proof.
    intros Hi Hpre E R Hsz Hn.
    destruct (refused_below_dec oracle (prr_requests r)) as [NF|Hex]; [|exact Hex].
    destruct (print_buffered_unrefused_completes t prebuffer fmt hr r txt Hi Hpre E NF R Hsz) as ((rest & B) & _).
    rewrite Hn in B. discriminate.
  Qed.
End C08.
