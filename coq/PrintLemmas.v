(** PrintLemmas.v — list / checked-access lemmas and the specifications of the small pieces of
    the buffer-level printer: wr_bytes, put, strlen, ensure, update_offset.  Proofs only. *)
From CJ Require Import Base Dbl Tree PrintDefs.
From Coq Require Import Lia ZArith List Bool.
Import ListNotations.
Local Open Scope Z_scope.

Global Arguments zlen : simpl never.

(** ------------------------------------------------------------------ lengths *)
Lemma zlen_nil {A} : zlen (@nil A) = 0. Proof. reflexivity. Qed.
Lemma zlen_cons {A} (x : A) l : zlen (x :: l) = 1 + zlen l.
Proof. unfold zlen. cbn [length]. lia. Qed.
Lemma zlen_app {A} (a b : list A) : zlen (a ++ b) = zlen a + zlen b.
Proof. unfold zlen. rewrite app_length. lia. Qed.
Lemma zlen_nonneg {A} (l : list A) : 0 <= zlen l.
Proof. unfold zlen. lia. Qed.
Lemma zlen_repeat {A} (x : A) n : zlen (repeat x n) = Z.of_nat n.
Proof. unfold zlen. rewrite repeat_length. reflexivity. Qed.
Lemma zlen_tabs d : 0 <= d -> zlen (tabs d) = d.
Proof. intros H. unfold tabs. rewrite zlen_repeat. lia. Qed.
Lemma zlen_0_nil {A} (l : list A) : zlen l = 0 -> l = [].
Proof. destruct l; [reflexivity|]. rewrite zlen_cons. pose proof (zlen_nonneg l). lia. Qed.

(* both sides of a list equation to right-nested appends / conses *)
Ltac norm_list := repeat (progress (rewrite <- ?app_assoc; cbn [app])).

Ltac zl := repeat (rewrite ?zlen_app, ?zlen_cons, ?zlen_nil in * ).

(** ------------------------------------------------------------------ checked writes *)
Lemma wrz_app (A rest : bytes) (v x : Z) :
  wrz (A ++ x :: rest) (zlen A) v = Ok (A ++ v :: rest).
Proof.
  unfold wrz. pose proof (zlen_nonneg A) as HA.
  destruct (Z.ltb_spec (zlen A) 0) as [H|_]; [lia|].
  unfold zlen. rewrite Nat2Z.id. unfold wr.
  destruct (Nat.ltb_spec (length A) (length (A ++ x :: rest))) as [_|H].
  - f_equal. unfold upd. rewrite firstn_app, Nat.sub_diag, firstn_all. cbn [firstn]. rewrite app_nil_r.
    f_equal. f_equal.
    replace (S (length A)) with (length A + 1)%nat by lia.
    rewrite skipn_app. rewrite skipn_all2 by lia.
    replace (length A + 1 - length A)%nat with 1%nat by lia. reflexivity.
  - rewrite app_length in H. cbn [length] in H. lia.
Qed.

Lemma wrz_oob_free (b : bytes) (i v : Z) : 0 <= i < zlen b -> exists b', wrz b i v = Ok b' /\ zlen b' = zlen b.
Proof.
  intros H. unfold wrz. destruct (Z.ltb_spec i 0); [lia|]. unfold wr.
  destruct (Nat.ltb_spec (Z.to_nat i) (length b)) as [Hl|Hl].
  - eexists; split; [reflexivity|]. unfold zlen, upd. rewrite app_length. cbn [length].
    rewrite firstn_length, skipn_length. lia.
  - unfold zlen in H. lia.
Qed.

(** writing [l] right after the prefix [A] of a block [A ++ rest] *)
Lemma wr_bytes_app (l A rest : bytes) :
  zlen l <= zlen rest ->
  exists rest', wr_bytes (A ++ rest) (zlen A) l = Ok (A ++ l ++ rest') /\ zlen rest' = zlen rest - zlen l.
Proof.
  revert A rest. induction l as [|v l IH]; intros A rest H.
  - exists rest. split; [reflexivity|]. change (zlen (@nil Z)) with 0. lia.
  - destruct rest as [|x rest]; [rewrite zlen_cons, zlen_nil in H; pose proof (zlen_nonneg l); lia|].
    cbn [wr_bytes]. rewrite wrz_app. cbn [bind].
    rewrite !zlen_cons in H.
    destruct (IH (A ++ [v]) rest ltac:(lia)) as (rest' & E & L).
    exists rest'. replace (zlen A + 1) with (zlen (A ++ [v])) by (rewrite zlen_app, zlen_cons, zlen_nil; lia).
    replace (A ++ v :: rest) with ((A ++ [v]) ++ rest) by (rewrite <- app_assoc; reflexivity).
    rewrite E. split; [rewrite <- app_assoc; reflexivity|]. rewrite !zlen_cons. lia.
Qed.

(** ------------------------------------------------------------------ strlen *)
Definition nz (s : bytes) : Prop := Forall (fun c => c <> 0) s.

Lemma strlen_l_app (s rest : bytes) : nz s -> strlen_l (s ++ 0 :: rest) = Ok (zlen s).
Proof.
  induction 1 as [|c s Hc Hs IH]; cbn [app strlen_l].
  - reflexivity.
  - destruct (Z.eqb_spec c 0); [contradiction|]. rewrite IH. cbn [bind]. rewrite zlen_cons. f_equal. lia.
Qed.

Lemma nz_app a b : nz a -> nz b -> nz (a ++ b).
Proof. intros. apply Forall_app. split; assumption. Qed.
Lemma nz_skipn k s : nz s -> nz (skipn k s).
Proof.
  revert s. induction k as [|k IH]; intros s H; [exact H|]. destruct s; [constructor|].
  inversion H; subst. cbn. apply IH. assumption.
Qed.
Lemma cstr_nz s : nz (cstr s).
Proof.
  induction s as [|c s IH]; cbn; [constructor|]. destruct (Z.eqb_spec c 0); [constructor|].
  constructor; assumption.
Qed.

Lemma skipn_app_l {A} (a b : list A) : skipn (length a) (a ++ b) = b.
Proof. rewrite skipn_app, skipn_all, Nat.sub_diag. reflexivity. Qed.

(** strlen started anywhere inside a zero-free stretch that is followed by a zero *)
Lemma strlen_at_inside (A txt rest : bytes) (o : Z) :
  nz txt -> zlen A <= o <= zlen A + zlen txt ->
  strlen_at ((A ++ txt) ++ 0 :: rest) o = Ok (zlen A + zlen txt - o).
Proof.
  intros Hnz Ho. unfold strlen_at. pose proof (zlen_nonneg A).
  destruct (Z.ltb_spec o 0); [lia|].
  set (j := Z.to_nat (o - zlen A)).
  assert (Hj : (j <= length txt)%nat) by (unfold j, zlen in *; lia).
  replace (Z.to_nat o) with (length A + j)%nat by (unfold j, zlen in *; lia).
  rewrite <- app_assoc. rewrite <- (firstn_skipn j txt) at 1.
  rewrite <- app_assoc, app_assoc.
  replace (length A + j)%nat with (length (A ++ firstn j txt)) by (rewrite app_length, firstn_length; lia).
  rewrite skipn_app_l. rewrite strlen_l_app by (apply nz_skipn; assumption).
  f_equal. unfold zlen. rewrite skipn_length. unfold j, zlen in *. lia.
Qed.

(** ------------------------------------------------------------------ state predicates *)
Section Specs.
  Variable oracle : nat -> bool.
  Variable junk : nat -> Z.

  Notation printbuffer := PrintDefs.printbuffer.

  (** the block is [A ++ rest] and its size is the [length] field *)
  Definition buf_is (p : printbuffer) (A rest : bytes) : Prop :=
    pb_buf p = Some (A ++ rest) /\ zlen A + zlen rest = pb_length p.
  (** the text written so far is [T] and the cursor stands right after it; unless the buffer is
      empty the cursor is inside it (ensure keeps one spare byte beyond every request) *)
  Definition text_at (p : printbuffer) (T : bytes) : Prop :=
    exists rest, buf_is p T rest /\ pb_offset p = zlen T /\ (zlen rest = 0 -> pb_length p = 0).
  (** a value has just been written after [T]: its text [txt] and a terminator are in the block;
      the cursor is somewhere inside (print_number advances it, the others do not) *)
  Definition done (p : printbuffer) (T txt : bytes) : Prop :=
    exists rest, buf_is p (T ++ txt) (0 :: rest) /\ zlen T <= pb_offset p <= zlen T + zlen txt.

  (** size of the block the buffer pointer designates *)
  Definition blen (p : printbuffer) : Z := match pb_buf p with Some b => zlen b | None => -1 end.
  (** a caller-supplied buffer (noalloc): the allocator is never called and the block keeps its size *)
  Definition quiet (p p' : printbuffer) : Prop :=
    pb_noalloc p = true -> pb_req p' = pb_req p /\ pb_live p' = pb_live p /\ blen p' = blen p.
  (** what no step changes, successful or not *)
  Definition frame (p p' : printbuffer) : Prop :=
    pb_format p' = pb_format p /\ pb_noalloc p' = pb_noalloc p /\ pb_realloc p' = pb_realloc p /\ quiet p p'.
  (** [k] bytes can be made available: they fit (caller buffer) or the buffer may grow to them *)
  Definition room (p : printbuffer) (k : Z) : Prop :=
    k <= c_INT_MAX /\
    ((pb_noalloc p = true /\ k <= pb_length p) \/ (pb_noalloc p = false /\ forall i, oracle i = false)).
  (** what a successful step may change in the size of the buffer *)
  Definition grown (p p' : printbuffer) : Prop :=
    pb_length p <= pb_length p' /\ (pb_noalloc p = true -> pb_length p' = pb_length p /\ pb_req p' = pb_req p /\ pb_live p' = pb_live p).

  Lemma frame_refl p : frame p p.
  Proof. split; [|split; [|split]]; try reflexivity. intros _. repeat split. Qed.
  Lemma frame_trans p q r : frame p q -> frame q r -> frame p r.
  Proof.
    unfold frame, quiet. intros (a & b & c & q1) (d & e & f & q2).
    split; [congruence|]. split; [congruence|]. split; [congruence|].
    intros H. destruct (q1 H) as (x1 & x2 & x3). rewrite <- b in H. destruct (q2 H) as (y1 & y2 & y3).
    repeat split; congruence.
  Qed.
  (* steps that touch neither the block nor the allocator *)
  Lemma frame_same p p' :
    pb_format p' = pb_format p -> pb_noalloc p' = pb_noalloc p -> pb_realloc p' = pb_realloc p ->
    pb_buf p' = pb_buf p -> pb_req p' = pb_req p -> pb_live p' = pb_live p -> frame p p'.
  Proof. intros a b c d e f. split; [exact a|]. split; [exact b|]. split; [exact c|]. intros _. unfold blen. rewrite d. auto. Qed.
  Lemma frame_set_offset p o : frame p (set_offset p o). Proof. apply frame_same; reflexivity. Qed.
  Lemma frame_set_depth p o : frame p (set_depth p o). Proof. apply frame_same; reflexivity. Qed.
  Lemma grown_refl p : grown p p. Proof. split; [lia|]. intros _. repeat split. Qed.
  Lemma grown_trans p q r : frame p q -> grown p q -> grown q r -> grown p r.
  Proof.
    unfold frame, grown. intros (_ & Hn & _) (a & b) (c & d). split; [lia|].
    intros H. destruct (b H) as (b1 & b2 & b3). rewrite <- Hn in H. destruct (d H) as (d1 & d2 & d3).
    repeat split; congruence.
  Qed.
  Lemma room_mono p k k' : room p k -> k' <= k -> room p k'.
  Proof. unfold room. intros (H1 & [[H2 H3]|H2]) H; (split; [lia|]); [left|right]; try split; try tauto; lia. Qed.
  Lemma room_step p p' k : frame p p' -> grown p p' -> room p k -> room p' k.
  Proof.
    unfold frame, grown, room. intros (_ & Hn & _) (Hg & _) (H1 & [[H2 H3]|H2]); (split; [lia|]); [left|right]; rewrite Hn.
    - split; [assumption|lia].
    - assumption.
  Qed.

  (** ---------------------------------------------------------------- put *)
  (** a write of [l] at the distance [i] from the cursor, landing right after the prefix [A] *)
  Lemma put_spec (p : printbuffer) (A rest l : bytes) (i : Z) :
    buf_is p A rest -> pb_offset p + i = zlen A -> zlen l <= zlen rest ->
    exists rest' p', put p i l = Ok p' /\ p' = set_buf p (Some (A ++ l ++ rest')) /\ buf_is p' (A ++ l) rest' /\ frame p p'.
  Proof.
    intros (Hb & Hl) Hi Hfit. unfold put. rewrite Hb, Hi.
    destruct (wr_bytes_app l A rest Hfit) as (rest' & E & L). rewrite E. cbn [bind].
    exists rest'. eexists. split; [reflexivity|]. split; [reflexivity|].
    split; [split; [cbn; rewrite <- app_assoc; reflexivity|cbn; rewrite zlen_app; lia]|].
    split; [reflexivity|]. split; [reflexivity|]. split; [reflexivity|]. intros _.
    split; [reflexivity|]. split; [reflexivity|]. unfold blen. cbn [pb_buf set_buf]. rewrite Hb, !zlen_app. lia.
  Qed.

  (** ---------------------------------------------------------------- update_offset *)
  Lemma update_offset_spec (p : printbuffer) (T txt : bytes) :
    done p T txt -> nz txt ->
    exists p', update_offset p = Ok p' /\ p' = set_offset p (zlen T + zlen txt) /\ text_at p' (T ++ txt) /\
               (exists rest, buf_is p' (T ++ txt) (0 :: rest)).
  Proof.
    intros (rest & (Hb & Hl) & Ho) Hnz. unfold update_offset. rewrite Hb.
    rewrite strlen_at_inside by assumption. cbn [bind].
    eexists. split; [reflexivity|].
    replace (pb_offset p + (zlen T + zlen txt - pb_offset p)) with (zlen T + zlen txt) by lia.
    split; [reflexivity|]. split.
    - exists (0 :: rest). split; [split; [exact Hb|exact Hl]|]. split; [cbn; rewrite zlen_app; reflexivity|].
      rewrite zlen_cons. pose proof (zlen_nonneg rest). lia.
    - exists rest. split; [exact Hb|exact Hl].
  Qed.

  (** ---------------------------------------------------------------- ensure *)
  Lemma fresh_len n : 0 <= n -> zlen (fresh junk n) = n.
  Proof. intros H. unfold fresh, zlen. rewrite map_length, seq_length. lia. Qed.

  Lemma int_max_val : c_INT_MAX = 2147483647. Proof. reflexivity. Qed.
  Lemma int_max_half : c_INT_MAX / 2 = 1073741823. Proof. reflexivity. Qed.

  Lemma firstn_app_one (T : bytes) x rest : firstn (Z.to_nat (zlen T + 1)) (T ++ x :: rest) = T ++ [x].
  Proof.
    unfold zlen. replace (Z.to_nat (Z.of_nat (length T) + 1)) with (length T + 1)%nat by lia.
    rewrite firstn_app, firstn_all2 by lia. replace (length T + 1 - length T)%nat with 1%nat by lia. reflexivity.
  Qed.

  Lemma ensure_spec (p : printbuffer) (T : bytes) (needed : Z) :
    text_at p T -> 0 <= needed ->
    exists ok p', ensure oracle junk p needed = Ok (ok, p') /\ frame p p' /\
      (ok = true -> text_at p' T /\ zlen T + needed + 1 <= pb_length p' /\ pb_depth p' = pb_depth p /\ grown p p') /\
      (room p (zlen T + needed + 1) -> ok = true).
  Proof.
    intros (rest & (Hb & Hl) & Ho & Hslack) Hn. unfold ensure. rewrite Hb.
    pose proof (zlen_nonneg T) as HT. pose proof (zlen_nonneg rest) as HR.
    pose proof int_max_val as IM. pose proof int_max_half as IH2.
    assert (Hsame : text_at p T) by (exists rest; repeat split; assumption).
    (* offset invalid *)
    destruct ((0 <? pb_length p) && (pb_length p <=? pb_offset p)) eqn:C1.
    { apply andb_true_iff in C1 as (C1a & C1b). apply Z.ltb_lt in C1a. apply Z.leb_le in C1b.
      exists false, p. split; [reflexivity|]. split; [apply frame_refl|]. split; [discriminate|]. intros _. lia. }
    assert (Hin : pb_length p = 0 \/ zlen rest >= 1).
    { destruct (Z.eq_dec (zlen rest) 0) as [e|e]; [left; auto|right; lia]. }
    destruct (Z.ltb_spec c_INT_MAX needed) as [C2|C2].
    { exists false, p. split; [reflexivity|]. split; [apply frame_refl|]. split; [discriminate|].
      intros (R1 & _). lia. }
    destruct (Z.leb_spec (needed + pb_offset p + 1) (pb_length p)) as [C3|C3].
    { exists true, p. split; [reflexivity|]. split; [apply frame_refl|]. split; [|reflexivity].
      intros _. split; [exact Hsame|]. split; [lia|]. split; [reflexivity|apply grown_refl]. }
    destruct (pb_noalloc p) eqn:C4.
    { exists false, p. split; [reflexivity|]. split; [apply frame_refl|]. split; [discriminate|].
      intros (R1 & [[_ R2]|[R2 _]]); [lia|congruence]. }
    destruct ((c_INT_MAX / 2 <? needed + pb_offset p + 1) && negb (needed + pb_offset p + 1 <=? c_INT_MAX)) eqn:C5.
    { apply andb_true_iff in C5 as (C5a & C5b). apply negb_true_iff in C5b. apply Z.leb_gt in C5b.
      exists false, p. split; [reflexivity|]. split; [apply frame_refl|]. split; [discriminate|].
      intros (R1 & _). lia. }
    set (newsize := if c_INT_MAX / 2 <? needed + pb_offset p + 1 then c_INT_MAX else (needed + pb_offset p + 1) * 2).
    assert (Hns : needed + pb_offset p + 1 <= newsize).
    { unfold newsize. destruct (Z.ltb_spec (c_INT_MAX / 2) (needed + pb_offset p + 1)) as [h|h]; [|lia].
      cbn [andb] in C5. apply negb_false_iff in C5. apply Z.leb_le in C5. lia. }
    destruct (pb_realloc p) eqn:C6.
    - (* realloc *)
      unfold reallocate. destruct (oracle (pb_req p)) eqn:Or.
      + eexists false, _. split; [reflexivity|]. split; [split; [reflexivity|split; [reflexivity|split; [reflexivity|intros Hna; rewrite C4 in Hna; discriminate Hna]]]|]. split; [discriminate|].
        intros (_ & [[R _]|[_ R]]); [congruence|]. rewrite R in Or. discriminate.
      + eexists true, _. split; [reflexivity|]. split; [split; [reflexivity|split; [reflexivity|split; [reflexivity|intros Hna; rewrite C4 in Hna; discriminate Hna]]]|]. split; [|reflexivity]. intros _.
        assert (Hf : firstn (Z.to_nat newsize) (T ++ rest) = T ++ rest).
        { apply firstn_all2. unfold zlen in *. rewrite app_length. lia. }
        rewrite Hf.
        set (tail := skipn (length (T ++ rest)) (fresh junk newsize)).
        assert (Htail : zlen tail = newsize - pb_length p).
        { unfold tail. pose proof (fresh_len newsize ltac:(lia)) as FL. unfold zlen in *.
          rewrite skipn_length, app_length. lia. }
        split.
        { exists (rest ++ tail). split; [split; [cbn; rewrite <- app_assoc; reflexivity|cbn; rewrite zlen_app; lia]|].
          split; [exact Ho|]. cbn. rewrite zlen_app. lia. }
        split; [cbn; lia|]. split; [reflexivity|]. split; [cbn; lia|]. intros Hna; rewrite C4 in Hna; discriminate Hna.
    - (* allocate + memcpy + deallocate *)
      unfold allocate. destruct (oracle (pb_req p)) eqn:Or.
      + eexists false, _. split; [reflexivity|]. split; [split; [reflexivity|split; [reflexivity|split; [reflexivity|intros Hna; rewrite C4 in Hna; discriminate Hna]]]|]. split; [discriminate|].
        intros (_ & [[R _]|[_ R]]); [congruence|]. rewrite R in Or. discriminate.
      + cbn [pb_length set_alloc pb_offset].
        destruct (Z.ltb_spec 0 (pb_length p)) as [Lpos|Lz].
        * (* the copy of offset + 1 bytes *)
          destruct rest as [|x rest0]; [change (zlen (@nil Z)) with 0 in *; lia|].
          unfold memcpy0. destruct (Z.leb_spec (pb_offset p + 1) 0) as [h|_]; [lia|].
          destruct (Z.ltb_spec (zlen (T ++ x :: rest0)) (pb_offset p + 1)) as [h|_].
          { rewrite zlen_app, zlen_cons in h. rewrite zlen_cons in Hl. pose proof (zlen_nonneg rest0). lia. }
          rewrite Ho, firstn_app_one.
          destruct (wr_bytes_app (T ++ [x]) [] (fresh junk newsize)) as (rest' & E & L').
          { rewrite fresh_len by lia. rewrite zlen_app, zlen_cons, zlen_nil. lia. }
          change (zlen (@nil Z)) with 0 in E. cbn [app] in E. rewrite E. cbn [bind].
          eexists true, _. split; [reflexivity|]. split; [split; [reflexivity|split; [reflexivity|split; [reflexivity|intros Hna; rewrite C4 in Hna; discriminate Hna]]]|]. split; [|reflexivity]. intros _.
          rewrite fresh_len in L' by lia. rewrite zlen_app, zlen_cons, zlen_nil in L'.
          split.
          { exists (x :: rest'). split; [split; [cbn; rewrite <- app_assoc; reflexivity|cbn; rewrite zlen_cons; lia]|].
            split; [exact Ho|]. cbn. rewrite zlen_cons. pose proof (zlen_nonneg rest'). lia. }
          split; [cbn; lia|]. split; [reflexivity|]. split; [cbn; lia|]. intros Hna; rewrite C4 in Hna; discriminate Hna.
        * (* empty buffer: nothing to copy *)
          cbn [bind].
          assert (zlen T = 0 /\ zlen rest = 0) as (HT0 & HR0) by lia.
          apply zlen_0_nil in HT0. apply zlen_0_nil in HR0. subst T rest.
          eexists true, _. split; [reflexivity|]. split; [split; [reflexivity|split; [reflexivity|split; [reflexivity|intros Hna; rewrite C4 in Hna; discriminate Hna]]]|]. split; [|reflexivity]. intros _.
          split.
          { exists (fresh junk newsize). split; [split; [reflexivity|cbn; rewrite fresh_len by lia; reflexivity]|].
            split; [exact Ho|]. cbn. rewrite fresh_len by lia. change (zlen (@nil Z)) with 0 in *. lia. }
          change (zlen (@nil Z)) with 0 in *.
          split; [cbn; lia|]. split; [reflexivity|]. split; [cbn; lia|]. intros Hna; rewrite C4 in Hna; discriminate Hna.
  Qed.
End Specs.

(** ------------------------------------------------------------------ building the libc contract *)
(** [LibcPrintSpec] only constrains the conversions on IEEE binary64 arguments ([valid_dbl]).  A
    contract stated for every finite [spec_float] (without that premise) is stronger; this lemma
    turns such clauses into the record. *)
Lemma LibcPrintSpec_of_unconditional (fmt_d : Z -> bytes) (fmt_g15 fmt_g17 : dbl -> bytes) :
  (forall z, int_range z = true -> Forall (fun c => c <> 0) (fmt_d z)) ->
  (forall d, is_finite d = true -> Forall (fun c => c <> 0) (fmt_g15 d)) ->
  (forall d, is_finite d = true -> Forall (fun c => c <> 0) (fmt_g17 d)) ->
  (forall z, int_range z = true -> zlen (fmt_d z) <= c_NUMBER_BUFFER_SIZE - 1) ->
  (forall d, is_finite d = true -> zlen (fmt_g15 d) <= c_NUMBER_BUFFER_SIZE - 1) ->
  (forall d, is_finite d = true -> zlen (fmt_g17 d) <= c_NUMBER_BUFFER_SIZE - 1) ->
  LibcPrintSpec fmt_d fmt_g15 fmt_g17.
Proof. intros a b c d e f. constructor; auto. Qed.
