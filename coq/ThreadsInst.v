(** ThreadsInst.v — the library calls, as the Coq models define them, as the [step] function of
    Threads.v.  A thread's private state is its pool of trees (and the buffers it passes, which
    are call arguments); the shared state is the global error position that the parser
    publishes.  The footprint lemma holds because no modelled call takes the shared state as
    an input: the models were transliterated from code in which (generated source facts,
    SourceChecks.v) nothing but cJSON_GetErrorPtr reads global_error and nothing but
    cJSON_InitHooks writes global_hooks. *)
From CJ Require Import Base Dbl Tree LibcNum ParseDefs ParseEntry MinifyDefs CompareDefs PointerDefs Threads.
From CJ Require PrintDefs PrintEntry PatchDefs MergeDefs Heap CoreDefs CoreOps.
Local Open Scope Z_scope.

Inductive call : Type :=
| KParse (content : bytes) (len : nat) (rnt : bool)      (* cJSON_ParseWithLengthOpts; the tree joins the pool *)
| KParseString (content : bytes) (rnt : bool)            (* cJSON_ParseWithOpts / cJSON_Parse *)
| KMinify (s : bytes)                                     (* cJSON_Minify on a private buffer *)
| KCompare (i j : nat) (cs : bool)                        (* cJSON_Compare of two private trees *)
| KGetPointer (i : nat) (p : bytes) (cs : bool)           (* cJSONUtils_GetPointer[CaseSensitive] *)
| KFindPointer (i : nat) (target : path)                  (* cJSONUtils_FindPointerFromObjectTo *)
| KDelete (i : nat)                                       (* cJSON_Delete: the tree leaves the pool *)
| KPrint (i : nat) (fmt : bool)                           (* cJSON_Print / cJSON_PrintUnformatted *)
| KPrintBuffered (i : nat) (prebuffer : Z) (fmt : bool)   (* cJSON_PrintBuffered *)
| KPrintPreallocated (i : nat) (buf : bytes) (fmt : bool) (* cJSON_PrintPreallocated into a private buffer *)
| KApplyPatches (i j : nat) (cs : bool)                   (* cJSONUtils_ApplyPatches[CaseSensitive]: document i is replaced by the result *)
| KGeneratePatches (i j : nat) (cs : bool)                (* cJSONUtils_GeneratePatches[CaseSensitive]: the patch joins the pool *)
| KMergePatch (i j : nat) (cs : bool)                     (* cJSONUtils_MergePatch[CaseSensitive] *)
| KGenerateMergePatch (i j : nat) (cs : bool)             (* cJSONUtils_GenerateMergePatch[CaseSensitive] *)
| KEdit (o : CoreOps.op).                                 (* any call of the tree API (create, add, detach, insert, replace, set,
                                                             duplicate, delete, queries) on the thread's private heap *)

Inductive result : Type :=
| RParse (r : res parse_result)
| RBytes (r : res bytes)
| RBool (b : option bool)
| RPath (p : option path)
| RPtr (p : option bytes)
| RUnit
| RPrint (r : res PrintDefs.print_result)
| RPrealloc (r : res PrintDefs.prealloc_result)
| RStatus (r : res Z)
| RTreeOpt (r : res (option node))
| REdit (r : Heap.out CoreOps.result)
| RBadHandle.

Definition shared := option nat.     (* global_error: None = {NULL, 0}, Some p = json + p *)

Fixpoint remove_nth {A} (i : nat) (l : list A) : list A :=
  match l, i with [] , _ => [] | _ :: r, O => r | x :: r, S i' => x :: remove_nth i' r end.

Record private : Type := mkPriv { pool : list node; hp : Heap.heap; hst : CoreOps.state }.
Definition with_pool (p : private) (l : list node) : private := mkPriv l (hp p) (hst p).
Definition empty_private : private := mkPriv [] Heap.empty_heap CoreOps.empty_state.

Fixpoint set_nth {A} (i : nat) (x : A) (l : list A) : list A :=
  match l, i with [], _ => [] | _ :: r, O => x :: r | y :: r, S i' => y :: set_nth i' x r end.

Definition publish (r : res parse_result) (p : private) (g : shared) : result * private * shared :=
  match r with
  | Ok pr => (RParse r, with_pool p (match pr_tree pr with Some t => pool p ++ [t] | None => pool p end), pr_error pr)
  | _ => (RParse r, p, g)
  end.

Definition lib_step (c : call) (p : private) (g : shared) : result * private * shared :=
  match c with
  | KParse content len rnt => publish (run_parse_with_length_opts content len rnt 0) p g
  | KParseString content rnt => publish (run_parse_with_opts content rnt 0) p g
  | KMinify s => (RBytes (cJSON_Minify (s ++ [0])), p, g)
  | KCompare i j cs =>
      match nth_error (pool p) i, nth_error (pool p) j with
      | Some a, Some b => (RBool (cJSON_Compare (Some a) (Some b) (Nat.eqb i j) cs), p, g)
      | _, _ => (RBadHandle, p, g)
      end
  | KGetPointer i ptr cs =>
      match nth_error (pool p) i with
      | Some a => (RPath (if cs then cJSONUtils_GetPointerCaseSensitive a ptr else cJSONUtils_GetPointer a ptr), p, g)
      | None => (RBadHandle, p, g)
      end
  | KFindPointer i target =>
      match nth_error (pool p) i with
      | Some a => (RPtr (cJSONUtils_FindPointerFromObjectTo a target), p, g)
      | None => (RBadHandle, p, g)
      end
  | KDelete i => (RUnit, with_pool p (remove_nth i (pool p)), g)
  | KPrint i fmt =>
      match nth_error (pool p) i with
      | Some a => (RPrint (PrintEntry.run_print a fmt false 0), p, g)
      | None => (RBadHandle, p, g)
      end
  | KPrintBuffered i pre fmt =>
      match nth_error (pool p) i with
      | Some a => (RPrint (PrintEntry.run_print_buffered a pre fmt false 0), p, g)
      | None => (RBadHandle, p, g)
      end
  | KPrintPreallocated i buf fmt =>
      match nth_error (pool p) i with
      | Some a => (RPrealloc (PrintEntry.run_print_preallocated a (Some buf) (Z.of_nat (length buf)) fmt), p, g)
      | None => (RBadHandle, p, g)
      end
  | KApplyPatches i j cs =>
      match nth_error (pool p) i, nth_error (pool p) j with
      | Some d, Some pa =>
          match PatchDefs.apply_patches d pa cs with
          | Ok (st, d', pa') => (RStatus (Ok st), with_pool p (set_nth j pa' (set_nth i d' (pool p))), g)
          | OOB => (RStatus OOB, p, g)
          | OutOfFuel => (RStatus OutOfFuel, p, g)
          end
      | _, _ => (RBadHandle, p, g)
      end
  | KGeneratePatches i j cs =>
      match nth_error (pool p) i, nth_error (pool p) j with
      | Some a, Some b =>
          match PatchDefs.generate_patches a b cs with
          | Ok (pa, a', b') => (RTreeOpt (Ok (Some pa)), with_pool p (set_nth j b' (set_nth i a' (pool p)) ++ [pa]), g)
          | OOB => (RTreeOpt OOB, p, g)
          | OutOfFuel => (RTreeOpt OutOfFuel, p, g)
          end
      | _, _ => (RBadHandle, p, g)
      end
  | KMergePatch i j cs =>
      match nth_error (pool p) i, nth_error (pool p) j with
      | Some t, Some pa =>
          let r := MergeDefs.mp_MergePatch_gen cs (Some t) (Some pa) in
          (RTreeOpt (Ok r), with_pool p (match r with Some t' => set_nth i t' (pool p) | None => remove_nth i (pool p) end), g)
      | _, _ => (RBadHandle, p, g)
      end
  | KGenerateMergePatch i j cs =>
      match nth_error (pool p) i, nth_error (pool p) j with
      | Some a, Some b =>
          match MergeDefs.mp_GenerateMergePatch_gen cs (Some a) (Some b) with
          | Ok (pa, a', b') =>
              let l1 := match a' with Some x => set_nth i x (pool p) | None => pool p end in
              let l2 := match b' with Some x => set_nth j x l1 | None => l1 end in
              (RTreeOpt (Ok pa), with_pool p (match pa with Some x => l2 ++ [x] | None => l2 end), g)
          | OOB => (RTreeOpt OOB, p, g)
          | OutOfFuel => (RTreeOpt OutOfFuel, p, g)
          end
      | _, _ => (RBadHandle, p, g)
      end
  | KEdit o =>
      match CoreOps.run_op (fun _ => false) (hst p) o (hp p) with
      | Heap.Ret (r, st', h') => (REdit (Heap.Ret r), mkPriv (pool p) h' st', g)
      | Heap.Err e => (REdit (Heap.Err e), p, g)
      end
  end.

Lemma lib_independent : forall c p g g',
  res_of _ _ _ (lib_step c p g) = res_of _ _ _ (lib_step c p g') /\
  priv_of _ _ _ (lib_step c p g) = priv_of _ _ _ (lib_step c p g').
Proof.
  intros c p g g'. unfold res_of, priv_of.
  destruct c; cbn [lib_step];
    repeat match goal with
           | |- context [publish ?r _ _] => unfold publish; destruct r as [?| |]
           | |- context [match nth_error ?l ?i with _ => _ end] => destruct (nth_error l i)
           | |- context [match PatchDefs.apply_patches ?a ?b ?c with _ => _ end] => destruct (PatchDefs.apply_patches a b c) as [[[? ?] ?]| |]
           | |- context [match PatchDefs.generate_patches ?a ?b ?c with _ => _ end] => destruct (PatchDefs.generate_patches a b c) as [[[? ?] ?]| |]
           | |- context [match MergeDefs.mp_GenerateMergePatch_gen ?a ?b ?c with _ => _ end] => destruct (MergeDefs.mp_GenerateMergePatch_gen a b c) as [[[? ?] ?]| |]
           | |- context [match CoreOps.run_op ?a ?b ?c ?d with _ => _ end] => destruct (CoreOps.run_op a b c d) as [[[? ?] ?]|?]
           end; cbn; auto.
Qed.

Definition lib_thread := thread private call result.

(** every schedule, every set of threads, every initial value of the shared error position *)
Theorem library_interleaving_invisible : forall sched (ts : list lib_thread) g ts' g',
  run _ _ _ _ lib_step sched (ts, g) = (ts', g') ->
  length ts' = length ts /\
  forall i t, nth_error ts i = Some t ->
    exists k t', nth_error ts' i = Some t' /\ forall g0, t' = fst (alone _ _ _ _ lib_step k t g0).
Proof. exact (interleaving_invisible _ _ _ _ lib_step lib_independent). Qed.

Theorem library_finished_as_alone : forall sched (ts : list lib_thread) g ts' g' i t t',
  run _ _ _ _ lib_step sched (ts, g) = (ts', g') -> nth_error ts i = Some t -> nth_error ts' i = Some t' ->
  todo _ _ _ t' = [] -> forall g0, t' = fst (alone _ _ _ _ lib_step (length (todo _ _ _ t)) t g0).
Proof. exact (finished_as_alone _ _ _ _ lib_step lib_independent). Qed.

(** non-vacuity: two threads, one parsing a malformed text (which publishes an error position)
    while the other parses, compares and resolves a pointer; an interleaved schedule gives each
    thread the results of its run alone, although the shared error position differs *)
Definition ex_t1 : lib_thread := mkT _ _ _ empty_private [KParse [91; 49; 44] 3 false; KParse [91; 49; 93] 3 false; KCompare 0 0 true; KPrint 0 false;
   KEdit CoreOps.OCreateArray; KEdit (CoreOps.OCreateNumber (S754_zero false)); KEdit (CoreOps.OAddItemToArray (CoreOps.IH 0) (CoreOps.IH 1))] [].
Definition ex_t2 : lib_thread := mkT _ _ _ empty_private [KParse [123; 34; 97; 34; 58; 91; 50; 93; 125] 9 false; KGetPointer 0 [47; 97; 47; 48] true; KMinify [91; 32; 49; 32; 93];
   KParse [123; 34; 97; 34; 58; 91; 50; 44; 51; 93; 125] 11 false; KGenerateMergePatch 0 1 true; KGeneratePatches 0 1 true] [].
Definition ex_sched : list nat := [0; 1; 1; 0; 0; 1; 1; 0; 1; 0; 0; 1; 0]%nat.
Lemma ex_interleaved :
  let '(ts', g') := run _ _ _ _ lib_step ex_sched ([ex_t1; ex_t2], None) in
  nth_error ts' 0 = Some (fst (alone _ _ _ _ lib_step 7 ex_t1 None)) /\
  nth_error ts' 1 = Some (fst (alone _ _ _ _ lib_step 6 ex_t2 (Some 7%nat))) /\
  snd (alone _ _ _ _ lib_step 1 ex_t1 None) = Some 2%nat /\ g' = None.
Proof. vm_compute. repeat split. Qed.
