(** MergeDocEq.v — the boolean [doc_eq] of Rfc7396.v decides the declarative relation [doc_equiv]. *)
From CJ Require Import Base Dbl Tree CompareDefs CompareProofs MergeDefs Rfc7396 MergeLemmas.
Local Open Scope Z_scope.

Lemma arr_eq_iff (f : node -> node -> bool) (R : node -> node -> Prop) la :
  Forall (fun x => forall y, f x y = true <-> R x y) la -> forall lb, arr_eq f la lb = true <-> Forall2 R la lb.
Proof.
  induction 1 as [|x la Hx _ IH]; intros [|y lb]; cbn [arr_eq]; split; intro H; try discriminate; try constructor; try (inversion H; fail).
  - apply andb_true_iff in H. apply Hx. tauto.
  - apply andb_true_iff in H. apply IH. tauto.
  - inversion H; subst. apply andb_true_iff. split; [apply Hx; assumption|apply IH; assumption].
Qed.

Theorem doc_eq_iff : forall a b, doc_eq a b = true <-> doc_equiv a b.
Proof.
  induction a as [ty vs vi vd k ch IH] using node_ind'. intro b. rewrite doc_eq_unfold. cbn [n_ty n_vint n_vdbl n_vstr n_children].
  split.
  - intro H. apply andb_true_iff in H. destruct H as [Ht H]. apply Z.eqb_eq in Ht.
    destruct (Z.eqb_spec (tymask ty) c_cJSON_Number) as [En|_].
    { apply andb_true_iff in H. destruct H as [H1 H2]. apply Z.eqb_eq in H1. apply de_num; cbn [n_ty n_vint n_vdbl]; congruence. }
    destruct ((tymask ty =? c_cJSON_String) || (tymask ty =? c_cJSON_Raw)) eqn:Es.
    { destruct vs as [x|]; [|discriminate]. destruct (n_vstr b) as [y|] eqn:Eb; [|discriminate]. apply bytes_eqb_eq in H. subst y.
      apply de_str with (s := x); cbn [n_ty n_vstr]; try assumption; try reflexivity.
      apply orb_true_iff in Es. rewrite !Z.eqb_eq in Es. exact Es. }
    destruct (Z.eqb_spec (tymask ty) c_cJSON_Array) as [Ea|_].
    { apply de_arr; cbn [n_ty n_children]; [exact Ea|congruence|]. apply (arr_eq_iff doc_eq doc_equiv ch IH). exact H. }
    destruct (Z.eqb_spec (tymask ty) c_cJSON_Object) as [Eo|_].
    { apply andb_true_iff in H. destruct H as [H1 H2]. apply de_obj; cbn [n_ty n_children]; [exact Eo|congruence| |].
      - rewrite forallb_forall in H1. rewrite Forall_forall in IH. apply Forall_forall. intros x Hx. specialize (H1 x Hx).
        destruct (m7396_lookup (n_key x) (n_children b)) as [y|]; [|discriminate]. exists y. split; [reflexivity|]. apply IH; assumption.
      - rewrite forallb_forall in H2. apply Forall_forall. intros y Hy. specialize (H2 y Hy).
        destruct (m7396_lookup (n_key y) ch) as [x|]; [|discriminate]. exists x. reflexivity. }
    apply de_lit; cbn [n_ty]; [exact Ht|]. repeat rewrite orb_true_iff in H. repeat rewrite Z.eqb_eq in H. tauto.
  - intro H. inversion H as [a0 b0 Ht Hk|a0 b0 Ha Hb Hi Hd|a0 b0 s Ht Hk Ha Hb|a0 b0 Ha Hb Hf|a0 b0 Ha Hb Hf1 Hf2]; subst;
      cbn [n_ty n_vint n_vdbl n_vstr n_children] in *.
    + rewrite Ht, Z.eqb_refl. cbn [andb]. rewrite <- Ht. destruct Hk as [E|[E|E]]; rewrite E; reflexivity.
    + rewrite Ha, Hb, Hi, Hd, !Z.eqb_refl. reflexivity.
    + rewrite Ht, Z.eqb_refl. cbn [andb]. rewrite <- Ht, Ha, Hb. destruct Hk as [E|E]; rewrite E; tyred; apply bytes_eqb_refl.
    + rewrite Ha, Hb. tyred. apply (arr_eq_iff doc_eq doc_equiv ch IH). exact Hf.
    + rewrite Ha, Hb. tyred. apply andb_true_iff. split; apply forallb_forall.
      * intros x Hx. rewrite Forall_forall in Hf1, IH. destruct (Hf1 x Hx) as [y [Hy Hd]]. rewrite Hy. apply IH; assumption.
      * intros y Hy. rewrite Forall_forall in Hf2. destruct (Hf2 y Hy) as [x Hx]. rewrite Hx. reflexivity.
Qed.
