(** CoreRefineDupBase.v — infrastructure for the simulation of [cJSON_Duplicate] (property C11;
    the statements for every allocation oracle also serve C08).

    * [Closed h]: no block with an identity at or above [h_next h] exists (allocator invariant);
    * point-wise facts [nd_at]/[lk_at]/[str_is] (lookup + liveness);
    * [Ext ns ss g g']: heap [g'] is heap [g] plus the NEW node blocks [ns] and the new string
      blocks [ss] (everything else — in particular every block of [g] — untouched);
      closed under composition ([Ext_trans]) and under stores to the new node blocks;
    * stepping lemmas for the allocating primitives ([cJSON_New_Item], [cJSON_strdup]) and
      the stores on an arbitrary heap. *)
From CJ Require Import Base Dbl Heap Forest ForestLemmas CoreSpec CoreDefs CoreRefineBase CoreRefine CoreRefineDelete.
From CJ.gen Require Import Constants.
From stdpp Require Import gmap.
From Coq Require Import Lia.

Implicit Types (g h : heap) (i n b k : positive) (d : rdata) (ts cs : list tree).

(** * closed heaps *)
Definition Closed h : Prop := forall k, (h_next h <= k)%positive ->
  k ∉ h_live h /\ h_lnk h !! k = None /\ h_dat h !! k = None /\ h_str h !! k = None.

Lemma Closed_empty : Closed empty_heap.
Proof. intros k _. cbn. split_and!; [set_solver|done..]. Qed.

Lemma Closed_live h k : Closed h -> k ∈ h_live h -> (k < h_next h)%positive.
Proof. intros C Hk. destruct (Pos.ltb_spec k (h_next h)) as [|Hle]; [done|]. by destruct (C k Hle) as [? _]. Qed.

(** * point-wise facts *)
Definition nd_at h i (nd : ndata) : Prop := i ∈ h_live h /\ h_dat h !! i = Some nd.
Definition lk_at h i (e : ptr * ptr) : Prop := i ∈ h_live h /\ h_lnk h !! i = Some e.
Definition str_is h b (s : bytes) : Prop := b ∈ h_live h /\ h_str h !! b = Some s.

(** * frames *)
Record Ext (ns ss : list positive) (g g' : heap) : Prop := mkExt {
  xt_lnk : forall k, k ∉ ns -> h_lnk g' !! k = h_lnk g !! k;
  xt_dat : forall k, k ∉ ns -> h_dat g' !! k = h_dat g !! k;
  xt_str : forall k, k ∉ ss -> h_str g' !! k = h_str g !! k;
  xt_live : forall k, k ∉ ns -> k ∉ ss -> (k ∈ h_live g' <-> k ∈ h_live g);
  xt_own : forall k, (k < h_next g)%positive -> h_own g' !! k = h_own g !! k;
  xt_next : (h_next g <= h_next g')%positive;
  xt_req : h_req g <= h_req g';
  xt_hooks : h_hooks g' = h_hooks g;
  xt_new : forall b, b ∈ ns ++ ss ->
             (h_next g <= b)%positive /\ (b < h_next g')%positive /\ b ∈ h_live g' /\ h_own g' !! b = Some Lib;
  xt_closed0 : Closed g;
  xt_closed : Closed g'
}.

Lemma Ext_refl g : Closed g -> Ext [] [] g g.
Proof. intros C. constructor; try done; try lia. intros b Hb. by apply elem_of_nil in Hb. Qed.

Lemma Ext_old ns ss g g' k : Ext ns ss g g' -> k ∈ h_live g -> k ∉ ns /\ k ∉ ss.
Proof.
  intros Fr Hk. pose proof (Closed_live _ _ (xt_closed0 _ _ _ _ Fr) Hk) as Hlt.
  split; intros Hin; destruct (xt_new _ _ _ _ Fr k) as [Hge _]; try (apply elem_of_app; eauto); lia.
Qed.
Lemma Ext_old_lt ns ss g g' k : Ext ns ss g g' -> (k < h_next g)%positive -> k ∉ ns /\ k ∉ ss.
Proof.
  intros Fr Hlt.
  split; intros Hin; destruct (xt_new _ _ _ _ Fr k) as [Hge _]; try (apply elem_of_app; eauto); lia.
Qed.

Lemma nd_at_frame ns ss g g' i nd : Ext ns ss g g' -> nd_at g i nd -> nd_at g' i nd.
Proof.
  intros Fr [H1 H2]. destruct (Ext_old _ _ _ _ _ Fr H1) as [Hn Hs]. split.
  - by apply (xt_live _ _ _ _ Fr).
  - by rewrite (xt_dat _ _ _ _ Fr).
Qed.
Lemma lk_at_frame ns ss g g' i e : Ext ns ss g g' -> lk_at g i e -> lk_at g' i e.
Proof.
  intros Fr [H1 H2]. destruct (Ext_old _ _ _ _ _ Fr H1) as [Hn Hs]. split.
  - by apply (xt_live _ _ _ _ Fr).
  - by rewrite (xt_lnk _ _ _ _ Fr).
Qed.
Lemma str_is_frame ns ss g g' b s : Ext ns ss g g' -> str_is g b s -> str_is g' b s.
Proof.
  intros Fr [H1 H2]. destruct (Ext_old _ _ _ _ _ Fr H1) as [Hn Hs]. split.
  - by apply (xt_live _ _ _ _ Fr).
  - by rewrite (xt_str _ _ _ _ Fr).
Qed.

Lemma Ext_ext ns ss ns' ss' g g' :
  (forall k, k ∈ ns <-> k ∈ ns') -> (forall k, k ∈ ss <-> k ∈ ss') -> Ext ns ss g g' -> Ext ns' ss' g g'.
Proof.
  intros Hn Hs Fr. constructor; try apply Fr.
  - intros k Hk. apply (xt_lnk _ _ _ _ Fr). by rewrite Hn.
  - intros k Hk. apply (xt_dat _ _ _ _ Fr). by rewrite Hn.
  - intros k Hk. apply (xt_str _ _ _ _ Fr). by rewrite Hs.
  - intros k Hk Hk'. apply (xt_live _ _ _ _ Fr); [by rewrite Hn|by rewrite Hs].
  - intros b Hb. apply (xt_new _ _ _ _ Fr). rewrite elem_of_app in *. rewrite Hn, Hs. done.
Qed.

Lemma Ext_trans ns1 ss1 ns2 ss2 g g1 g2 :
  Ext ns1 ss1 g g1 -> Ext ns2 ss2 g1 g2 -> Ext (ns1 ++ ns2) (ss1 ++ ss2) g g2.
Proof.
  intros F1 F2.
  pose proof (xt_next _ _ _ _ F1) as N1. pose proof (xt_next _ _ _ _ F2) as N2.
  constructor.
  - intros k Hk. apply not_elem_of_app in Hk as [H1 H2].
    rewrite (xt_lnk _ _ _ _ F2) by done. by apply (xt_lnk _ _ _ _ F1).
  - intros k Hk. apply not_elem_of_app in Hk as [H1 H2].
    rewrite (xt_dat _ _ _ _ F2) by done. by apply (xt_dat _ _ _ _ F1).
  - intros k Hk. apply not_elem_of_app in Hk as [H1 H2].
    rewrite (xt_str _ _ _ _ F2) by done. by apply (xt_str _ _ _ _ F1).
  - intros k Hk Hk'. apply not_elem_of_app in Hk as [H1 H2]. apply not_elem_of_app in Hk' as [H3 H4].
    rewrite (xt_live _ _ _ _ F2) by done. by apply (xt_live _ _ _ _ F1).
  - intros k Hk. rewrite (xt_own _ _ _ _ F2) by lia. by apply (xt_own _ _ _ _ F1).
  - lia.
  - pose proof (xt_req _ _ _ _ F1). pose proof (xt_req _ _ _ _ F2). lia.
  - rewrite (xt_hooks _ _ _ _ F2). apply F1.
  - intros b Hb.
    assert (Hcase : b ∈ ns1 ++ ss1 \/ b ∈ ns2 ++ ss2).
    { rewrite !elem_of_app in *. tauto. }
    destruct Hcase as [Hb1|Hb2].
    + destruct (xt_new _ _ _ _ F1 b Hb1) as (A1 & A2 & A3 & A4).
      destruct (Ext_old _ _ _ _ _ F2 A3) as [B1 B2].
      split_and!; [done|lia| |].
      * by apply (xt_live _ _ _ _ F2).
      * by rewrite (xt_own _ _ _ _ F2).
    + destruct (xt_new _ _ _ _ F2 b Hb2) as (A1 & A2 & A3 & A4). split_and!; [lia|done..].
  - apply F1.
  - apply F2.
Qed.

(** a store to the link / data entry of a NEW node block keeps the frame *)
Lemma Ext_upd_maps ns ss g g' L D :
  Ext ns ss g g' ->
  (forall k, k ∉ ns -> L !! k = h_lnk g' !! k) ->
  (forall k, k ∉ ns -> D !! k = h_dat g' !! k) ->
  Ext ns ss g (upd_maps g' L D).
Proof.
  intros Fr HL HD. constructor; cbn; try apply Fr.
  - intros k Hk. rewrite HL by done. by apply (xt_lnk _ _ _ _ Fr).
  - intros k Hk. rewrite HD by done. by apply (xt_dat _ _ _ _ Fr).
  - intros k Hk. cbn in Hk. destruct (xt_closed _ _ _ _ Fr k Hk) as (C1 & C2 & C3 & C4).
    assert (Hkn : k ∉ ns).
    { intros Hin. destruct (xt_new _ _ _ _ Fr k) as (_ & ? & _); [apply elem_of_app; by left|lia]. }
    split_and!; [done| | |done].
    + by rewrite HL.
    + by rewrite HD.
Qed.
Lemma Ext_st_lnk ns ss g g' i e :
  Ext ns ss g g' -> i ∈ ns -> Ext ns ss g (upd_maps g' (<[i := e]> (h_lnk g')) (h_dat g')).
Proof.
  intros Fr Hi. apply Ext_upd_maps; [done| |done].
  intros k Hk. rewrite lookup_insert_ne; [done|]. intros ->. done.
Qed.
Lemma Ext_st_dat ns ss g g' i nd :
  Ext ns ss g g' -> i ∈ ns -> Ext ns ss g (set_dat g' (<[i := nd]> (h_dat g'))).
Proof.
  intros Fr Hi. apply Ext_upd_maps; [done|done|].
  intros k Hk. rewrite lookup_insert_ne; [done|]. intros ->. done.
Qed.

(** * the allocating primitives *)
Definition alloc_node_h h : heap :=
  mkHeap (<[h_next h := (None, None)]> (h_lnk h)) (<[h_next h := nd0]> (h_dat h)) (h_str h)
         (<[h_next h := Lib]> (h_own h)) ({[h_next h]} ∪ h_live h) (Pos.succ (h_next h)) (S (h_req h)) (h_hooks h)
         (EvAlloc (h_next h) (via_malloc h) :: h_trace h).
Definition alloc_str_h h (s : bytes) : heap :=
  mkHeap (h_lnk h) (h_dat h) (<[h_next h := s]> (h_str h))
         (<[h_next h := Lib]> (h_own h)) ({[h_next h]} ∪ h_live h) (Pos.succ (h_next h)) (S (h_req h)) (h_hooks h)
         (EvAlloc (h_next h) (via_malloc h) :: h_trace h).

Section Alloc.
  Variable oracle : nat -> bool.

  Lemma run_New_Item_ok h : oracle (h_req h) = false ->
    cJSON_New_Item oracle h = Ret (Some (h_next h), alloc_node_h h).
  Proof. intros Ho. unfold cJSON_New_Item, alloc_node. by rewrite Ho. Qed.
  Lemma run_New_Item_fail h : oracle (h_req h) = true ->
    cJSON_New_Item oracle h = Ret (None, bump h).
  Proof. intros Ho. unfold cJSON_New_Item, alloc_node. by rewrite Ho. Qed.

  Lemma run_alloc_bytes_ok h init : oracle (h_req h) = false ->
    alloc_bytes oracle init h = Ret (Some (h_next h), alloc_str_h h init).
  Proof. intros Ho. unfold alloc_bytes. by rewrite Ho. Qed.
  Lemma run_st_str h b old s :
    b ∈ h_live h -> h_str h !! b = Some old -> h_own h !! b = Some Lib -> length s = length old ->
    st_str (Some b) s h =
    Ret (tt, mkHeap (h_lnk h) (h_dat h) (<[b := s]> (h_str h)) (h_own h) (h_live h) (h_next h) (h_req h)
                    (h_hooks h) (h_trace h)).
  Proof.
    intros H1 H2 H3 H4. unfold st_str, bindM, chk. rewrite decide_True by done. rewrite H2, H3.
    by rewrite (proj2 (Nat.eqb_eq _ _) H4).
  Qed.

  Lemma run_strdup_ok h b s : str_is h b s -> existsb (Z.eqb 0) s = true -> oracle (h_req h) = false ->
    cJSON_strdup oracle (Some b) h = Ret (Some (h_next h), alloc_str_h h (cstr s ++ [0%Z])).
  Proof.
    intros [Hl Hs] Hz Ho. unfold cJSON_strdup. cbn [is_null].
    assert (Hld : ld_cstr (Some b) h = Ret (cstr s, h)).
    { unfold ld_cstr, ld_str, bindM, chk. rewrite decide_True by done. rewrite Hs, Hz. reflexivity. }
    rewrite (bindM_Ret _ _ _ _ _ Hld).
    rewrite (bindM_Ret _ _ _ _ _ (run_alloc_bytes_ok _ _ Ho)). cbn [is_null].
    set (h1 := alloc_str_h h (repeat 0%Z (S (length (cstr s))))).
    assert (Hst : st_str (Some (h_next h)) (cstr s ++ [0%Z]) h1 =
                  Ret (tt, mkHeap (h_lnk h1) (h_dat h1) (<[h_next h := cstr s ++ [0%Z]]> (h_str h1)) (h_own h1)
                                  (h_live h1) (h_next h1) (h_req h1) (h_hooks h1) (h_trace h1))).
    { apply (run_st_str h1 (h_next h) (repeat 0%Z (S (length (cstr s))))).
      - cbn. set_solver.
      - cbn. by rewrite lookup_insert.
      - cbn. by rewrite lookup_insert.
      - rewrite app_length, repeat_length. cbn. lia. }
    rewrite (bindM_Ret _ _ _ _ _ Hst).
    unfold ret, alloc_str_h, h1. cbn. do 3 f_equal. by rewrite insert_insert.
  Qed.
  Lemma run_strdup_fail h b s : str_is h b s -> existsb (Z.eqb 0) s = true -> oracle (h_req h) = true ->
    cJSON_strdup oracle (Some b) h = Ret (None, bump h).
  Proof.
    intros [Hl Hs] Hz Ho. unfold cJSON_strdup. cbn [is_null].
    assert (Hld : ld_cstr (Some b) h = Ret (cstr s, h)).
    { unfold ld_cstr, ld_str, bindM, chk. rewrite decide_True by done. rewrite Hs, Hz. reflexivity. }
    rewrite (bindM_Ret _ _ _ _ _ Hld).
    unfold bindM at 1. unfold alloc_bytes. rewrite Ho. reflexivity.
  Qed.
End Alloc.

Lemma Ext_bump g : Closed g -> Ext [] [] g (bump g).
Proof.
  intros C. constructor; cbn; try done; try lia.
  intros b Hb. by apply elem_of_nil in Hb.
Qed.

Lemma Ext_alloc_node g : Closed g -> Ext [h_next g] [] g (alloc_node_h g).
Proof.
  intros C. constructor; cbn; try done; try lia.
  - intros k Hk. apply not_elem_of_cons in Hk as [Hk _]. by rewrite lookup_insert_ne.
  - intros k Hk. apply not_elem_of_cons in Hk as [Hk _]. by rewrite lookup_insert_ne.
  - intros k Hk _. apply not_elem_of_cons in Hk as [Hk _]. set_solver.
  - intros k Hk. rewrite lookup_insert_ne; [done|]. lia.
  - intros b Hb. cbn in Hb. apply elem_of_list_singleton in Hb as ->.
    split_and!; [lia|lia|set_solver|by rewrite lookup_insert].
  - intros k Hk. cbn in Hk. destruct (C k) as (C1 & C2 & C3 & C4); [lia|]. cbn.
    split_and!; [|rewrite lookup_insert_ne; [done|lia]|rewrite lookup_insert_ne; [done|lia]|done].
    intros Hin. apply elem_of_union in Hin as [Hin|Hin]; [|done]. apply elem_of_singleton in Hin. lia.
Qed.

Lemma Ext_alloc_str g s : Closed g -> Ext [] [h_next g] g (alloc_str_h g s).
Proof.
  intros C. constructor; cbn; try done; try lia.
  - intros k Hk. apply not_elem_of_cons in Hk as [Hk _]. by rewrite lookup_insert_ne.
  - intros k _ Hk. apply not_elem_of_cons in Hk as [Hk _]. set_solver.
  - intros k Hk. rewrite lookup_insert_ne; [done|]. lia.
  - intros b Hb. cbn in Hb. apply elem_of_list_singleton in Hb as ->.
    split_and!; [lia|lia|set_solver|by rewrite lookup_insert].
  - intros k Hk. cbn in Hk. destruct (C k) as (C1 & C2 & C3 & C4); [lia|]. cbn.
    split_and!; [|done|done|rewrite lookup_insert_ne; [done|lia]].
    intros Hin. apply elem_of_union in Hin as [Hin|Hin]; [|done]. apply elem_of_singleton in Hin. lia.
Qed.

(** * loads and stores on an arbitrary heap *)
Lemma run_get_vint_plain h i nd : nd_at h i nd -> get_vint (Some i) h = Ret (nd_vint nd, h).
Proof.
  intros [H1 H2]. unfold get_vint, ld_dat, bindM, chk. rewrite decide_True by done. by rewrite H2.
Qed.
Lemma run_get_vdbl_plain h i nd : nd_at h i nd -> get_vdbl (Some i) h = Ret (nd_vdbl nd, h).
Proof.
  intros [H1 H2]. unfold get_vdbl, ld_dat, bindM, chk. rewrite decide_True by done. by rewrite H2.
Qed.
Definition nd_set_vint (nd : ndata) (v : Z) : ndata :=
  mkND (nd_type nd) (nd_vstr nd) v (nd_vdbl nd) (nd_key nd) (nd_child nd).
Definition nd_set_vdbl (nd : ndata) (v : dbl) : ndata :=
  mkND (nd_type nd) (nd_vstr nd) (nd_vint nd) v (nd_key nd) (nd_child nd).
Lemma run_set_vint_plain h i nd v : nd_at h i nd ->
  set_vint (Some i) v h = Ret (tt, set_dat h (<[i := nd_set_vint nd v]> (h_dat h))).
Proof.
  intros [H1 H2]. unfold set_vint, ld_dat, st_dat, bindM, chk. rewrite decide_True by done. rewrite H2.
  rewrite decide_True by done. by rewrite H2.
Qed.
Lemma run_set_vdbl_plain h i nd v : nd_at h i nd ->
  set_vdbl (Some i) v h = Ret (tt, set_dat h (<[i := nd_set_vdbl nd v]> (h_dat h))).
Proof.
  intros [H1 H2]. unfold set_vdbl, ld_dat, st_dat, bindM, chk. rewrite decide_True by done. rewrite H2.
  rewrite decide_True by done. by rewrite H2.
Qed.
Lemma run_set_child_plain h i nd v : nd_at h i nd ->
  set_child (Some i) v h = Ret (tt, set_dat h (<[i := nd_set_child nd v]> (h_dat h))).
Proof.
  intros [H1 H2]. unfold set_child, ld_dat, st_dat, bindM, chk. rewrite decide_True by done. rewrite H2.
  rewrite decide_True by done. by rewrite H2.
Qed.
Definition set_lnk h L : heap := upd_maps h L (h_dat h).
Lemma run_set_next_plain h i e v : lk_at h i e ->
  set_next (Some i) v h = Ret (tt, set_lnk h (<[i := (v, e.2)]> (h_lnk h))).
Proof.
  intros [H1 H2]. unfold set_next, ld_lnk, st_lnk, bindM, chk. rewrite decide_True by done. rewrite H2.
  rewrite decide_True by done. by rewrite H2.
Qed.
Lemma run_set_prev_plain h i e v : lk_at h i e ->
  set_prev (Some i) v h = Ret (tt, set_lnk h (<[i := (e.1, v)]> (h_lnk h))).
Proof.
  intros [H1 H2]. unfold set_prev, ld_lnk, st_lnk, bindM, chk. rewrite decide_True by done. rewrite H2.
  rewrite decide_True by done. by rewrite H2.
Qed.

Lemma set_dat_set_dat h D D' : set_dat (set_dat h D) D' = set_dat h D'.
Proof. reflexivity. Qed.

(** point-wise facts after a store *)
Lemma nd_at_set_dat_eq h i nd D : i ∈ h_live h -> D !! i = Some nd -> nd_at (set_dat h D) i nd.
Proof. intros H1 H2. split; done. Qed.
Lemma nd_at_set_dat_ne h i j nd nd' : nd_at h i nd -> i <> j -> nd_at (set_dat h (<[j := nd']> (h_dat h))) i nd.
Proof. intros [H1 H2] Hne. split; [done|]. cbn. by rewrite lookup_insert_ne. Qed.
Lemma lk_at_set_dat h i e D : lk_at h i e -> lk_at (set_dat h D) i e.
Proof. intros [H1 H2]. split; done. Qed.
Lemma str_is_set_dat h b s D : str_is h b s -> str_is (set_dat h D) b s.
Proof. intros [H1 H2]. split; done. Qed.
Lemma nd_at_set_lnk h i nd L : nd_at h i nd -> nd_at (set_lnk h L) i nd.
Proof. intros [H1 H2]. split; done. Qed.
Lemma str_is_set_lnk h b s L : str_is h b s -> str_is (set_lnk h L) b s.
Proof. intros [H1 H2]. split; done. Qed.
Lemma lk_at_set_lnk_ne h i j e e' : lk_at h i e -> i <> j -> lk_at (set_lnk h (<[j := e']> (h_lnk h))) i e.
Proof. intros [H1 H2] Hne. split; [done|]. cbn. by rewrite lookup_insert_ne. Qed.
Lemma lk_at_set_lnk_eq h i e e' : lk_at h i e -> lk_at (set_lnk h (<[i := e']> (h_lnk h))) i e'.
Proof. intros [H1 H2]. split; [done|]. cbn. by rewrite lookup_insert. Qed.

(** * the flag bits of the copy's type *)
Lemma clear_ref_is_ref t : has_flag (clear_flag t c_cJSON_IsReference) c_cJSON_IsReference = false.
Proof.
  unfold has_flag, clear_flag. rewrite <- Z.land_assoc.
  replace (Z.land (Z.lnot c_cJSON_IsReference) c_cJSON_IsReference) with 0%Z by reflexivity.
  by rewrite Z.land_0_r.
Qed.
Lemma clear_ref_is_const t :
  has_flag (clear_flag t c_cJSON_IsReference) c_cJSON_StringIsConst = has_flag t c_cJSON_StringIsConst.
Proof.
  unfold has_flag, clear_flag. rewrite <- Z.land_assoc.
  by replace (Z.land (Z.lnot c_cJSON_IsReference) c_cJSON_StringIsConst) with c_cJSON_StringIsConst by reflexivity.
Qed.
