(** CoreDefs.v — transliteration of the DOM (tree) API of cJSON.c on the heap of Heap.v.

    Every function below follows its C counterpart statement by statement: same guards
    (with the short-circuit order of [&&]/[||]), same order of loads, stores, allocations
    and releases.  Pointers are block identities ([ptr]); a [const char *] argument is a
    [ptr] to a byte block (owned or foreign), so a key argument can BE the key block of the
    item that is being moved.  Loops run on fuel ([NoFuel]); the public entry points
    compute their fuel from the heap they are called in ([heap_fuel]: number of block
    identities handed out so far + 1 — a finite sibling chain / tree consists of distinct
    live blocks, whose identities are all below [h_next]).
    Error outcomes of [M] are the memory-safety violations.  No proofs here.

    Naming: the C name, verbatim.  [f_fuel] is the fuelled body of [f]; [f_loop] a loop of [f]. *)
From stdpp Require Import gmap.
From Coq Require Import Floats.SpecFloat.
From CJ Require Import Base Dbl Heap.
From CJ.gen Require Import Constants.
Local Open Scope Z_scope.

(** * small vocabulary *)
Definition is_null (p : ptr) : bool := match p with None => true | Some _ => false end.
Definition ptr_eqb (a b : ptr) : bool :=
  match a, b with
  | None, None => true
  | Some x, Some y => Pos.eqb x y
  | _, _ => false
  end.
(** [t & f] is non-zero *)
Definition has_flag (t f : Z) : bool := negb (Z.land t f =? 0).
(** [t & ~f] *)
Definition clear_flag (t f : Z) : Z := Z.land t (Z.lnot f).
(** [if (b) { m }] *)
Definition when (b : bool) (m : M unit) : M unit := if b then m else ret tt.
(** loop bound supplied by the entry points: the number of block identities handed out so far, + 1
    (every live block has an identity below [h_next]; a finite chain / tree consists of distinct live blocks) *)
Definition heap_fuel : M nat := fun h => Ret (Pos.to_nat (h_next h), h).

Definition get_vint (p : ptr) : M Z := d <~ ld_dat p ;; ret (nd_vint d).
Definition get_vdbl (p : ptr) : M dbl := d <~ ld_dat p ;; ret (nd_vdbl d).

(** [(item->type & 0xFF) == k], for a non-NULL item *)
Definition type_is (p : ptr) (k : Z) : M bool := t <~ get_type p ;; ret (Z.land t 255 =? k).

(** cJSON_InitHooks argument: NULL, or a struct whose members are NULL ([false]) or not *)
Definition hooks_arg := option (bool * bool).

Section Core.
  Variable oracle : nat -> bool.

  (** ** hooks, cJSON_malloc, cJSON_free *)

  Definition cJSON_InitHooks (hooks : hooks_arg) : M unit :=
    match hooks with
    | None => set_hooks (mkHooks false false)              (* reset: malloc, free, realloc *)
    | Some (malloc_fn, free_fn) =>
        (* allocate = malloc; if (malloc_fn != NULL) allocate = malloc_fn; likewise deallocate;
           reallocate = realloc iff both are the defaults ([hooks_realloc_available]) *)
        set_hooks (mkHooks malloc_fn free_fn)
    end.

  (** cJSON_malloc(size): the block's initial contents are the caller's choice ([length init] = size) *)
  Definition cJSON_malloc (init : bytes) : M ptr := alloc_bytes oracle init.
  Definition cJSON_free (object : ptr) : M unit := free_block object.

  (** ** cJSON_strdup, cJSON_New_Item, cJSON_Delete *)

  Definition cJSON_strdup (string : ptr) : M ptr :=
    if is_null string then ret None else
    s <~ ld_cstr string ;;                                            (* length = strlen(string) + 1 *)
    copy <~ alloc_bytes oracle (repeat 0 (S (length s))) ;;           (* hooks->allocate(length) *)
    if is_null copy then ret None else
    st_str copy (s ++ [0]) ;;;                                        (* memcpy(copy, string, length) *)
    ret copy.

  Definition cJSON_New_Item : M ptr := alloc_node oracle.             (* allocate + memset 0 *)

  Fixpoint cJSON_Delete_fuel (fuel : nat) (item : ptr) : M unit :=
    match fuel with
    | O => fail NoFuel
    | S f =>
        if is_null item then ret tt else                              (* while (item != NULL) *)
        next <~ get_next item ;;
        t1 <~ get_type item ;;
        (if has_flag t1 c_cJSON_IsReference then ret tt else
           child <~ get_child item ;;
           when (negb (is_null child)) (cJSON_Delete_fuel f child)) ;;;
        t2 <~ get_type item ;;
        (if has_flag t2 c_cJSON_IsReference then ret tt else
           vs <~ get_vstr item ;;
           when (negb (is_null vs)) (free_block vs ;;; set_vstr item None)) ;;;
        t3 <~ get_type item ;;
        (if has_flag t3 c_cJSON_StringIsConst then ret tt else
           k <~ get_key item ;;
           when (negb (is_null k)) (free_block k ;;; set_key item None)) ;;;
        free_block item ;;;
        cJSON_Delete_fuel f next                                      (* item = next *)
    end.
  Definition cJSON_Delete (item : ptr) : M unit :=
    fuel <~ heap_fuel ;; cJSON_Delete_fuel fuel item.

  (** ** value accessors and setters *)

  Definition cJSON_IsString (item : ptr) : M bool :=
    if is_null item then ret false else type_is item c_cJSON_String.
  Definition cJSON_IsNumber (item : ptr) : M bool :=
    if is_null item then ret false else type_is item c_cJSON_Number.

  Definition cJSON_GetStringValue (item : ptr) : M ptr :=
    b <~ cJSON_IsString item ;;
    if negb b then ret None else get_vstr item.

  Definition cJSON_GetNumberValue (item : ptr) : M dbl :=
    b <~ cJSON_IsNumber item ;;
    if negb b then ret S754_nan else get_vdbl item.

  (** cJSON_SetNumberHelper(object, number): no NULL check (the macro does it) *)
  Definition cJSON_SetNumberHelper (object : ptr) (number : dbl) : M dbl :=
    set_vint object (sat_int number) ;;;
    set_vdbl object number ;;;
    ret number.
  (** macro cJSON_SetNumberValue(object, number) *)
  Definition cJSON_SetNumberValue (object : ptr) (number : dbl) : M dbl :=
    if negb (is_null object) then cJSON_SetNumberHelper object number else ret number.
  (** macro cJSON_SetIntValue(object, number) for an [int] number:
      (object) ? (object)->valueint = (object)->valuedouble = (number) : (number) *)
  Definition cJSON_SetIntValue (object : ptr) (number : Z) : M Z :=
    if is_null object then ret number else
    set_vdbl object (dbl_of_int number) ;;;
    set_vint object number ;;;
    ret number.

  (** macro cJSON_SetBoolValue(object, boolValue): the new type, or cJSON_Invalid *)
  Definition cJSON_SetBoolValue (object : ptr) (boolValue : bool) : M Z :=
    if is_null object then ret c_cJSON_Invalid else
    t <~ get_type object ;;
    if has_flag t (Z.lor c_cJSON_False c_cJSON_True) then
      t' <~ get_type object ;;
      let v := Z.lor (clear_flag t' (Z.lor c_cJSON_False c_cJSON_True))
                     (if boolValue then c_cJSON_True else c_cJSON_False) in
      set_type object v ;;; ret v
    else ret c_cJSON_Invalid.

  (** cJSON_SetValuestring.  The address comparison that guards strcpy is modelled as: two
      distinct blocks never overlap, a block overlaps itself. *)
  Definition cJSON_SetValuestring (object : ptr) (valuestring : ptr) : M ptr :=
    if is_null object then ret None else
    t <~ get_type object ;;
    if negb (has_flag t c_cJSON_String) then ret None else
    if has_flag t c_cJSON_IsReference then ret None else
    ovs <~ get_vstr object ;;
    if is_null ovs || is_null valuestring then ret None else
    v1 <~ ld_cstr valuestring ;;                                      (* v1_len = strlen(valuestring) *)
    ovs2 <~ get_vstr object ;;
    v2 <~ ld_cstr ovs2 ;;                                             (* v2_len = strlen(object->valuestring) *)
    if (length v1 <=? length v2)%nat then
      ovs3 <~ get_vstr object ;;
      if ptr_eqb valuestring ovs3 then ret None else                  (* overlap *)
      dst <~ get_vstr object ;;
      old <~ ld_str dst ;;
      st_str dst (v1 ++ 0 :: skipn (S (length v1)) old) ;;;           (* strcpy(object->valuestring, valuestring) *)
      get_vstr object
    else
      copy <~ cJSON_strdup valuestring ;;
      if is_null copy then ret None else
      ovs4 <~ get_vstr object ;;
      when (negb (is_null ovs4)) (ovs5 <~ get_vstr object ;; cJSON_free ovs5) ;;;
      set_vstr object copy ;;;
      ret copy.

  (** ** queries *)

  Fixpoint cJSON_GetArraySize_loop (fuel : nat) (child : ptr) (size : Z) : M Z :=
    match fuel with
    | O => fail NoFuel
    | S f =>
        if is_null child then ret size else
        nx <~ get_next child ;;
        cJSON_GetArraySize_loop f nx (size + 1)
    end.
  (** the final cast [(int)size] is the identity below 2^31 elements *)
  Definition cJSON_GetArraySize (array : ptr) : M Z :=
    if is_null array then ret 0 else
    child <~ get_child array ;;
    fuel <~ heap_fuel ;;
    cJSON_GetArraySize_loop fuel child 0.

  Fixpoint get_array_item_loop (fuel : nat) (current_child : ptr) (index : Z) : M ptr :=
    match fuel with
    | O => fail NoFuel
    | S f =>
        if negb (is_null current_child) && (0 <? index) then
          nx <~ get_next current_child ;;
          get_array_item_loop f nx (index - 1)
        else ret current_child
    end.
  (** [index] is a size_t: non-negative *)
  Definition get_array_item (array : ptr) (index : Z) : M ptr :=
    if is_null array then ret None else
    current_child <~ get_child array ;;
    fuel <~ heap_fuel ;;
    get_array_item_loop fuel current_child index.

  Definition cJSON_GetArrayItem (array : ptr) (index : Z) : M ptr :=
    if index <? 0 then ret None else get_array_item array index.

  (** case_insensitive_strcmp on two string pointers (result: zero / non-zero matters only) *)
  Definition case_insensitive_strcmp (string1 string2 : ptr) : M Z :=
    if is_null string1 || is_null string2 then ret 1 else
    if ptr_eqb string1 string2 then ret 0 else
    a <~ ld_cstr string1 ;;
    b <~ ld_cstr string2 ;;
    ret (strcasecmp_c a b).

  (** the two while loops of get_object_item: return the element the loop stops at *)
  Fixpoint get_object_item_loop_cs (fuel : nat) (current_element : ptr) (name : ptr) : M ptr :=
    match fuel with
    | O => fail NoFuel
    | S f =>
        if is_null current_element then ret current_element else
        k <~ get_key current_element ;;
        if is_null k then ret current_element else
        n <~ ld_cstr name ;;
        ks <~ ld_cstr k ;;
        if negb (strcmp n ks =? 0) then
          nx <~ get_next current_element ;;
          get_object_item_loop_cs f nx name
        else ret current_element
    end.
  Fixpoint get_object_item_loop_ci (fuel : nat) (current_element : ptr) (name : ptr) : M ptr :=
    match fuel with
    | O => fail NoFuel
    | S f =>
        if is_null current_element then ret current_element else
        k <~ get_key current_element ;;
        c <~ case_insensitive_strcmp name k ;;
        if negb (c =? 0) then
          nx <~ get_next current_element ;;
          get_object_item_loop_ci f nx name
        else ret current_element
    end.
  Definition get_object_item (object : ptr) (name : ptr) (case_sensitive : bool) : M ptr :=
    if is_null object || is_null name then ret None else
    child <~ get_child object ;;
    fuel <~ heap_fuel ;;
    current_element <~ (if case_sensitive then get_object_item_loop_cs fuel child name
                        else get_object_item_loop_ci fuel child name) ;;
    if is_null current_element then ret None else
    k <~ get_key current_element ;;
    if is_null k then ret None else ret current_element.

  Definition cJSON_GetObjectItem (object : ptr) (string : ptr) : M ptr := get_object_item object string false.
  Definition cJSON_GetObjectItemCaseSensitive (object : ptr) (string : ptr) : M ptr := get_object_item object string true.
  Definition cJSON_HasObjectItem (object : ptr) (string : ptr) : M bool :=
    r <~ cJSON_GetObjectItem object string ;; ret (negb (is_null r)).

  (** ** list handling *)

  Definition suffix_object (prev item : ptr) : M unit :=
    set_next prev item ;;;
    set_prev item prev.

  Definition create_reference (item : ptr) : M ptr :=
    if is_null item then ret None else
    reference <~ cJSON_New_Item ;;
    if is_null reference then ret None else
    l <~ ld_lnk item ;;                                               (* memcpy(reference, item, sizeof(cJSON)) *)
    d <~ ld_dat item ;;
    st_lnk reference l ;;;
    st_dat reference d ;;;
    set_key reference None ;;;
    t <~ get_type reference ;;
    set_type reference (Z.lor t c_cJSON_IsReference) ;;;
    set_prev reference None ;;;                                       (* reference->next = reference->prev = NULL *)
    set_next reference None ;;;
    ret reference.

  Definition add_item_to_array (array item : ptr) : M bool :=
    if is_null item || is_null array || ptr_eqb array item then ret false else
    child <~ get_child array ;;
    (if is_null child then
       set_child array item ;;;
       set_prev item item ;;;
       set_next item None
     else
       cp <~ get_prev child ;;
       when (negb (is_null cp))
            (cp2 <~ get_prev child ;;
             suffix_object cp2 item ;;;
             c <~ get_child array ;;
             set_prev c item)) ;;;
    ret true.

  Definition cJSON_AddItemToArray (array item : ptr) : M bool := add_item_to_array array item.

  Definition add_item_to_object (object : ptr) (string : ptr) (item : ptr) (constant_key : bool) : M bool :=
    if is_null object || is_null string || is_null item || ptr_eqb object item then ret false else
    r <~ (if constant_key then
            t <~ get_type item ;;
            ret (Some (string, Z.lor t c_cJSON_StringIsConst))        (* new_key = (char * ) string *)
          else
            new_key <~ cJSON_strdup string ;;
            if is_null new_key then ret None else
            t <~ get_type item ;;
            ret (Some (new_key, clear_flag t c_cJSON_StringIsConst))) ;;
    match r with
    | None => ret false
    | Some (new_key, new_type) =>
        t <~ get_type item ;;
        (if has_flag t c_cJSON_StringIsConst then ret tt else
           k <~ get_key item ;;
           when (negb (is_null k)) (k2 <~ get_key item ;; free_block k2)) ;;;
        set_key item new_key ;;;
        set_type item new_type ;;;
        add_item_to_array object item
    end.

  Definition cJSON_AddItemToObject (object string item : ptr) : M bool := add_item_to_object object string item false.
  Definition cJSON_AddItemToObjectCS (object string item : ptr) : M bool := add_item_to_object object string item true.

  Definition cJSON_AddItemReferenceToArray (array item : ptr) : M bool :=
    if is_null array then ret false else
    reference <~ create_reference item ;;
    add_item_to_array array reference.

  Definition cJSON_AddItemReferenceToObject (object string item : ptr) : M bool :=
    if is_null object || is_null string then ret false else
    reference <~ create_reference item ;;
    ok <~ add_item_to_object object string reference false ;;
    if ok then ret true else
    cJSON_Delete reference ;;;                                        (* the reference owns nothing but itself *)
    ret false.

  (** ** constructors *)

  Definition create_with_type (ty : Z) : M ptr :=
    item <~ cJSON_New_Item ;;
    when (negb (is_null item)) (set_type item ty) ;;;
    ret item.

  Definition cJSON_CreateNull : M ptr := create_with_type c_cJSON_NULL.
  Definition cJSON_CreateTrue : M ptr := create_with_type c_cJSON_True.
  Definition cJSON_CreateFalse : M ptr := create_with_type c_cJSON_False.
  Definition cJSON_CreateBool (boolean : bool) : M ptr :=
    create_with_type (if boolean then c_cJSON_True else c_cJSON_False).
  Definition cJSON_CreateArray : M ptr := create_with_type c_cJSON_Array.
  Definition cJSON_CreateObject : M ptr := create_with_type c_cJSON_Object.

  Definition cJSON_CreateNumber (num : dbl) : M ptr :=
    item <~ cJSON_New_Item ;;
    when (negb (is_null item))
         (set_type item c_cJSON_Number ;;;
          set_vdbl item num ;;;
          set_vint item (sat_int num)) ;;;                            (* saturating conversion *)
    ret item.

  (** cJSON_CreateString / cJSON_CreateRaw share their body up to the type *)
  Definition create_string_like (ty : Z) (string : ptr) : M ptr :=
    item <~ cJSON_New_Item ;;
    if is_null item then ret item else
    set_type item ty ;;;
    copy <~ cJSON_strdup string ;;
    set_vstr item copy ;;;
    vs <~ get_vstr item ;;
    if is_null vs then cJSON_Delete item ;;; ret None
    else ret item.
  Definition cJSON_CreateString (string : ptr) : M ptr := create_string_like c_cJSON_String string.
  Definition cJSON_CreateRaw (raw : ptr) : M ptr := create_string_like c_cJSON_Raw raw.

  Definition cJSON_CreateStringReference (string : ptr) : M ptr :=
    item <~ cJSON_New_Item ;;
    when (negb (is_null item))
         (set_type item (Z.lor c_cJSON_String c_cJSON_IsReference) ;;;
          set_vstr item string) ;;;
    ret item.
  Definition cJSON_CreateObjectReference (child : ptr) : M ptr :=
    item <~ cJSON_New_Item ;;
    when (negb (is_null item))
         (set_type item (Z.lor c_cJSON_Object c_cJSON_IsReference) ;;;
          set_child item child) ;;;
    ret item.
  Definition cJSON_CreateArrayReference (child : ptr) : M ptr :=
    item <~ cJSON_New_Item ;;
    when (negb (is_null item))
         (set_type item (Z.lor c_cJSON_Array c_cJSON_IsReference) ;;;
          set_child item child) ;;;
    ret item.

  (** the four bulk constructors have the same body; [mk i] is [cJSON_CreateX(arg[i])] including
      the read of the caller's array.  [rem] = count - i.  Result of the loop: [None] when the
      function has already returned NULL (partial array deleted), else [Some n]. *)
  Fixpoint create_array_loop (mk : Z -> M ptr) (rem : nat) (i : Z) (a n p : ptr) : M (option ptr) :=
    match rem with
    | O => ret (Some n)
    | S rem' =>
        n' <~ mk i ;;
        if is_null n' then cJSON_Delete a ;;; ret None else
        (if i =? 0 then set_child a n' else suffix_object p n') ;;;
        create_array_loop mk rem' (i + 1) a n' n'
    end.
  Definition create_array_of (mk : Z -> M ptr) (arg_is_null : bool) (count : Z) : M ptr :=
    if (count <? 0) || arg_is_null then ret None else
    a <~ cJSON_CreateArray ;;
    r <~ (if is_null a then ret (Some None)                            (* loop condition [a && ...] *)
          else create_array_loop mk (Z.to_nat count) 0 a None None) ;;
    match r with
    | None => ret None
    | Some n =>
        (if is_null a then ret tt else
           c <~ get_child a ;;
           when (negb (is_null c)) (c2 <~ get_child a ;; set_prev c2 n)) ;;;
        ret a
    end.

  (** reading element [i] of a caller array of [length l] elements *)
  Definition rd_arr {A} (l : list A) (i : Z) : M A :=
    match nth_error l (Z.to_nat i) with Some x => ret x | None => fail OutOfBounds end.
  Definition arr_of {A} (o : option (list A)) : list A := match o with Some l => l | None => [] end.
  Definition opt_is_none {A} (o : option A) : bool := match o with None => true | Some _ => false end.

  (** [numbers]: the caller's [int] array (NULL = None) *)
  Definition cJSON_CreateIntArray (numbers : option (list Z)) (count : Z) : M ptr :=
    create_array_of (fun i => x <~ rd_arr (arr_of numbers) i ;; cJSON_CreateNumber (dbl_of_int x))
                    (opt_is_none numbers) count.
  (** [numbers]: the caller's [float] array, each element given as the double it converts to *)
  Definition cJSON_CreateFloatArray (numbers : option (list dbl)) (count : Z) : M ptr :=
    create_array_of (fun i => x <~ rd_arr (arr_of numbers) i ;; cJSON_CreateNumber x)
                    (opt_is_none numbers) count.
  Definition cJSON_CreateDoubleArray (numbers : option (list dbl)) (count : Z) : M ptr :=
    create_array_of (fun i => x <~ rd_arr (arr_of numbers) i ;; cJSON_CreateNumber x)
                    (opt_is_none numbers) count.
  Definition cJSON_CreateStringArray (strings : option (list ptr)) (count : Z) : M ptr :=
    create_array_of (fun i => x <~ rd_arr (arr_of strings) i ;; cJSON_CreateString x)
                    (opt_is_none strings) count.

  (** ** cJSON_Add…ToObject helpers: create, add under an owned copy of the name, delete on failure *)
  Definition add_created_to_object (object : ptr) (name : ptr) (item : ptr) : M ptr :=
    ok <~ add_item_to_object object name item false ;;
    if ok then ret item else
    cJSON_Delete item ;;;
    ret None.
  Definition cJSON_AddNullToObject (object name : ptr) : M ptr :=
    null <~ cJSON_CreateNull ;; add_created_to_object object name null.
  Definition cJSON_AddTrueToObject (object name : ptr) : M ptr :=
    true_item <~ cJSON_CreateTrue ;; add_created_to_object object name true_item.
  Definition cJSON_AddFalseToObject (object name : ptr) : M ptr :=
    false_item <~ cJSON_CreateFalse ;; add_created_to_object object name false_item.
  Definition cJSON_AddBoolToObject (object name : ptr) (boolean : bool) : M ptr :=
    bool_item <~ cJSON_CreateBool boolean ;; add_created_to_object object name bool_item.
  Definition cJSON_AddNumberToObject (object name : ptr) (number : dbl) : M ptr :=
    number_item <~ cJSON_CreateNumber number ;; add_created_to_object object name number_item.
  Definition cJSON_AddStringToObject (object name : ptr) (string : ptr) : M ptr :=
    string_item <~ cJSON_CreateString string ;; add_created_to_object object name string_item.
  Definition cJSON_AddRawToObject (object name : ptr) (raw : ptr) : M ptr :=
    raw_item <~ cJSON_CreateRaw raw ;; add_created_to_object object name raw_item.
  Definition cJSON_AddObjectToObject (object name : ptr) : M ptr :=
    object_item <~ cJSON_CreateObject ;; add_created_to_object object name object_item.
  Definition cJSON_AddArrayToObject (object name : ptr) : M ptr :=
    array <~ cJSON_CreateArray ;; add_created_to_object object name array.

  (** ** detach / delete *)

  Definition cJSON_DetachItemViaPointer (parent item : ptr) : M ptr :=
    if is_null parent || is_null item then ret None else
    pc <~ get_child parent ;;
    refuse <~ (if negb (ptr_eqb item pc) then ip <~ get_prev item ;; ret (is_null ip) else ret false) ;;
    if refuse then ret None else
    pc1 <~ get_child parent ;;
    when (negb (ptr_eqb item pc1))                                    (* not the first element *)
         (ip <~ get_prev item ;; inx <~ get_next item ;; set_next ip inx) ;;;
    inx1 <~ get_next item ;;
    when (negb (is_null inx1))                                        (* not the last element *)
         (inx <~ get_next item ;; ip <~ get_prev item ;; set_prev inx ip) ;;;
    pc2 <~ get_child parent ;;
    (if ptr_eqb item pc2 then                                         (* first element *)
       inx <~ get_next item ;; set_child parent inx
     else
       inx <~ get_next item ;;
       when (is_null inx)                                             (* last element *)
            (pc3 <~ get_child parent ;; ip <~ get_prev item ;; set_prev pc3 ip)) ;;;
    set_prev item None ;;;
    set_next item None ;;;
    ret item.

  Definition cJSON_DetachItemFromArray (array : ptr) (which : Z) : M ptr :=
    if which <? 0 then ret None else
    it <~ get_array_item array which ;;
    cJSON_DetachItemViaPointer array it.

  Definition cJSON_DeleteItemFromArray (array : ptr) (which : Z) : M unit :=
    it <~ cJSON_DetachItemFromArray array which ;; cJSON_Delete it.

  Definition cJSON_DetachItemFromObject (object string : ptr) : M ptr :=
    to_detach <~ cJSON_GetObjectItem object string ;;
    cJSON_DetachItemViaPointer object to_detach.

  Definition cJSON_DetachItemFromObjectCaseSensitive (object string : ptr) : M ptr :=
    to_detach <~ cJSON_GetObjectItemCaseSensitive object string ;;
    cJSON_DetachItemViaPointer object to_detach.

  Definition cJSON_DeleteItemFromObject (object string : ptr) : M unit :=
    it <~ cJSON_DetachItemFromObject object string ;; cJSON_Delete it.

  Definition cJSON_DeleteItemFromObjectCaseSensitive (object string : ptr) : M unit :=
    it <~ cJSON_DetachItemFromObjectCaseSensitive object string ;; cJSON_Delete it.

  (** ** insert / replace *)

  Definition cJSON_InsertItemInArray (array : ptr) (which : Z) (newitem : ptr) : M bool :=
    if (which <? 0) || is_null newitem || ptr_eqb array newitem then ret false else
    after_inserted <~ get_array_item array which ;;
    if is_null after_inserted then add_item_to_array array newitem else
    ac <~ get_child array ;;
    corrupted <~ (if negb (ptr_eqb after_inserted ac) then ap <~ get_prev after_inserted ;; ret (is_null ap)
                  else ret false) ;;
    if corrupted then ret false else
    set_next newitem after_inserted ;;;
    ap <~ get_prev after_inserted ;;
    set_prev newitem ap ;;;
    set_prev after_inserted newitem ;;;
    ac2 <~ get_child array ;;
    (if ptr_eqb after_inserted ac2 then set_child array newitem
     else np <~ get_prev newitem ;; set_next np newitem) ;;;
    ret true.

  Definition cJSON_ReplaceItemViaPointer (parent item replacement : ptr) : M bool :=
    if is_null parent then ret false else
    pc <~ get_child parent ;;
    if is_null pc || is_null replacement || is_null item then ret false else
    if ptr_eqb replacement item then ret true else
    inx <~ get_next item ;;
    set_next replacement inx ;;;
    ip <~ get_prev item ;;
    set_prev replacement ip ;;;
    rn <~ get_next replacement ;;
    when (negb (is_null rn)) (rn2 <~ get_next replacement ;; set_prev rn2 replacement) ;;;
    pc1 <~ get_child parent ;;
    (if ptr_eqb pc1 item then
       pc2 <~ get_child parent ;;
       pcp <~ get_prev pc2 ;;
       pc3 <~ get_child parent ;;
       when (ptr_eqb pcp pc3) (set_prev replacement replacement) ;;;
       set_child parent replacement
     else
       rp <~ get_prev replacement ;;
       when (negb (is_null rp)) (rp2 <~ get_prev replacement ;; set_next rp2 replacement) ;;;
       rn3 <~ get_next replacement ;;
       when (is_null rn3) (pc4 <~ get_child parent ;; set_prev pc4 replacement)) ;;;
    set_next item None ;;;
    set_prev item None ;;;
    cJSON_Delete item ;;;
    ret true.

  Definition cJSON_ReplaceItemInArray (array : ptr) (which : Z) (newitem : ptr) : M bool :=
    if which <? 0 then ret false else
    it <~ get_array_item array which ;;
    cJSON_ReplaceItemViaPointer array it newitem.

  Definition replace_item_in_object (object string replacement : ptr) (case_sensitive : bool) : M bool :=
    if is_null replacement || is_null string then ret false else
    new_key <~ cJSON_strdup string ;;                                 (* string may alias the old name *)
    if is_null new_key then ret false else
    t <~ get_type replacement ;;
    (if has_flag t c_cJSON_StringIsConst then ret tt else
       k <~ get_key replacement ;;
       when (negb (is_null k)) (k2 <~ get_key replacement ;; cJSON_free k2)) ;;;
    set_key replacement new_key ;;;
    t2 <~ get_type replacement ;;
    set_type replacement (clear_flag t2 c_cJSON_StringIsConst) ;;;
    it <~ get_object_item object new_key case_sensitive ;;            (* looked up by the copy *)
    cJSON_ReplaceItemViaPointer object it replacement.

  Definition cJSON_ReplaceItemInObject (object string newitem : ptr) : M bool :=
    replace_item_in_object object string newitem false.
  Definition cJSON_ReplaceItemInObjectCaseSensitive (object string newitem : ptr) : M bool :=
    replace_item_in_object object string newitem true.

  (** ** duplication *)

  (** [dfuel]: structural bound on the recursion depth (the C recursion is bounded by
      CJSON_CIRCULAR_LIMIT + 1 levels); [lfuel]: bound for every sibling loop. *)
  Fixpoint cJSON_Duplicate_rec (dfuel lfuel : nat) (item : ptr) (depth : Z) (recurse : bool) {struct dfuel} : M ptr :=
    match dfuel with
    | O => fail NoFuel
    | S df =>
        let fail_path (newitem : ptr) : M ptr :=                      (* fail: *)
          when (negb (is_null newitem)) (cJSON_Delete newitem) ;;; ret None in
        if is_null item then fail_path None else
        newitem <~ cJSON_New_Item ;;
        if is_null newitem then fail_path newitem else
        t <~ get_type item ;;
        set_type newitem (clear_flag t c_cJSON_IsReference) ;;;
        vi <~ get_vint item ;;
        set_vint newitem vi ;;;
        vd <~ get_vdbl item ;;
        set_vdbl newitem vd ;;;
        ivs <~ get_vstr item ;;
        ok1 <~ (if is_null ivs then ret true else
                  ivs2 <~ get_vstr item ;;
                  c <~ cJSON_strdup ivs2 ;;
                  set_vstr newitem c ;;;
                  nvs <~ get_vstr newitem ;;
                  ret (negb (is_null nvs))) ;;
        if negb ok1 then fail_path newitem else
        ik <~ get_key item ;;
        ok2 <~ (if is_null ik then ret true else
                  t2 <~ get_type item ;;
                  k <~ (if has_flag t2 c_cJSON_StringIsConst then get_key item
                        else ik2 <~ get_key item ;; cJSON_strdup ik2) ;;
                  set_key newitem k ;;;
                  nk <~ get_key newitem ;;
                  ret (negb (is_null nk))) ;;
        if negb ok2 then fail_path newitem else
        if negb recurse then ret newitem else
        child <~ get_child item ;;
        (* while (child != NULL): returns (false, _) for [goto fail], else (true, newchild) *)
        let fix loop (lf : nat) (child next newchild : ptr) {struct lf} : M (bool * ptr) :=
          match lf with
          | O => fail NoFuel
          | S lf' =>
              if is_null child then ret (true, newchild) else
              if c_CJSON_CIRCULAR_LIMIT <=? depth then ret (false, newchild) else
              newchild' <~ cJSON_Duplicate_rec df lfuel child (depth + 1) true ;;
              if is_null newchild' then ret (false, newchild') else
              (if negb (is_null next) then
                 set_next next newchild' ;;;
                 set_prev newchild' next
               else
                 set_child newitem newchild') ;;;
              child' <~ get_next child ;;
              loop lf' child' newchild' newchild'
          end in
        r <~ loop lfuel child None None ;;
        let '(ok3, newchild) := r in
        if negb ok3 then fail_path newitem else
        nc <~ get_child newitem ;;
        when (negb (is_null nc)) (nc2 <~ get_child newitem ;; set_prev nc2 newchild) ;;;
        ret newitem
    end.

  Definition cJSON_Duplicate (item : ptr) (recurse : bool) : M ptr :=
    lfuel <~ heap_fuel ;;
    cJSON_Duplicate_rec (S (S (Z.to_nat c_CJSON_CIRCULAR_LIMIT))) lfuel item 0 recurse.

End Core.
