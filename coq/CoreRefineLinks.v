(** CoreRefineLinks.v — C06_links: in every heap that encodes a forest ([WF h F]; by
    [CoreRefineHistory.history_sim] every heap reachable by a rule-obeying history) forward links
    follow the children list and end in NULL, each backward link mirrors a forward link, the
    first child's backward link designates the last child, detached items and roots have no
    sibling links, and the children of a node are pairwise distinct.  Read off the encoding. *)
From CJ Require Import Base Dbl Heap Forest ForestLemmas CoreSpec CoreDefs CoreRefineBase CoreRefine.
From stdpp Require Import gmap.
Implicit Types (h : heap) (F : forest) (p x y : positive) (d : rdata).

(** * the sibling chains of a well-formed heap are healthy (C06_links) — read off the encoding *)
Section Links.
  Context (h : heap) (F : forest) (W : WF h F).

  (** detached items and document roots have no sibling links *)
  Lemma links_root x : x ∈ roots F -> h_lnk h !! x = Some (None, None).
  Proof. by apply WF_lookup_lnk_root. Qed.

  Context (p : positive) (d : rdata) (ks : list positive) (Hn : (p, d, ks) ∈ flat F).

  (** [child] designates the first child (NULL for an empty ordinary container) *)
  Lemma links_child : is_ref d = false -> nd_child <$> h_dat h !! p = Some (ks !! 0).
  Proof.
    intros Hr. rewrite (WF_lookup_dat _ _ _ _ _ W Hn). cbn.
    by rewrite (ref_ok_child_of _ _ _ _ (wf_ref _ _ W) Hn Hr).
  Qed.
  (** forward links follow the list and end in NULL *)
  Lemma links_next k c : ks !! k = Some c -> exists pv : ptr, h_lnk h !! c = Some ((ks !! S k : ptr), pv).
  Proof. intros Hk. rewrite (WF_lookup_lnk_child _ _ _ _ _ _ _ W Hn Hk). destruct k; eauto. Qed.
  Lemma links_last_next c : last ks = Some c -> exists pv : ptr, h_lnk h !! c = Some ((None : ptr), pv).
  Proof.
    intros Hl. rewrite last_lookup in Hl. destruct (links_next _ _ Hl) as [pv Hpv]. exists pv. rewrite Hpv.
    do 2 f_equal. apply lookup_ge_None. destruct ks; cbn in *; [done|lia].
  Qed.
  (** each backward link mirrors a forward link *)
  Lemma links_prev k c c' : ks !! k = Some c -> ks !! S k = Some c' -> exists nx : ptr, h_lnk h !! c' = Some (nx, (Some c : ptr)).
  Proof. intros Hk Hk'. rewrite (WF_lookup_lnk_child _ _ _ _ _ _ _ W Hn Hk'). rewrite link_at_S, Hk. eauto. Qed.
  (** the first child's backward link designates the last child *)
  Lemma links_head_prev c : ks !! 0 = Some c -> exists nx : ptr, h_lnk h !! c = Some (nx, (last ks : ptr)).
  Proof. intros Hk. rewrite (WF_lookup_lnk_child _ _ _ _ _ _ _ W Hn Hk). rewrite link_at_0. eauto. Qed.
  (** the children are pairwise distinct live nodes (no cycles, no sharing) *)
  Lemma links_nodup : NoDup ks.
  Proof.
    apply elem_of_Permutation in Hn as [FL HFL].
    destruct (heap_lnk_of_focus _ _ _ _ _ _ (wf_nodup _ _ W) (reflexivity _) HFL) as [_ HN].
    by apply NoDup_app in HN as [? _].
  Qed.
End Links.
