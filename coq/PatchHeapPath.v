(** PatchHeapPath.v — paths in forest trees ([subtree_t], [put_t] of PatchHeapDefs.v) against paths in values
    ([Tree.subtree], [PatchDefs.put_subtree]) through [reify], and against the forest edit [set_children]. *)
From CJ Require Import Base Dbl Heap Forest ForestLemmas CoreSpec CoreRefineDupValue.
From CJ Require Import TierBridgeDefs TierBridgeForest TierBridgeLemmas PatchHeapDefs.
From CJ Require Tree PointerDefs PatchDefs.
From stdpp Require Import gmap.
From Coq Require Import Lia.
Local Open Scope Z_scope.

Lemma nth_error_map_lookup {A B} (f : A -> B) (l : list A) (i : nat) : nth_error (map f l) i = f <$> l !! i.
Proof. rewrite nth_error_lookup'. by rewrite map_fmap, list_lookup_fmap. Qed.

Lemma reify_subtree St t pp : Tree.subtree (reify St t) pp = reify St <$> subtree_t t pp.
Proof.
  revert t. induction pp as [|i pp IH]; intros t; [done|]. cbn [Tree.subtree subtree_t].
  rewrite reify_children, nth_error_map_lookup. destruct (tchildren t !! i) as [c|]; cbn; [apply IH|done].
Qed.

Lemma reify_put St t pp new : PatchDefs.put_subtree (reify St t) pp (reify St new) = reify St (put_t t pp new).
Proof.
  revert t. induction pp as [|i pp IH]; intros t; [done|]. cbn [PatchDefs.put_subtree put_t].
  rewrite reify_children, nth_error_map_lookup. destruct (tchildren t !! i) as [c|] eqn:E; cbn [fmap option_fmap option_map]; [|done].
  rewrite replace_nth_insert, IH. destruct t as [i0 d0 cs0]. cbn [tid tdata tchildren] in *.
  rewrite <- map_list_insert. apply reify_set_children.
Qed.

Lemma subtree_t_nodes t pp n : subtree_t t pp = Some n -> n ∈ nodes_t t.
Proof.
  revert t. induction pp as [|i pp IH]; intros t; cbn [subtree_t].
  - intros [= <-]. apply nodes_t_self.
  - destruct (tchildren t !! i) as [c|] eqn:E; [|done]. intros H. apply IH in H.
    destruct t as [i0 d0 cs0]. cbn in E. rewrite nodes_t_unfold. right. apply elem_of_nodes. exists c. split; [|done].
    by eapply elem_of_list_lookup_2.
Qed.

Lemma subtree_t_app t p1 p2 : subtree_t t (p1 ++ p2) = subtree_t t p1 ≫= fun n => subtree_t n p2.
Proof.
  revert t. induction p1 as [|i p1 IH]; intros t; [done|]. cbn [app subtree_t].
  destruct (tchildren t !! i) as [c|]; [apply IH|done].
Qed.

(** a proper descendant has another identity *)
Lemma child_nodes_ne i0 d0 cs0 n : NoDup (ids_t (T i0 d0 cs0)) -> n ∈ nodes cs0 -> tid n <> i0.
Proof.
  rewrite ids_t_unfold. intros ND Hn E. apply NoDup_cons in ND as [Hni _]. apply Hni. rewrite <- E.
  apply elem_of_list_fmap. by exists n.
Qed.

Lemma NoDup_ids_child i0 d0 cs0 (k : nat) c : NoDup (ids_t (T i0 d0 cs0)) -> cs0 !! k = Some c -> NoDup (ids_t c).
Proof.
  rewrite ids_t_unfold. intros ND Hk. apply NoDup_cons in ND as [_ ND].
  apply elem_of_list_split_length in Hk as (l1 & l2 & -> & _). rewrite ids_app, ids_cons in ND.
  apply NoDup_app in ND as (_ & _ & ND). by apply NoDup_app in ND as (ND & _ & _).
Qed.

Lemma ids_lookup_disjoint (cs0 : list tree) (j k : nat) cj ck x :
  NoDup (ids cs0) -> cs0 !! j = Some cj -> cs0 !! k = Some ck -> j <> k -> x ∈ ids_t cj -> x ∉ ids_t ck.
Proof.
  revert j k. induction cs0 as [|c r IH]; intros j k ND Hj Hk Hne Hx; [done|].
  rewrite ids_cons in ND. apply NoDup_app in ND as (ND1 & Hdis & ND2).
  destruct j as [|j], k as [|k]; cbn in Hj, Hk; try done.
  - injection Hj as <-. intros Hx'. apply (Hdis x Hx). apply elem_of_list_fmap in Hx' as (n & -> & Hn).
    apply elem_of_list_fmap. exists n. split; [done|]. apply elem_of_nodes. exists ck. split; [by eapply elem_of_list_lookup_2|done].
  - injection Hk as <-. intros Hx'. apply (Hdis x Hx'). apply elem_of_list_fmap in Hx as (n & -> & Hn).
    apply elem_of_list_fmap. exists n. split; [done|]. apply elem_of_nodes. exists cj. split; [by eapply elem_of_list_lookup_2|done].
  - apply (IH j k); auto.
Qed.

(** replacing the children of the node a path leads to IS the forest edit [set_children_t] *)
Lemma set_children_t_put t pp p d cs cs' :
  NoDup (ids_t t) -> subtree_t t pp = Some (T p d cs) -> set_children_t p cs' t = put_t t pp (T p d cs').
Proof.
  revert t. induction pp as [|i pp IH]; intros t ND; cbn [subtree_t put_t].
  - intros [= ->]. cbn. by rewrite decide_True.
  - destruct t as [i0 d0 cs0]. cbn [tchildren tid tdata]. destruct (cs0 !! i) as [c|] eqn:E; [|done]. intros Hs.
    pose proof (subtree_t_nodes _ _ _ Hs) as Hn.
    assert (Hnc : T p d cs ∈ nodes cs0).
    { apply elem_of_nodes. exists c. split; [by eapply elem_of_list_lookup_2|done]. }
    pose proof (child_nodes_ne i0 d0 cs0 _ ND Hnc) as Hne. cbn in Hne.
    cbn [set_children_t]. rewrite decide_False by done. f_equal.
    pose proof ND as ND0. rewrite ids_t_unfold in ND0. apply NoDup_cons in ND0 as [_ ND0].
    apply list_eq. intros j. rewrite list_lookup_fmap. destruct (decide (j = i)) as [->|Hji].
    + rewrite E, list_lookup_insert by (by eapply lookup_lt_Some). cbn. f_equal.
      apply IH; [by eapply NoDup_ids_child|done].
    + rewrite list_lookup_insert_ne by done. destruct (cs0 !! j) as [cj|] eqn:Ej; [|done]. cbn. f_equal.
      apply set_children_t_notin. eapply (ids_lookup_disjoint cs0 i j c cj p ND0 E Ej); [done|].
      apply elem_of_list_fmap. by exists (T p d cs).
Qed.

Lemma tid_put_t t pp new : pp <> [] -> tid (put_t t pp new) = tid t.
Proof. destruct pp as [|i pp]; [done|]. intros _. cbn. by destruct (tchildren t !! i). Qed.

(** the document is the last root of [G ++ [doc]]; the container is the node at [pp] *)
Lemma find_tree_doc G doc pp n :
  NoDup (ids (G ++ [doc])) -> subtree_t doc pp = Some n -> find_tree (tid n) (G ++ [doc]) = Some n.
Proof.
  intros ND Hs. apply find_tree_unique; [done| |done]. rewrite nodes_app. apply elem_of_app. right.
  unfold nodes. cbn. rewrite app_nil_r. by eapply subtree_t_nodes.
Qed.

Lemma doc_ids_disjoint G doc x : NoDup (ids (G ++ [doc])) -> x ∈ ids_t doc -> x ∉ ids G.
Proof.
  rewrite ids_app. intros ND Hx Hg. apply NoDup_app in ND as (_ & Hdis & _). apply (Hdis x Hg).
  unfold ids, nodes. cbn. by rewrite app_nil_r.
Qed.

Lemma NoDup_ids_last G doc : NoDup (ids (G ++ [doc])) -> NoDup (ids_t doc).
Proof.
  rewrite ids_app. intros ND. apply NoDup_app in ND as (_ & _ & ND). unfold ids, nodes in ND. cbn in ND.
  by rewrite app_nil_r in ND.
Qed.

Lemma set_children_doc G doc pp p d cs cs' :
  NoDup (ids (G ++ [doc])) -> subtree_t doc pp = Some (T p d cs) ->
  set_children p cs' (G ++ [doc]) = G ++ [put_t doc pp (T p d cs')].
Proof.
  intros ND Hs. unfold set_children. rewrite fmap_app. f_equal.
  - apply (set_children_notin p cs' G). eapply doc_ids_disjoint; [done|].
    apply elem_of_list_fmap. exists (T p d cs). split; [done|]. by eapply subtree_t_nodes.
  - cbn. f_equal. apply (set_children_t_put doc pp p d cs cs'); [by eapply NoDup_ids_last|done].
Qed.

(** after the edit, the path still leads to the container *)
Lemma subtree_t_put t pp n new : subtree_t t pp = Some n -> subtree_t (put_t t pp new) pp = Some new.
Proof.
  revert t. induction pp as [|i pp IH]; intros t; [done|]. cbn [subtree_t put_t].
  destruct (tchildren t !! i) as [c|] eqn:E; [|done]. intros Hs. cbn [tchildren].
  rewrite list_lookup_insert by (by eapply lookup_lt_Some). by eapply IH.
Qed.

Lemma put_t_put t pp n1 n2 n : subtree_t t pp = Some n -> put_t (put_t t pp n1) pp n2 = put_t t pp n2.
Proof.
  revert t. induction pp as [|i pp IH]; intros t; [done|]. cbn [subtree_t put_t].
  destruct (tchildren t !! i) as [c|] eqn:E; [|done]. intros Hs. cbn [tchildren tid tdata].
  rewrite list_lookup_insert by (by eapply lookup_lt_Some). rewrite list_insert_insert. do 2 f_equal. by eapply IH.
Qed.
