(** PatchHeapFailDefs.v — VALUE-level model of [apply_patch] of cJSON_Utils.c WITH allocation failures.  No proofs.

    [PatchDefs.apply_patch] is the value-level transliteration for an allocator that never refuses.  The C function
    requests memory at five places; what it does when a request is refused is decided by the code that follows the
    request, not by the document — so the refusals are an INPUT of the model ([fails], one flag per place):

      [f_rid]   remove / replace: [detach_path(object, path)] could not copy the path (cJSONUtils_strdup NULL): it
                returns NULL, apply_patch reports 13 ("no such item") and the document is untouched;
      [f_from]  move: [detach_path(object, from)] could not copy the "from" pointer: NULL, status 5;
      [f_dup]   add / replace / copy: [cJSON_Duplicate] returned NULL because a request was refused (what it had
                built is released): status 8 resp. 6 — as for a value nested deeper than CJSON_CIRCULAR_LIMIT;
      [f_path]  "Now, just add value to path": the copy of the path could not be made: [parent_pointer] and
                [child_pointer] are NULL, [get_item_from_pointer(object, NULL)] is NULL: status 9, the value is
                deleted by the [cleanup:] block (a MOVED item is thereby destroyed; a REPLACED one is already gone);
      [f_key]   the parent is an object: [cJSON_AddItemToObject(parent, child_pointer, value)] could not copy the
                name and returns false — apply_patch IGNORES that result: [value] is set to NULL, the status is 0,
                the member of that name (if any) has already been deleted, and the value, which hangs nowhere, is
                never released: it is LEAKED.

    Results: (status, document afterwards, patch afterwards, leaked value).  With no refusal the model is
    [PatchDefs.apply_patch] (PatchHeapFail.v: [apply_patch_f_none]). *)
From Coq Require Import ZArith List Bool.
From CJ Require Import Base Dbl Tree PointerDefs CompareDefs PatchDefs TierBridgeDefs.
From CJ.gen Require Import Constants.
Import ListNotations.
Local Open Scope Z_scope.

Record fails : Type := mkFails { f_rid : bool; f_from : bool; f_dup : bool; f_path : bool; f_key : bool }.
Definition no_fails : fails := mkFails false false false false false.

(** cJSON_Duplicate(item, 1) under a possible refusal *)
Definition dup_f (fs : fails) (item : node) : option node := if f_dup fs then None else cJSON_Duplicate item.

(** the part of apply_patch after "Now, just add value to path": (status, object afterwards, leaked value) *)
Definition finish_add_f (fs : fails) (object value : node) (pstr : bytes) (cs : bool) : res (Z * node * option node) :=
  match pstr with
  | [] => Ok (0, unnamed value, None)         (* copy or move onto the root: no request *)
  | _ =>
      if f_path fs then Ok (9, object, None)  (* parent_pointer == NULL: parent == NULL; cleanup deletes value *)
      else
      match last_slash pstr 0 None with
      | None => Ok (9, object, None)
      | Some i =>
          let child_raw := skipn (S i) pstr in
          match get_item_from_pointer object (firstn i pstr) cs with
          | None => Ok (9, object, None)
          | Some pp =>
              match subtree object pp with
              | None => Ok (9, object, None)
              | Some par =>
                  if is_array par then
                    if strcmp child_raw s_dash =? 0 then
                      Ok (0, put_subtree object pp (v_add_to_array par value), None)
                    else
                      match decode_array_index_from_pointer child_raw with
                      | None => Ok (11, object, None)
                      | Some idx =>
                          match v_insert_in_array par idx value with
                          | None => Ok (10, object, None)
                          | Some par' => Ok (0, put_subtree object pp par', None)
                          end
                      end
                  else if is_object par then
                    buf <- decode_pointer_inplace (child_raw ++ [0]) ;;
                    (* cJSON_DeleteItemFromObject[CaseSensitive](parent, child_pointer) *)
                    let par1 := v_delete_from_object par (cstr buf) cs in
                    (* cJSON_AddItemToObject(parent, child_pointer, value); value = NULL;  — result ignored *)
                    if f_key fs then Ok (0, put_subtree object pp par1, Some value)
                    else Ok (0, put_subtree object pp (v_add_to_object par1 (cstr buf) value), None)
                  else Ok (9, object, None)
              end
          end
      end
  end.

Definition apply_patch_f (fs : fails) (object patch : node) (cs : bool) : res (Z * node * node * option node) :=
  match get_object_item patch (Some s_path) cs with
  | None => Ok (2, object, patch, None)
  | Some (_, pathn) =>
      if negb (is_string pathn) then Ok (2, object, patch, None)
      else
        opc <- decode_patch_operation patch cs ;;
        match opc with
        | INVALID => Ok (3, object, patch, None)
        | TEST =>                              (* no request: as PatchDefs.apply_patch *)
            ' (st, o, p) <- apply_patch object patch cs ;; Ok (st, o, p, None)
        | _ =>
            match n_vstr pathn with
            | None => OOB
            | Some pstr =>
                let value_member := get_object_item patch (Some s_value) cs in
                let is_remove := match opc with REMOVE => true | _ => false end in
                let is_replace := match opc with REPLACE => true | _ => false end in
                let is_add := match opc with ADD => true | _ => false end in
                let is_move := match opc with MOVE => true | _ => false end in
                let is_copy := match opc with COPY => true | _ => false end in
                if is_nil pstr && is_remove then Ok (0, invalid_node, patch, None)
                else if is_nil pstr && (is_replace || is_add) then
                  match value_member with
                  | None => Ok (7, object, patch, None)
                  | Some (_, v) =>
                      match dup_f fs v with
                      | None => Ok (8, object, patch, None)
                      | Some d => Ok (0, unnamed d, patch, None)
                      end
                  end
                else
                  (* Get rid of old. *)
                  r1 <- (if is_remove || is_replace then
                           if f_rid fs then Ok None
                           else
                             dp <- detach_path object pstr cs ;;
                             Ok (match dp with None => None | Some (_, o') => Some o' end)
                         else Ok (Some object)) ;;
                  match r1 with
                  | None => Ok (13, object, patch, None)
                  | Some obj1 =>
                      if is_remove then Ok (0, obj1, patch, None)
                      else if is_move || is_copy then
                        match get_object_item patch (Some s_from) cs with
                        | None => Ok (4, obj1, patch, None)
                        | Some (_, fromn) =>
                            if negb (is_string fromn) then Ok (4, obj1, patch, None)
                            else if is_move then
                              match n_vstr fromn with
                              | None => OOB
                              | Some fstr =>
                                  if bytes_eqb (firstn (length fstr) pstr) fstr && (hd 0 (skipn (length fstr) pstr) =? 47)
                                  then Ok (9, obj1, patch, None) else
                                  if f_from fs then Ok (5, obj1, patch, None) else
                                  dp <- detach_path obj1 fstr cs ;;
                                  match dp with
                                  | None => Ok (5, obj1, patch, None)
                                  | Some (v, obj2) => ' (st, o, lk) <- finish_add_f fs obj2 v pstr cs ;; Ok (st, o, patch, lk)
                                  end
                              end
                            else
                              match (match n_vstr fromn with
                                     | Some fstr => match get_item_from_pointer obj1 fstr cs with
                                                    | Some fp => subtree obj1 fp
                                                    | None => None
                                                    end
                                     | None => None
                                     end) with
                              | None => Ok (5, obj1, patch, None)
                              | Some v0 =>
                                  match dup_f fs v0 with
                                  | None => Ok (6, obj1, patch, None)
                                  | Some v => ' (st, o, lk) <- finish_add_f fs obj1 v pstr cs ;; Ok (st, o, patch, lk)
                                  end
                              end
                        end
                      else
                        match value_member with
                        | None => Ok (7, obj1, patch, None)
                        | Some (_, v0) =>
                            match dup_f fs v0 with
                            | None => Ok (8, obj1, patch, None)
                            | Some v => ' (st, o, lk) <- finish_add_f fs obj1 v pstr cs ;; Ok (st, o, patch, lk)
                            end
                        end
                  end
            end
        end
  end.

(** ---- cJSONUtils_ApplyPatches[CaseSensitive] with refusals: one [fails] per operation met ([no_fails] when the list
        is exhausted); results: (status, document, patch elements afterwards, leaked values — newest first) ---- *)
Definition leak_list {A} (o : option A) : list A := match o with Some x => [x] | None => [] end.
Fixpoint apply_loop_f (fss : list fails) (object : node) (ps : list node) (cs : bool) : res (Z * node * list node * list node) :=
  match ps with
  | [] => Ok (0, object, [], [])
  | p :: r =>
      ' (st, o, p', lk) <- apply_patch_f (hd no_fails fss) object p cs ;;
      if negb (st =? 0) then Ok (st, o, p' :: r, leak_list lk)
      else ' (st2, o2, r', lks) <- apply_loop_f (tl fss) o r cs ;; Ok (st2, o2, p' :: r', lks ++ leak_list lk)
  end.
Definition apply_patches_f (fss : list fails) (object patches : node) (cs : bool) : res (Z * node * node * list node) :=
  if negb (is_array patches) then Ok (1, object, patches, [])
  else ' (st, o, ps, lks) <- apply_loop_f fss object (n_children patches) cs ;; Ok (st, o, set_children patches ps, lks).
