(** PointerHeapEx.v — non-vacuity of PointerHeapForest.v on a concrete heap, by computation.

    [exp_heap] encodes the document of Properties_C15.v ([PointerProofs.pdoc]):
        {"a":1, "a/b":[10, 11, {"~":5, "":6}], "":3}
    root 1 (object); members 2 ("a"), 3 ("a/b", array with elements 4, 5 and the object 6 with members 7 ("~")
    and 8 ("")), 9 (""); key blocks 101-107; allocator pointer 1000.  Fresh memory is filled with 0xAA.
    The heap-level [cJSONUtils_FindPointerFromObjectTo] is RUN ([vm_compute]) for the member "~" (node 7): four
    blocks are allocated (1000-1003), three released, the result 1003 reads "/a~1b/2/~0"; the heap-level
    [cJSONUtils_GetPointerCaseSensitive] run on that block in the heap left behind returns node 7. *)
From CJ Require Import Base Dbl Heap Forest ForestLemmas CoreDefs CoreRefineDupBase CoreRefineDupValue CoreRefineDupForest.
From CJ Require Import TierBridgeDefs MergeHeapDefs MergeHeapInv MergeHeapEx PatchHeapDefs PatchHeapPointer.
From CJ Require Import CompareHeapViewDefs CompareHeapForest PointerHeapDefs PointerHeapProofs PointerHeapForest.
From CJ Require Tree PointerDefs PointerProofs.
From CJ.gen Require Import Constants.
From stdpp Require Import gmap.
From Coq Require Import Floats.SpecFloat.
Local Open Scope Z_scope.

Definition exp_leaf (i k : positive) (v : Z) : tree := T i (mkRD 8 None v (S754_zero false) (Some k) None) [].
Definition exp_inner : tree := T 6 (mkRD 64 None 0 (S754_zero false) None None) [exp_leaf 7 105 5; exp_leaf 8 106 6].
Definition exp_arr : tree :=
  T 3 (mkRD 32 None 0 (S754_zero false) (Some 102%positive) None) [exp_leaf 4 103 10; exp_leaf 5 104 11; exp_inner].
Definition exp_root : tree := T 1 (mkRD 64 None 0 (S754_zero false) None None) [exp_leaf 2 101 1; exp_arr; exp_leaf 9 107 3].
Definition exp_F : forest := [exp_root].
Definition exp_St : gmap positive bytes :=
  list_to_map [(101%positive, [97; 0]); (102%positive, [97; 47; 98; 0]); (103%positive, [0]); (104%positive, [0]);
               (105%positive, [126; 0]); (106%positive, [0]); (107%positive, [0])].
Definition exp_heap : heap := heap_of_forest exp_F exp_St.
Definition exp_junk (n : nat) : bytes := repeat 170 n.
Definition exp_target : tree := exp_leaf 7 105 5.

Lemma exp_junk_length n : length (exp_junk n) = n.
Proof. apply repeat_length. Qed.
Lemma exp_MInv : MInv exp_heap exp_F.
Proof. apply heap_of_forest_MInv; vm_compute; reflexivity. Qed.
Lemma exp_reify : reify (h_str exp_heap) exp_root = PointerProofs.pdoc.
Proof. vm_compute. reflexivity. Qed.
Lemma exp_nodes : exp_root ∈ nodes exp_F /\ subtree_t exp_root [1; 2; 0]%nat = Some exp_target.
Proof. split; [apply (elem_of_list_lookup_2 _ 0%nat); reflexivity|reflexivity]. Qed.

(** ** the runs *)
Definition exp_find : out (ptr * heap) :=
  cJSONUtils_FindPointerFromObjectTo nofail exp_junk (Some 1%positive) (Some 7%positive) exp_heap.
Definition exp_after : heap := out_heap exp_find exp_heap.
Definition exp_get : out (ptr * heap) :=
  cJSONUtils_GetPointerCaseSensitive (Some 1%positive) (CAt 1003 0) exp_after.
Definition exp_absent : out (ptr * heap) :=
  cJSONUtils_FindPointerFromObjectTo nofail exp_junk (Some 3%positive) (Some 2%positive) exp_heap.

Lemma exp_runs :
  out_val exp_find = Some (Some 1003%positive) /\
  h_str exp_after !! 1003%positive = Some [47; 97; 126; 49; 98; 47; 50; 47; 126; 48; 0] /\      (* "/a~1b/2/~0" *)
  elements (h_live exp_after ∖ h_live exp_heap) = [1003%positive] /\                            (* one new block *)
  elements (h_live exp_heap ∖ h_live exp_after) = [] /\
  h_next exp_after = 1004%positive /\                                                           (* four allocations *)
  out_val exp_get = Some (Some 7%positive) /\                                                   (* back to the node *)
  out_val exp_absent = Some None /\                                                             (* node 2 is not below node 3 *)
  elements (h_live (out_heap exp_absent exp_heap) ∖ h_live exp_heap) = [].
Proof. vm_compute. repeat split. Qed.

(** ** the hypotheses of [find_then_get] hold, and its conclusion is what the run shows *)
Theorem pointer_heap_nonvacuous :
  MInv exp_heap exp_F /\ (forall n, length (exp_junk n) = n) /\ exp_root ∈ nodes exp_F /\
  subtree_t exp_root [1; 2; 0]%nat = Some exp_target /\
  PointerDefs.small_arrays (reify (h_str exp_heap) exp_root) /\ PointerDefs.keys_ok (reify (h_str exp_heap) exp_root) /\
  PointerDefs.containers_ok (reify (h_str exp_heap) exp_root) /\
  out_val exp_find = Some (Some 1003%positive) /\
  h_str exp_after !! 1003%positive = Some [47; 97; 126; 49; 98; 47; 50; 47; 126; 48; 0] /\
  elements (h_live exp_after ∖ h_live exp_heap) = [1003%positive] /\
  out_val exp_get = Some (Some 7%positive) /\
  out_val exp_absent = Some None.
Proof.
  destruct exp_runs as (R1 & R2 & R3 & _ & _ & R6 & R7 & _). destruct exp_nodes as [N1 N2].
  destruct PointerProofs.ex_doc_ok as (H1 & H2 & H3 & _).
  split; [exact exp_MInv|]. split; [exact exp_junk_length|]. split; [exact N1|]. split; [exact N2|].
  rewrite exp_reify. split; [exact H1|]. split; [exact H2|]. split; [exact H3|].
  split; [exact R1|]. split; [exact R2|]. split; [exact R3|]. split; [exact R6|exact R7].
Qed.

(** the hypothesis [members_named] is needed: [exk_heap] is an "object" (root 1) holding a member without name
    (node 2: what cJSON_AddItemToArray(object, item) builds).  Every other hypothesis of [find_pointer_refines]
    holds; the search finds the member, then [pointer_encoded_length(current_child->string)] reads through NULL:
    [NullDeref] (confirmed on /repo with an ASan probe: SEGV in pointer_encoded_length, cJSON_Utils.c:165).
    The value-level model returns [None] at this point ([PointerDefs.find_pointer]: "the C code dereferences
    NULL here"). *)
Definition exk_member : tree := T 2 (mkRD 8 None 1 (S754_zero false) None None) [].
Definition exk_root : tree := T 1 (mkRD 64 None 0 (S754_zero false) None None) [exk_member].
Definition exk_F : forest := [exk_root].
Definition exk_heap : heap := heap_of_forest exk_F ∅.
Definition out_err {A} (o : out (A * heap)) : option err := match o with Err e => Some e | Ret _ => None end.

Theorem keyless_member_null_deref :
  MInv exk_heap exk_F /\ exk_root ∈ nodes exk_F /\ subtree_t exk_root [0%nat] = Some exk_member /\
  small_nodes exk_root /\ ~ members_named exk_root /\
  out_err (cJSONUtils_FindPointerFromObjectTo nofail exp_junk (Some 1%positive) (Some 2%positive) exk_heap) = Some NullDeref /\
  PointerDefs.cJSONUtils_FindPointerFromObjectTo (reify (h_str exk_heap) exk_root) [0%nat] = None.
Proof.
  split; [apply heap_of_forest_MInv; vm_compute; reflexivity|].
  split; [apply (elem_of_list_lookup_2 _ 0%nat); reflexivity|]. split; [reflexivity|].
  split.
  { intros n Hn. change (nodes_t exk_root) with [exk_root; exk_member] in Hn.
    apply elem_of_cons in Hn as [->|Hn]; [vm_compute; discriminate|].
    apply elem_of_list_singleton in Hn as ->. vm_compute. discriminate. }
  split.
  { intros H. apply (H exk_root (nodes_t_self _) eq_refl exk_member); [by left|reflexivity]. }
  split; vm_compute; reflexivity.
Qed.

(** the never-failing allocator is needed: the results of the cJSON_malloc calls in the loop body are not
    tested.  With the second request refused (the first is the strdup("") at the target, which does test its
    result) [full_pointer[0] = '/'] writes through NULL — the observation of DESIGN 11.6, in the model. *)
Definition exp_oracle2 : nat -> bool := fun n => Nat.eqb n 1.
Theorem alloc_failure_null_deref :
  out_err (cJSONUtils_FindPointerFromObjectTo exp_oracle2 exp_junk (Some 1%positive) (Some 7%positive) exp_heap) = Some NullDeref.
Proof. vm_compute. reflexivity. Qed.
