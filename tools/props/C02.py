"""C02 — Valid JSON text is accepted and decoded to exactly the value it denotes."""
from .common import *
from . import parsegen as G

MODEL_FILES = 'ParseDefs.v, LibcNum.v (reference strtod)'
RULE = ('random RFC 8259 texts: every escape spelling, code points at all UTF-8 length and surrogate boundaries, numbers around +-2^31, 63-character literals, '
        'exponents to +-400, halfway and subnormal cases, -0, duplicate keys, BOM x {exact length, +NUL} x tiny payloads, all six entry points, both rnt values; '
        'expected tree computed independently in python (float() for the correctly rounded double); non-trivial = distinct valid text longer than 4 bytes')
ASSUMPTIONS = ['C locale', 'glibc strtod is correctly rounded (validated against python float() on every number of the run)', 'hand-written transliteration validated by this differential run']

def corpus(ctx): return G.parse_corpus(ctx, 'C02', {'accept_only': True})
def generate(ctx):
    import random
    rng = random.Random(ctx['seed'] * 2147483647 + 2)
    quick = ctx['tier'] == 'quick'
    cases = G.stream_valid(rng, 350 if quick else 12000, all_entries=False) + G.stream_valid(rng, 40 if quick else 800, all_entries=True)
    G.init(ctx)
    for d in (1, 2, G.NESTING_LIMIT - 1, G.NESTING_LIMIT):
        for kind in '[{':
            t = G.deep_text(kind, d)
            v = None
            cases.append(G.pcase('L', 0, len(t), t, {'tags': ['valid', 'depth%d' % d], 'accept_only': True}))
    if ctx.get('seed_index', 0) == 0: cases += G.stream_wide(rng)
    for nt in G.NUM_TEXTS_OK:
        for e in ('L', 'P'):
            t = nt.encode()
            cases += [G.pcase('L', 0, len(t), t, {'tags': ['valid', 'number'], 'value': G.NumLit(nt)}), G.pcase('P', 0, 0, t + b'\0', {'tags': ['valid', 'number'], 'value': G.NumLit(nt)})]
    return cases
def project(c, out): return G.project_fields(out, [])

def verdict(c, out, ctx):
    if is_crash(out): return 'crash while parsing a valid text: ' + out
    tree, kv = G.fields(out)
    if c.info.get('accept_only'):
        return 'valid text within the nesting limit rejected' if tree == 'NULL' else None
    if 'value' not in c.info: return None
    # with rnt on an exact-length buffer without terminator the text is (correctly) refused: not this property's business
    if c.info['rnt'] and not c.info.get('term') and c.info['entry'] in 'Ll': return None
    if tree == 'NULL': return 'valid RFC 8259 text rejected'
    exp = ' '.join(G.expected_tokens(c.info['value']))
    if tree != exp: return 'decoded tree differs from the value the text denotes'
    return None

def nontrivial(c, out): return 'value' in c.info and len(c.info.get('content', b'')) > 4
