#!/bin/sh
# ingest_seed.sh <PID> <worktree> — copies mutation_C/_D of a mutation agent's worktree into seeded/, verifies each (tests pass, demo fails with / passes
# without the change), runs the property's check against it, removes the worktree.
pid=$1; wt=$2
for m in C D; do
  if [ -d $wt/mutation_$m ]; then
    rm -rf /verif/seeded/${pid}_$m; mkdir -p /verif/seeded/${pid}_$m
    cp $wt/mutation_$m/patch.diff $wt/mutation_$m/demo.c $wt/mutation_$m/meta.json /verif/seeded/${pid}_$m/ 2>/dev/null
  fi
done
git -C /repo worktree remove --force $wt; rm -f $wt.property.txt
python3 /verif/tools/verify_seeds.py ${pid}_C ${pid}_D
for m in C D; do python3 /verif/tools/trial.py $pid ${pid}_$m 2>&1 | tail -1; done
