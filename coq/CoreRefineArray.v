(** CoreRefineArray.v — simulation lemmas (C06/C07/C08) for the BULK CONSTRUCTORS of CoreDefs.v:
    [cJSON_CreateIntArray], [cJSON_CreateFloatArray], [cJSON_CreateDoubleArray],
    [cJSON_CreateStringArray] ([create_array_of] / [create_array_loop]), for an arbitrary oracle.

    The loop builds the chain WITHOUT the head's back link ([head.prev] is set after the loop), so
    the intermediate heaps are not canonical.  The proof keeps, next to the actual heap, the
    CANONICAL heap [Hc] of the partial array ([WF Hc (F ++ [T a arr leaves])]); the actual heap
    is [act Hc leaves]: [Hc] with the head's [prev] reset to NULL.  One iteration = one leaf
    allocated ([grows_leaf], WF-free contracts of cJSON_CreateNumber / cJSON_CreateString) and
    linked; its canonical counterpart is [add_item_to_array] (CoreRefine.v), whose result maps
    are read off by running it on the canonical heap.  When a request is refused the partial
    array is deleted with [cJSON_Delete_fuel_sim] on the local encoding [Enc] (which ignores
    [prev]), and the result is a [clean_failure] w.r.t. the heap at the call.

    PART 1  algebra of field updates; heap extension [Ext]; [grows_leaf]; WF-free run lemmas
    PART 2  the loop
    PART 3  [create_array_of] and the four public constructors. *)
From CJ Require Import Base Dbl Heap Forest ForestLemmas CoreSpec CoreDefs CoreRefineBase CoreRefine
  CoreRefineDelete CoreRefineReplace CoreRefineMore CoreRefineCreate.
From CJ.gen Require Import Constants.
From stdpp Require Import gmap.
Implicit Types (h : heap) (F : forest) (p x y r i b : positive) (d : rdata).

(** * PART 1 *)

(** ** field updates commute *)
Section Alter.
  Implicit Types (m : gmap positive (ptr * ptr)).
  Lemma upd_prev_upd_prev i a c m : upd_prev i a (upd_prev i c m) = upd_prev i a m.
  Proof. unfold upd_prev. rewrite <- alter_compose. apply alter_ext. by intros []. Qed.
  Lemma upd_prev_commute i j a c m : i <> j -> upd_prev i a (upd_prev j c m) = upd_prev j c (upd_prev i a m).
  Proof. intros H. unfold upd_prev. by apply alter_commute. Qed.
  Lemma upd_prev_upd_next i j a c m : upd_prev i a (upd_next j c m) = upd_next j c (upd_prev i a m).
  Proof.
    unfold upd_prev, upd_next. destruct (decide (i = j)) as [->|Hne]; [|by apply alter_commute].
    rewrite <- !alter_compose. apply alter_ext. by intros [].
  Qed.
  Lemma upd_prev_insert_ne i x a v m : i <> x -> upd_prev i a (<[x := v]> m) = <[x := v]> (upd_prev i a m).
  Proof.
    intros H. apply map_eq. intros j. unfold upd_prev. destruct (decide (j = x)) as [->|Hjx].
    - rewrite lookup_alter_ne by done. by rewrite !lookup_insert.
    - rewrite lookup_insert_ne by done. destruct (decide (i = j)) as [->|Hij].
      + by rewrite !lookup_alter, lookup_insert_ne.
      + by rewrite !lookup_alter_ne, ?lookup_insert_ne.
  Qed.
  Lemma upd_prev_id i a m e : m !! i = Some e -> e.2 = a -> upd_prev i a m = m.
  Proof.
    intros H1 H2. rewrite (upd_prev_insert _ _ _ _ H1). rewrite <- H2. destruct e. cbn. by apply insert_id.
  Qed.
  Lemma lookup_upd_prev_Some i a m b e : m !! b = Some e -> exists pv, upd_prev i a m !! b = Some (e.1, pv).
  Proof.
    intros H. destruct (decide (i = b)) as [->|Hne].
    - rewrite lookup_upd_prev, H. cbn. eauto.
    - rewrite lookup_upd_prev_ne by done. rewrite H. destruct e. eauto.
  Qed.
End Alter.

(** ** heap extension: [h'] is [h] plus the fresh blocks [N] (link and data maps not constrained) *)
Record Ext h h' (N : list positive) : Prop := mkExt {
  ext_below : forall b, (b < h_next h)%positive -> h_str h' !! b = h_str h !! b /\ h_own h' !! b = h_own h !! b;
  ext_live : forall b, b ∈ h_live h' <-> b ∈ h_live h \/ b ∈ N;
  ext_new : forall b, b ∈ N -> (h_next h <= b < h_next h')%positive /\ h_own h' !! b = Some Lib;
  ext_next : (h_next h <= h_next h')%positive;
  ext_req : h_req h <= h_req h';
  ext_hooks : h_hooks h' = h_hooks h;
  ext_trace : exists evs, h_trace h' = evs ++ h_trace h
}.

Lemma Ext_refl h : Ext h h [].
Proof. constructor; try done; try lia; [set_solver|intros b Hb; by apply elem_of_nil in Hb|by exists []]. Qed.
Lemma Ext_trans h1 h2 h3 N1 N2 : Ext h1 h2 N1 -> Ext h2 h3 N2 -> Ext h1 h3 (N1 ++ N2).
Proof.
  intros [A1 A2 A3 A4 A5 A6 [e1 A7]] [B1 B2 B3 B4 B5 B6 [e2 B7]]. constructor.
  - intros b Hb. destruct (B1 b ltac:(lia)) as [-> ->]. by apply A1.
  - intros b. rewrite B2, A2, elem_of_app. tauto.
  - intros b Hb. apply elem_of_app in Hb as [Hb|Hb].
    + destruct (A3 b Hb) as [Hr Ho]. split; [lia|]. destruct (B1 b ltac:(lia)) as [_ ->]. done.
    + destruct (B3 b Hb) as [Hr Ho]. split; [lia|done].
  - lia.
  - lia.
  - congruence.
  - exists (e2 ++ e1). rewrite B7, A7. by rewrite app_assoc.
Qed.
Lemma Ext_mem h h' N N' : (forall b, b ∈ N <-> b ∈ N') -> Ext h h' N -> Ext h h' N'.
Proof.
  intros HN [A1 A2 A3 A4 A5 A6 A7]. constructor; try done.
  - intros b. rewrite A2, HN. done.
  - intros b Hb. apply A3. by apply HN.
Qed.
Lemma Ext_upd_maps_r h h' N L D : Ext h h' N -> Ext h (upd_maps h' L D) N.
Proof. intros [A1 A2 A3 A4 A5 A6 A7]. by constructor. Qed.
Lemma Ext_upd_maps_l h h' N L D : Ext h h' N -> Ext (upd_maps h L D) h' N.
Proof. intros [A1 A2 A3 A4 A5 A6 A7]. by constructor. Qed.
Lemma Ext_of_upd_maps_l h h' N L D : Ext (upd_maps h L D) h' N -> Ext h h' N.
Proof. intros [A1 A2 A3 A4 A5 A6 A7]. by constructor. Qed.
Lemma Ext_live_below h h' N : live_below h -> Ext h h' N -> live_below h'.
Proof.
  intros LB E b Hb. apply (ext_live _ _ _ E) in Hb as [Hb|Hb].
  - pose proof (LB b Hb). pose proof (ext_next _ _ _ E). lia.
  - destruct (ext_new _ _ _ E b Hb). lia.
Qed.
Lemma clean_failure_Ext h h' : clean_failure h h' -> Ext h h' [].
Proof.
  intros [A1 A2 A3 A4 A5 A6 A7 A8 A9]. constructor; try done.
  - intros b Hb. split; [by apply A3|by apply A4].
  - intros b. rewrite A5. set_solver.
  - intros b Hb. by apply elem_of_nil in Hb.
Qed.
Lemma Ext_new_node h d : Ext h (new_node h d) [h_next h].
Proof.
  constructor; cbn; try done; try lia.
  - intros b Hb. split; [done|]. rewrite lookup_insert_ne by lia. done.
  - intros b. set_solver.
  - intros b Hb. apply elem_of_list_singleton in Hb as ->. split; [lia|by rewrite lookup_insert].
  - by eexists [_].
Qed.
Lemma Ext_new_string h ty s : Ext h (new_string h ty s) [h_next h; Pos.succ (h_next h)].
Proof.
  constructor; cbn; try done; try lia.
  - intros b Hb. rewrite !lookup_insert_ne by lia. done.
  - intros b. set_solver.
  - intros b Hb. apply elem_of_cons in Hb as [->|Hb]; [|apply elem_of_list_singleton in Hb as ->].
    + split; [lia|]. rewrite lookup_insert_ne by lia. by rewrite lookup_insert.
    + split; [lia|by rewrite lookup_insert].
  - by eexists [_; _].
Qed.

Lemma refused_mono oracle h0 h1 h2 : h_req h0 <= h_req h1 -> refused oracle h1 h2 -> refused oracle h0 h2.
Proof. intros H (k & Hk & Ho). exists k. split; [lia|done]. Qed.

(** ** all node entries are below [h_next] (implied by [WF], kept by the lnk tweak) *)
Definition maps_below h : Prop :=
  forall b, (h_next h <= b)%positive -> h_lnk h !! b = None /\ h_dat h !! b = None.
Lemma WF_maps_below h F : WF h F -> maps_below h.
Proof. intros W b Hb. split; [by eapply WF_above_lnk|by eapply WF_above_dat]. Qed.

(** ** one leaf appears *)
Record grows_leaf (H H' : heap) (x : positive) d : Prop := mkGL {
  gl_x : x = h_next H;
  gl_lnk : h_lnk H' = <[x := (None, None)]> (h_lnk H);
  gl_dat : h_dat H' = <[x := mk_dat d []]> (h_dat H);
  gl_ext : Ext H H' (x :: owned_strs d);
  gl_nodup : NoDup (x :: owned_strs d);
  gl_ref : ref_ok (x, d, [])
}.

(** what a leaf constructor [m] does in ANY heap (no well-formedness needed): a new leaf whose
    data satisfies [Q] in the result heap, or a clean failure *)
Definition leaf_contract (oracle : nat -> bool) (m : M ptr) (Q : heap -> rdata -> Prop) (H : heap) : Prop :=
  (exists d H', m H = Ret (Some (h_next H), H') /\ grows_leaf H H' (h_next H) d /\ Q H' d)
  \/ (exists H', m H = Ret (None, H') /\ clean_failure H H' /\ refused oracle H H').

(** ** cJSON_Delete of a leaf that owns nothing, without [WF] *)
Lemma cJSON_Delete_leaf hx id d (pv : ptr) :
  id ∈ h_live hx -> h_own hx !! id = Some Lib -> (id < h_next hx)%positive ->
  h_dat hx !! id = Some (mk_dat d []) -> h_lnk hx !! id = Some (None, pv) ->
  owned_strs d = [] -> ref_ok (id, d, []) ->
  cJSON_Delete (Some id) hx = Ret (tt, free1 id hx).
Proof.
  intros Hl Ho Hlt Hd Hk Hs Hr.
  assert (E : Enc hx [T id d []]).
  { constructor.
    - intros i d' ks Hin. rewrite flat_singleton, flat_t_unfold in Hin. cbn in Hin.
      apply elem_of_list_singleton in Hin. by injection Hin as -> -> ->.
    - intros j c Hj. destruct j; [|done]. injection Hj as <-. exists pv. exact Hk.
    - intros i d' ks j c Hin Hj. rewrite flat_singleton, flat_t_unfold in Hin. cbn in Hin.
      apply elem_of_list_singleton in Hin. injection Hin as -> -> ->. done.
    - rewrite flat_singleton, flat_t_unfold. cbn. rewrite Hs. cbn. apply NoDup_singleton.
    - intros b Hb. rewrite flat_singleton, flat_t_unfold in Hb. cbn in Hb. rewrite Hs in Hb. cbn in Hb.
      apply elem_of_list_singleton in Hb as ->. done.
    - rewrite flat_singleton, flat_t_unfold. cbn. by apply Forall_singleton. }
  unfold cJSON_Delete, heap_fuel. unfold bindM at 1.
  change (Some id) with (head (tid <$> [T id d []])).
  assert (Hf : length (nodes [T id d []]) < Pos.to_nat (h_next hx)).
  { change (length (nodes [T id d []])) with 1. lia. }
  rewrite (cJSON_Delete_fuel_sim _ _ _ Hf E).
  by rewrite (free_order_leaf _ _ Hs).
Qed.

(** the node just allocated is released again: clean w.r.t. the heap before the allocation *)
Lemma clean_failure_intro' h h' :
  maps_below h -> live_below h ->
  (forall b, (b < h_next h)%positive ->
     h_lnk h' !! b = h_lnk h !! b /\ h_dat h' !! b = h_dat h !! b /\ h_str h' !! b = h_str h !! b /\
     h_own h' !! b = h_own h !! b /\ (b ∈ h_live h' <-> b ∈ h_live h)) ->
  (forall b, (h_next h <= b)%positive -> h_lnk h' !! b = None /\ h_dat h' !! b = None /\ b ∉ h_live h') ->
  (h_next h <= h_next h')%positive -> h_req h <= h_req h' -> h_hooks h' = h_hooks h ->
  (exists evs, h_trace h' = evs ++ h_trace h) ->
  clean_failure h h'.
Proof.
  intros MB LB Hlo Hhi Hn Hr Hh Ht. constructor; try done.
  - apply map_eq. intros b. destruct (Pos.ltb_spec b (h_next h)) as [Hb|Hb].
    + by apply Hlo.
    + destruct (MB b Hb) as [-> _]. by apply Hhi.
  - apply map_eq. intros b. destruct (Pos.ltb_spec b (h_next h)) as [Hb|Hb].
    + by apply Hlo.
    + destruct (MB b Hb) as [_ ->]. by apply Hhi.
  - intros b Hb. by apply Hlo.
  - intros b Hb. by apply Hlo.
  - apply set_eq. intros b. destruct (Pos.ltb_spec b (h_next h)) as [Hb|Hb].
    + by apply Hlo.
    + split; intros Hin; [by apply Hhi in Hin|]. pose proof (LB b Hin). lia.
Qed.

Lemma cJSON_Delete_new_node' h d hx :
  maps_below h -> live_below h -> owned_strs d = [] -> (rd_ref d <> None -> is_ref d = true) ->
  hx = new_node h d \/ hx = bump (new_node h d) ->
  cJSON_Delete (Some (h_next h)) hx = Ret (tt, free1 (h_next h) hx) /\ clean_failure h (free1 (h_next h) hx).
Proof.
  intros MB LB Hs Hr Hx. split.
  - apply (cJSON_Delete_leaf hx (h_next h) d None); try done.
    + destruct Hx as [->| ->]; cbn; set_solver.
    + destruct Hx as [->| ->]; cbn; by rewrite lookup_insert.
    + destruct Hx as [->| ->]; cbn; lia.
    + destruct Hx as [->| ->]; cbn; by rewrite lookup_insert.
    + destruct Hx as [->| ->]; cbn; by rewrite lookup_insert.
  - apply (clean_failure_intro' _ _ MB LB).
    + intros b Hb. assert (b <> h_next h) by lia.
      destruct Hx as [->| ->]; cbn; rewrite !lookup_delete_ne, ?lookup_insert_ne by done; (split_and!; try done; set_solver).
    + intros b Hb. destruct (decide (b = h_next h)) as [->|Hne].
      * destruct Hx as [->| ->]; cbn; rewrite !lookup_delete; (split_and!; try done; set_solver).
      * destruct (MB b Hb) as [H1 H2].
        assert (b ∉ h_live h) by (intros Hin; pose proof (LB b Hin); lia).
        destruct Hx as [->| ->]; cbn; rewrite !lookup_delete_ne, !lookup_insert_ne by done; (split_and!; try done; set_solver).
    + destruct Hx as [->| ->]; cbn; lia.
    + destruct Hx as [->| ->]; cbn; lia.
    + by destruct Hx as [->| ->].
    + destruct Hx as [->| ->]; cbn; by eexists [_; _].
Qed.

Section LeafMakers.
  Variable oracle : nat -> bool.

  (** ** cJSON_CreateNumber in any heap *)
  Lemma cJSON_CreateNumber_contract num H :
    leaf_contract oracle (cJSON_CreateNumber oracle num) (fun _ d => d = rd_number num) H.
  Proof.
    unfold leaf_contract, cJSON_CreateNumber, cJSON_New_Item. destruct (oracle (h_req H)) eqn:Ho.
    - right. exists (bump H). rewrite (bindM_Ret _ _ _ _ _ (run_alloc_node_fail _ _ Ho)).
      split; [done|]. split; [apply clean_failure_bump|]. exists (h_req H). cbn. split; [lia|done].
    - left. exists (rd_number num), (new_node H (rd_number num)). split; [|split; [|done]].
      + rewrite (bindM_Ret _ _ _ _ _ (run_alloc_node_ok _ _ Ho)).
        cbn [is_null negb when]. rewrite !bindM_assoc.
        rewrite (bindM_Ret _ _ _ _ _ (run_set_type_plain _ _ _ c_cJSON_Number (new_node_live _ _) (new_node_dat _ _))).
        rewrite (new_node_set H _ _ (rd_of_type c_cJSON_Number)) by reflexivity. rewrite !bindM_assoc.
        rewrite (bindM_Ret _ _ _ _ _ (run_set_vdbl_plain _ _ _ num (new_node_live _ _) (new_node_dat _ _))).
        rewrite (new_node_set H _ _ (mkRD c_cJSON_Number None 0 num None None)) by reflexivity.
        rewrite (bindM_Ret _ _ _ _ _ (run_set_vint_plain _ _ _ (sat_int num) (new_node_live _ _) (new_node_dat _ _))).
        rewrite (new_node_set H _ _ (rd_number num)) by reflexivity. reflexivity.
      + constructor; try done.
        * apply Ext_new_node.
        * apply NoDup_singleton.
  Qed.

  (** ** cJSON_CreateString in any heap with entries below [h_next] *)
  Definition string_leaf (s : bytes) (H : heap) (d : rdata) : Prop :=
    exists sb, d = rd_string c_cJSON_String sb /\ (sb < h_next H)%positive /\ h_str H !! sb = Some (s ++ [0%Z]).

  Lemma cJSON_CreateString_contract H sb :
    live_below H -> maps_below H -> Readable H sb ->
    leaf_contract oracle (cJSON_CreateString oracle (Some sb)) (string_leaf (str_at H sb)) H.
  Proof.
    intros LB MB HR. unfold leaf_contract, cJSON_CreateString, create_string_like, cJSON_New_Item.
    set (ty := c_cJSON_String).
    destruct (oracle (h_req H)) eqn:Ho.
    { right. exists (bump H). rewrite (bindM_Ret _ _ _ _ _ (run_alloc_node_fail _ _ Ho)). cbn [is_null].
      split; [done|]. split; [apply clean_failure_bump|]. exists (h_req H). cbn. split; [lia|done]. }
    rewrite (bindM_Ret _ _ _ _ _ (run_alloc_node_ok _ _ Ho)). cbn [is_null].
    rewrite (bindM_Ret _ _ _ _ _ (run_set_type_plain _ _ _ ty (new_node_live _ _) (new_node_dat _ _))).
    rewrite (new_node_set H _ _ (rd_of_type ty)) by reflexivity.
    set (h1 := new_node H (rd_of_type ty)).
    assert (HR1 : Readable h1 sb) by (by apply Readable_new_node).
    destruct (oracle (S (h_req H))) eqn:Ho2.
    - right. assert (Ho2' : oracle (h_req h1) = true) by done.
      rewrite (bindM_Ret _ _ _ _ _ (cJSON_strdup_fail _ _ _ HR1 Ho2')).
      assert (Hl : h_next H ∈ h_live (bump h1)) by (cbn; set_solver).
      assert (Hd : h_dat (bump h1) !! h_next H = Some (mk_dat (rd_of_type ty) [])) by (cbn; by rewrite lookup_insert).
      rewrite (bindM_Ret _ _ _ _ _ (run_set_vstr_plain _ _ _ None Hl Hd)).
      assert (Heq : set_dat (bump h1) (<[h_next H := nd_set_vstr (mk_dat (rd_of_type ty) []) None]> (h_dat (bump h1))) = bump h1).
      { unfold set_dat, upd_maps, bump, h1, new_node. cbn. f_equal. by rewrite insert_insert. }
      rewrite Heq. rewrite (bindM_Ret _ _ _ _ _ (run_get_vstr_plain _ _ _ Hl Hd)). cbn [nd_vstr mk_dat rd_vstr rd_of_type is_null].
      destruct (cJSON_Delete_new_node' H (rd_of_type ty) (bump h1) MB LB (owned_strs_of_type ty) ltac:(done) (or_intror eq_refl)) as [Hdel Hcf].
      rewrite (bindM_Ret _ _ _ _ _ Hdel). eexists. split; [reflexivity|]. split; [exact Hcf|].
      exists (S (h_req H)). cbn. split; [lia|done].
    - left. assert (Ho2' : oracle (h_req h1) = false) by done.
      rewrite (bindM_Ret _ _ _ _ _ (cJSON_strdup_ok _ _ _ HR1 Ho2')).
      set (s := str_at h1 sb ++ [0%Z]). set (sid := h_next h1).
      assert (Hl : h_next H ∈ h_live (new_str h1 s)) by (cbn; set_solver).
      assert (Hd : h_dat (new_str h1 s) !! h_next H = Some (mk_dat (rd_of_type ty) [])) by (cbn; by rewrite lookup_insert).
      rewrite (bindM_Ret _ _ _ _ _ (run_set_vstr_plain _ _ _ (Some sid) Hl Hd)).
      assert (Heq : set_dat (new_str h1 s) (<[h_next H := nd_set_vstr (mk_dat (rd_of_type ty) []) (Some sid)]> (h_dat (new_str h1 s)))
                    = new_string H ty (str_at H sb ++ [0%Z])).
      { unfold set_dat, upd_maps, new_string, new_str, h1, new_node. cbn. f_equal. by rewrite insert_insert. }
      rewrite Heq.
      assert (Hl' : h_next H ∈ h_live (new_string H ty (str_at H sb ++ [0%Z]))) by (cbn; set_solver).
      assert (Hd' : h_dat (new_string H ty (str_at H sb ++ [0%Z])) !! h_next H = Some (mk_dat (rd_string ty (Pos.succ (h_next H))) []))
        by (cbn; by rewrite lookup_insert).
      rewrite (bindM_Ret _ _ _ _ _ (run_get_vstr_plain _ _ _ Hl' Hd')). cbn [nd_vstr mk_dat rd_vstr rd_string is_null].
      exists (rd_string ty (Pos.succ (h_next H))), (new_string H ty (str_at H sb ++ [0%Z])).
      assert (Hs : owned_strs (rd_string ty (Pos.succ (h_next H))) = [Pos.succ (h_next H)]) by reflexivity.
      split; [reflexivity|]. split.
      + constructor; try done.
        * rewrite Hs. apply Ext_new_string.
        * rewrite Hs. apply NoDup_cons. split; [|apply NoDup_singleton]. intros Hin%elem_of_list_singleton. lia.
      + exists (Pos.succ (h_next H)). split; [done|]. split; [cbn; lia|]. cbn. by rewrite lookup_insert.
  Qed.
End LeafMakers.
