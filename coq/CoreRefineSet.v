(** CoreRefineSet.v — simulation lemmas (C06/C07/C08) for the SETTERS and value QUERIES of
    CoreDefs.v: [cJSON_SetNumberHelper], [cJSON_SetNumberValue], [cJSON_SetIntValue],
    [cJSON_SetBoolValue], [cJSON_SetValuestring] (every exit), [cJSON_GetStringValue],
    [cJSON_GetNumberValue], [cJSON_IsString], [cJSON_IsNumber].

    The list model of a setter is [set_data x d' F] (Forest.v): the data of node [x] replaced,
    everything else — children, siblings, other trees — untouched.  Lemma shape:

      WF h F -> find_tree x F = Some (T x d cs) -> ... ->
      f args h = Ret (r, h') /\ WF h' (set_data x d' F)

    with [h'] explicit.  [cJSON_SetValuestring] is the only setter that allocates; its lemma has
    the two-branch shape of CoreRefineCreate.v (the failure branch returns NULL, leaves the OLD
    string in place: [clean_failure], and only happens when the request was refused). *)
From CJ Require Import Base Dbl Heap Forest ForestLemmas CoreSpec CoreDefs CoreRefineBase CoreRefine
  CoreRefineDelete CoreRefineReplace CoreRefineMore CoreRefineCreate.
From CJ.gen Require Import Constants.
From Coq Require Import Floats.SpecFloat.
From stdpp Require Import gmap.
Implicit Types (h : heap) (F : forest) (p x y i b : positive) (d : rdata).

(** * the list model *)
(** [rd_set_number], [rd_set_int], [rd_set_bool], [spec_update] are CoreSpec's *)
Definition rd_set_type d (t : Z) : rdata := mkRD t (rd_vstr d) (rd_vint d) (rd_vdbl d) (rd_key d) (rd_ref d).
Definition rd_set_vstr d (v : ptr) : rdata := mkRD (rd_type d) v (rd_vint d) (rd_vdbl d) (rd_key d) (rd_ref d).

(** the new type word of cJSON_SetBoolValue: bits 0 and 1 replaced *)
Definition bool_type (t : Z) (bv : bool) : Z :=
  Z.lor (Z.land t (Z.lnot (Z.lor c_cJSON_False c_cJSON_True))) (if bv then c_cJSON_True else c_cJSON_False).

Lemma rd_set_bool_eq d bv : rd_set_bool d bv = rd_set_type d (bool_type (rd_type d) bv).
Proof. reflexivity. Qed.

Definition spec_set_number F (object : ptr) (n : dbl) : forest * dbl :=
  match object with Some x => (spec_update F x (fun d => rd_set_number d n), n) | None => (F, n) end.
Definition spec_set_int F (object : ptr) (z : Z) : forest * Z :=
  match object with Some x => (spec_update F x (fun d => rd_set_int d z), z) | None => (F, z) end.
Definition spec_set_bool F (object : ptr) (bv : bool) : forest * Z :=
  match object with
  | Some x =>
      match find_tree x F with
      | Some n =>
          if has_flag (rd_type (tdata n)) (Z.lor c_cJSON_False c_cJSON_True)
          then (set_data x (rd_set_type (tdata n) (bool_type (rd_type (tdata n)) bv)) F, bool_type (rd_type (tdata n)) bv)
          else (F, c_cJSON_Invalid)
      | None => (F, c_cJSON_Invalid)
      end
  | None => (F, c_cJSON_Invalid)
  end.

(** * bits *)
Lemma bool_type_low t bv : Z.land (bool_type t bv) 3 = if bv then 2%Z else 1%Z.
Proof.
  unfold bool_type. rewrite Z.land_lor_distr_l, <- Z.land_assoc.
  change (Z.land (Z.lnot (Z.lor c_cJSON_False c_cJSON_True)) 3) with 0%Z. rewrite Z.land_0_r. by destruct bv.
Qed.
Lemma bool_type_high t bv : Z.land (bool_type t bv) (Z.lnot 3) = Z.land t (Z.lnot 3).
Proof.
  unfold bool_type. rewrite Z.land_lor_distr_l, <- Z.land_assoc.
  change (Z.land (Z.lnot (Z.lor c_cJSON_False c_cJSON_True)) (Z.lnot 3)) with (Z.lnot 3).
  replace (Z.land (if bv then c_cJSON_True else c_cJSON_False) (Z.lnot 3)) with 0%Z by (by destruct bv).
  apply Z.lor_0_r.
Qed.
Lemma bool_type_flag t bv f : Z.land f 3 = 0%Z -> Z.land (bool_type t bv) f = Z.land t f.
Proof.
  intros Hf. unfold bool_type. rewrite Z.land_lor_distr_l, <- Z.land_assoc.
  assert (Z.land (Z.lnot (Z.lor c_cJSON_False c_cJSON_True)) f = f) as ->.
  { change (Z.lor c_cJSON_False c_cJSON_True) with 3%Z. apply Z.bits_inj'. intros n Hn.
    rewrite Z.land_spec, Z.lnot_spec by done.
    assert (Hb : Z.testbit (Z.land f 3) n = false) by (rewrite Hf; apply Z.bits_0).
    rewrite Z.land_spec in Hb. destruct (Z.testbit f n) eqn:E; [|by rewrite andb_false_r].
    cbn in Hb. rewrite Hb. done. }
  assert (Z.land (if bv then c_cJSON_True else c_cJSON_False) f = 0%Z) as ->.
  { apply Z.bits_inj'. intros n Hn. rewrite Z.land_spec, Z.bits_0.
    assert (Hb : Z.testbit (Z.land f 3) n = false) by (rewrite Hf; apply Z.bits_0).
    rewrite Z.land_spec in Hb. destruct (Z.testbit f n) eqn:E; [|by rewrite andb_false_r].
    cbn in Hb. rewrite andb_true_r.
    destruct (decide (n = 0%Z)) as [->|]; [done|]. destruct (decide (n = 1%Z)) as [->|]; [done|].
    destruct bv.
    - change c_cJSON_True with (2 ^ 1)%Z. apply Z.pow2_bits_false. lia.
    - change c_cJSON_False with (2 ^ 0)%Z. apply Z.pow2_bits_false. lia. }
  apply Z.lor_0_r.
Qed.
Lemma bool_type_is_ref d bv : is_ref (rd_set_type d (bool_type (rd_type d) bv)) = is_ref d.
Proof. unfold is_ref. cbn [rd_type rd_set_type]. by rewrite bool_type_flag. Qed.
Lemma bool_type_is_const d bv : is_const (rd_set_type d (bool_type (rd_type d) bv)) = is_const d.
Proof. unfold is_const. cbn [rd_type rd_set_type]. by rewrite bool_type_flag. Qed.

(** * one node's data changes, ownership does not *)
Lemma find_tree_live_dat h F x d cs :
  WF h F -> find_tree x F = Some (T x d cs) -> x ∈ h_live h /\ h_dat h !! x = Some (mk_dat d (tid <$> cs)).
Proof. apply WF_live_dat. Qed.

Lemma set_data_WF h F x d cs d' :
  WF h F -> find_tree x F = Some (T x d cs) ->
  owned_strs d' = owned_strs d -> is_ref d' = is_ref d -> rd_ref d' = rd_ref d ->
  let F' := set_data x d' F in
  let h' := set_dat h (<[x := mk_dat d' (tid <$> cs)]> (h_dat h)) in
  WF h' F' /\ h' = upd_maps h (heap_lnk_of F') (heap_dat_of F') /\ (NoLeak h F -> NoLeak h' F').
Proof.
  intros W Hx Hs Hr Hrr F' h'. pose proof (wf_nodup _ _ W) as ND.
  apply find_tree_Some in Hx as [Hx _].
  destruct (flat_set_data F x d cs ND Hx) as (FL & E1 & E2). specialize (E2 d'). fold F' in E2.
  assert (Hown : owned F' ≡ₚ owned F).
  { unfold owned. rewrite E1, E2, !owned_fl_cons. unfold owned_fn. cbn [fn_id fn_data fst snd]. by rewrite Hs. }
  assert (W' : WF h' F').
  { apply (WF_set_data h h' F F' x d d' (tid <$> cs) FL W E1 E2); try done.
    - unfold F'. by rewrite roots_set_data.
    - rewrite Hown. apply W.
    - intros b Hb. rewrite Hown in Hb. cbn. split; [by apply (wf_owned_live _ _ W)|].
      split; [by apply (wf_owned_lib _ _ W)|by apply (wf_fresh _ _ W)].
    - pose proof (wf_ref _ _ W) as HrF. rewrite E1 in HrF. apply Forall_cons in HrF as [[H1 H2] _].
      cbn [fn_data fn_cids fst snd] in *. split; cbn [fn_data fn_cids fst snd]; rewrite ?Hr, ?Hrr; done. }
  split; [exact W'|]. split.
  - rewrite <- (wf_lnk _ _ W'), <- (wf_dat _ _ W'). reflexivity.
  - intros NL b Hb. rewrite Hown. by apply NL.
Qed.

(** * cJSON_SetNumberHelper / cJSON_SetNumberValue / cJSON_SetIntValue *)
Lemma cJSON_SetNumberHelper_sim h F x d cs (n : dbl) :
  WF h F -> find_tree x F = Some (T x d cs) ->
  let F' := set_data x (rd_set_number d n) F in
  let h' := upd_maps h (heap_lnk_of F') (heap_dat_of F') in
  spec_set_number F (Some x) n = (F', n) /\
  cJSON_SetNumberHelper (Some x) n h = Ret (n, h') /\ WF h' F' /\ (NoLeak h F -> NoLeak h' F').
Proof.
  intros W Hx F' h'. destruct (find_tree_live_dat _ _ _ _ _ W Hx) as [Hl Hd].
  destruct (set_data_WF h F x d cs (rd_set_number d n) W Hx eq_refl eq_refl eq_refl) as (W' & Heq & NL).
  fold F' in W', Heq, NL. fold h' in Heq. rewrite <- Heq.
  split; [unfold spec_set_number, spec_update; by rewrite Hx|]. split; [|done].
  unfold cJSON_SetNumberHelper.
  rewrite (bindM_Ret _ _ _ _ _ (run_set_vint_plain _ _ _ (sat_int n) Hl Hd)).
  match goal with |- bindM _ _ ?hh = _ => set (h1 := hh) end.
  assert (Hd1 : h_dat h1 !! x = Some (nd_set_vint (mk_dat d (tid <$> cs)) (sat_int n))) by (cbn; by rewrite lookup_insert).
  rewrite (bindM_Ret _ _ _ _ _ (run_set_vdbl_plain h1 _ _ n Hl Hd1)).
  unfold ret, h1. rewrite set_dat_set_dat. cbn [h_dat set_dat upd_maps]. rewrite insert_insert. reflexivity.
Qed.

Lemma cJSON_SetNumberValue_sim h F x d cs (n : dbl) :
  WF h F -> find_tree x F = Some (T x d cs) ->
  let F' := set_data x (rd_set_number d n) F in
  let h' := upd_maps h (heap_lnk_of F') (heap_dat_of F') in
  spec_set_number F (Some x) n = (F', n) /\
  cJSON_SetNumberValue (Some x) n h = Ret (n, h') /\ WF h' F' /\ (NoLeak h F -> NoLeak h' F').
Proof. apply cJSON_SetNumberHelper_sim. Qed.
Lemma cJSON_SetNumberValue_null h F (n : dbl) :
  spec_set_number F None n = (F, n) /\ cJSON_SetNumberValue None n h = Ret (n, h).
Proof. done. Qed.

Lemma cJSON_SetIntValue_sim h F x d cs (z : Z) :
  WF h F -> find_tree x F = Some (T x d cs) ->
  let F' := set_data x (rd_set_int d z) F in
  let h' := upd_maps h (heap_lnk_of F') (heap_dat_of F') in
  spec_set_int F (Some x) z = (F', z) /\
  cJSON_SetIntValue (Some x) z h = Ret (z, h') /\ WF h' F' /\ (NoLeak h F -> NoLeak h' F').
Proof.
  intros W Hx F' h'. destruct (find_tree_live_dat _ _ _ _ _ W Hx) as [Hl Hd].
  destruct (set_data_WF h F x d cs (rd_set_int d z) W Hx eq_refl eq_refl eq_refl) as (W' & Heq & NL).
  fold F' in W', Heq, NL. fold h' in Heq. rewrite <- Heq.
  split; [unfold spec_set_int, spec_update; by rewrite Hx|]. split; [|done].
  unfold cJSON_SetIntValue. cbn [is_null].
  rewrite (bindM_Ret _ _ _ _ _ (run_set_vdbl_plain _ _ _ (dbl_of_int z) Hl Hd)).
  match goal with |- bindM _ _ ?hh = _ => set (h1 := hh) end.
  assert (Hd1 : h_dat h1 !! x = Some (nd_set_vdbl (mk_dat d (tid <$> cs)) (dbl_of_int z))) by (cbn; by rewrite lookup_insert).
  rewrite (bindM_Ret _ _ _ _ _ (run_set_vint_plain h1 _ _ z Hl Hd1)).
  unfold ret, h1. rewrite set_dat_set_dat. cbn [h_dat set_dat upd_maps]. rewrite insert_insert. reflexivity.
Qed.
Lemma cJSON_SetIntValue_null h F (z : Z) :
  spec_set_int F None z = (F, z) /\ cJSON_SetIntValue None z h = Ret (z, h).
Proof. done. Qed.

(** * cJSON_SetBoolValue: only bits 0 and 1 of the type word of a bool node change *)
Lemma cJSON_SetBoolValue_sim h F x d cs (bv : bool) :
  WF h F -> find_tree x F = Some (T x d cs) ->
  has_flag (rd_type d) (Z.lor c_cJSON_False c_cJSON_True) = true ->
  let t' := bool_type (rd_type d) bv in
  let F' := set_data x (rd_set_type d t') F in
  let h' := upd_maps h (heap_lnk_of F') (heap_dat_of F') in
  spec_set_bool F (Some x) bv = (F', t') /\
  cJSON_SetBoolValue (Some x) bv h = Ret (t', h') /\ WF h' F' /\ (NoLeak h F -> NoLeak h' F').
Proof.
  intros W Hx Hb t' F' h'. destruct (find_tree_live_dat _ _ _ _ _ W Hx) as [Hl Hd].
  destruct (set_data_WF h F x d cs (rd_set_type d t') W Hx) as (W' & Heq & NL).
  { unfold owned_strs. unfold t'. by rewrite bool_type_is_ref, bool_type_is_const. }
  { apply bool_type_is_ref. }
  { reflexivity. }
  fold F' in W', Heq, NL. fold h' in Heq. rewrite <- Heq.
  split; [unfold spec_set_bool; rewrite Hx; cbn [tdata]; by rewrite Hb|]. split; [|done].
  unfold cJSON_SetBoolValue. cbn [is_null].
  rewrite (bindM_Ret _ _ _ _ _ (run_get_type_plain _ _ _ Hl Hd)). cbn [nd_type mk_dat]. rewrite Hb.
  rewrite (bindM_Ret _ _ _ _ _ (run_get_type_plain _ _ _ Hl Hd)). cbn [nd_type mk_dat].
  rewrite (bindM_Ret _ _ _ _ _ (run_set_type_plain _ _ _ _ Hl Hd)). reflexivity.
Qed.

Lemma cJSON_SetBoolValue_not_bool h F x d cs (bv : bool) :
  WF h F -> find_tree x F = Some (T x d cs) ->
  has_flag (rd_type d) (Z.lor c_cJSON_False c_cJSON_True) = false ->
  spec_set_bool F (Some x) bv = (F, c_cJSON_Invalid) /\
  cJSON_SetBoolValue (Some x) bv h = Ret (c_cJSON_Invalid, h).
Proof.
  intros W Hx Hb. destruct (find_tree_live_dat _ _ _ _ _ W Hx) as [Hl Hd].
  split; [unfold spec_set_bool; rewrite Hx; cbn [tdata]; by rewrite Hb|].
  unfold cJSON_SetBoolValue. cbn [is_null].
  rewrite (bindM_Ret _ _ _ _ _ (run_get_type_plain _ _ _ Hl Hd)). cbn [nd_type mk_dat]. by rewrite Hb.
Qed.
Lemma cJSON_SetBoolValue_null h F (bv : bool) :
  spec_set_bool F None bv = (F, c_cJSON_Invalid) /\ cJSON_SetBoolValue None bv h = Ret (c_cJSON_Invalid, h).
Proof. done. Qed.

(** * cJSON_SetValuestring *)

(** the list model: [strs] the string heap, [copy] the block cJSON_strdup returns when it is
    called (None = refused).  Results: the forest and the returned pointer; the CONTENTS of
    the valuestring block after an in-place copy are stated in [cJSON_SetValuestring_inplace]. *)
Definition spec_set_valuestring (strs : gmap positive bytes) F (object valuestring copy : ptr) : forest * ptr :=
  match object, valuestring with
  | Some x, Some sb =>
      match find_tree x F with
      | Some n =>
          let d := tdata n in
          if negb (has_flag (rd_type d) c_cJSON_String) || is_ref d then (F, None) else
          match rd_vstr d with
          | None => (F, None)
          | Some vb =>
              let len b := length (match strs !! b with Some s => cstr s | None => [] end) in
              if len sb <=? len vb then (if decide (sb = vb) then (F, None) else (F, Some vb))
              else match copy with
                   | Some nb => (set_data x (rd_set_vstr d (Some nb)) F, Some nb)
                   | None => (F, None)
                   end
          end
      | None => (F, None)
      end
  | _, _ => (F, None)
  end.

Lemma cstr_app_zero_rest (s r : bytes) : Forall (fun c => c <> 0%Z) s -> cstr (s ++ 0%Z :: r) = s.
Proof.
  induction s as [|c s IH]; intros H; [done|]. apply Forall_cons in H as [Hc H]. cbn.
  destruct (Z.eqb_spec c 0); [done|]. by rewrite IH.
Qed.
Lemma str_at_nonzero h b : Forall (fun c => c <> 0%Z) (str_at h b).
Proof. unfold str_at. destruct (h_str h !! b); [apply cstr_nonzero'|constructor]. Qed.

(** the valuestring block of a non-reference node is owned by the forest and is no node *)
Lemma vstr_owned h F x d (ks : list positive) vb :
  WF h F -> (x, d, ks) ∈ flat F -> is_ref d = false -> rd_vstr d = Some vb ->
  vb ∈ owned F /\ vb <> x /\ vb ∉ ids F.
Proof.
  intros W Hn Hr Hv. pose proof (wf_owned_nodup _ _ W) as NDo.
  apply elem_of_Permutation in Hn as [FL HFL]. unfold owned in *. rewrite HFL in NDo. rewrite HFL.
  rewrite owned_fl_cons in *. unfold owned_fn in *. cbn [fn_id fn_data fst snd] in *.
  assert (Hin : vb ∈ owned_strs d) by (unfold owned_strs; rewrite Hr, Hv; apply elem_of_app; left; by left).
  apply NoDup_app in NDo as (ND1 & ND12 & _). apply NoDup_cons in ND1 as [Hx _].
  split; [apply elem_of_app; left; by right|]. split; [by intros ->|].
  rewrite ids_flat, HFL. cbn. intros Hi. apply elem_of_cons in Hi as [->|Hi]; [done|].
  apply (ND12 vb); [by right|]. apply elem_of_list_fmap in Hi as (e & -> & He).
  apply elem_of_owned_fl. exists e. split; [done|]. by left.
Qed.

Section SetValuestring.
  Variable oracle : nat -> bool.

  Lemma cJSON_SetValuestring_null h F valuestring copy :
    spec_set_valuestring (h_str h) F None valuestring copy = (F, None) /\
    cJSON_SetValuestring oracle None valuestring h = Ret (None, h).
  Proof. done. Qed.

  (** not a string, a reference, no valuestring, or a NULL argument: refused, nothing changes *)
  Lemma cJSON_SetValuestring_refused h F x d cs valuestring copy :
    WF h F -> find_tree x F = Some (T x d cs) ->
    has_flag (rd_type d) c_cJSON_String = false \/ is_ref d = true \/ rd_vstr d = None \/ valuestring = None ->
    spec_set_valuestring (h_str h) F (Some x) valuestring copy = (F, None) /\
    cJSON_SetValuestring oracle (Some x) valuestring h = Ret (None, h).
  Proof.
    intros W Hx H. destruct (find_tree_live_dat _ _ _ _ _ W Hx) as [Hl Hd]. split.
    - unfold spec_set_valuestring. destruct valuestring as [sb|]; [|done]. rewrite Hx. cbn [tdata].
      destruct (has_flag (rd_type d) c_cJSON_String); [|done]. destruct (is_ref d); [done|]. cbn [negb orb].
      destruct (rd_vstr d); [|done]. destruct H as [H|[H|[H|H]]]; done.
    - unfold cJSON_SetValuestring. cbn [is_null].
      rewrite (bindM_Ret _ _ _ _ _ (run_get_type_plain _ _ _ Hl Hd)). cbn [nd_type mk_dat].
      destruct (has_flag (rd_type d) c_cJSON_String) eqn:Hs; [|done]. cbn [negb].
      rewrite has_flag_is_ref. destruct (is_ref d) eqn:Hr; [done|].
      rewrite (bindM_Ret _ _ _ _ _ (run_get_vstr_plain _ _ _ Hl Hd)). cbn [nd_vstr mk_dat].
      destruct (rd_vstr d) as [vb|] eqn:Hv; [|done]. destruct valuestring as [sb|]; [|done].
      destruct H as [H|[H|[H|H]]]; done.
  Qed.

  (** the common prefix of the remaining exits *)
  Lemma svs_prefix h F x d cs vb sb :
    WF h F -> find_tree x F = Some (T x d cs) ->
    has_flag (rd_type d) c_cJSON_String = true -> is_ref d = false -> rd_vstr d = Some vb ->
    Readable h sb -> Readable h vb ->
    cJSON_SetValuestring oracle (Some x) (Some sb) h =
    (if (length (str_at h sb) <=? length (str_at h vb))%nat then
       if ptr_eqb (Some sb) (Some vb) then ret None else
       old <~ ld_str (Some vb) ;;
       st_str (Some vb) (str_at h sb ++ 0%Z :: skipn (S (length (str_at h sb))) old) ;;;
       get_vstr (Some x)
     else
       copy <~ cJSON_strdup oracle (Some sb) ;;
       if is_null copy then ret None else
       ovs4 <~ get_vstr (Some x) ;;
       when (negb (is_null ovs4)) (ovs5 <~ get_vstr (Some x) ;; cJSON_free ovs5) ;;;
       set_vstr (Some x) copy ;;;
       ret copy) h.
  Proof.
    intros W Hx Hs Hr Hv HRs HRv. destruct (find_tree_live_dat _ _ _ _ _ W Hx) as [Hl Hd].
    unfold cJSON_SetValuestring. cbn [is_null].
    rewrite (bindM_Ret _ _ _ _ _ (run_get_type_plain _ _ _ Hl Hd)). cbn [nd_type mk_dat].
    rewrite Hs. cbn [negb]. rewrite has_flag_is_ref, Hr.
    rewrite (bindM_Ret _ _ _ _ _ (run_get_vstr_plain _ _ _ Hl Hd)). cbn [nd_vstr mk_dat]. rewrite Hv. cbn [is_null orb].
    rewrite (bindM_Ret _ _ _ _ _ (run_ld_cstr_readable _ _ HRs)).
    rewrite (bindM_Ret _ _ _ _ _ (run_get_vstr_plain _ _ _ Hl Hd)). cbn [nd_vstr mk_dat]. rewrite Hv.
    rewrite (bindM_Ret _ _ _ _ _ (run_ld_cstr_readable _ _ HRv)).
    destruct (length (str_at h sb) <=? length (str_at h vb))%nat; [|reflexivity].
    rewrite (bindM_Ret _ _ _ _ _ (run_get_vstr_plain _ _ _ Hl Hd)). cbn [nd_vstr mk_dat]. rewrite Hv.
    destruct (ptr_eqb (Some sb) (Some vb)); [done|].
    rewrite (bindM_Ret _ _ _ _ _ (run_get_vstr_plain _ _ _ Hl Hd)). cbn [nd_vstr mk_dat]. rewrite Hv. reflexivity.
  Qed.

  Lemma spec_svs_unfold h F x d cs vb sb copy :
    find_tree x F = Some (T x d cs) ->
    has_flag (rd_type d) c_cJSON_String = true -> is_ref d = false -> rd_vstr d = Some vb ->
    spec_set_valuestring (h_str h) F (Some x) (Some sb) copy =
    if (length (str_at h sb) <=? length (str_at h vb))%nat then (if decide (sb = vb) then (F, None) else (F, Some vb))
    else match copy with
         | Some nb => (set_data x (rd_set_vstr d (Some nb)) F, Some nb)
         | None => (F, None)
         end.
  Proof. intros Hx Hs Hr Hv. unfold spec_set_valuestring. rewrite Hx. cbn [tdata]. by rewrite Hs, Hr, Hv. Qed.

  (** the argument IS the node's valuestring: the overlap check refuses *)
  Lemma cJSON_SetValuestring_alias h F x d cs vb copy :
    WF h F -> find_tree x F = Some (T x d cs) ->
    has_flag (rd_type d) c_cJSON_String = true -> is_ref d = false -> rd_vstr d = Some vb -> Readable h vb ->
    spec_set_valuestring (h_str h) F (Some x) (Some vb) copy = (F, None) /\
    cJSON_SetValuestring oracle (Some x) (Some vb) h = Ret (None, h).
  Proof.
    intros W Hx Hs Hr Hv HRv. split.
    - rewrite (spec_svs_unfold h F x d cs vb vb copy Hx Hs Hr Hv). rewrite Nat.leb_refl. by rewrite decide_True.
    - rewrite (svs_prefix h F x d cs vb vb W Hx Hs Hr Hv HRv HRv). rewrite Nat.leb_refl. by rewrite ptr_eqb_refl.
  Qed.

  (** the new string fits: copied in place; the block, its size and its owner stay *)
  Lemma cJSON_SetValuestring_inplace h F x d cs vb sb (old : bytes) copy :
    WF h F -> find_tree x F = Some (T x d cs) ->
    has_flag (rd_type d) c_cJSON_String = true -> is_ref d = false -> rd_vstr d = Some vb ->
    Readable h sb -> Readable h vb -> sb <> vb -> h_str h !! vb = Some old ->
    length (str_at h sb) <= length (str_at h vb) ->
    let new := str_at h sb ++ 0%Z :: skipn (S (length (str_at h sb))) old in
    let h' := set_str h (<[vb := new]> (h_str h)) in
    spec_set_valuestring (h_str h) F (Some x) (Some sb) copy = (F, Some vb) /\
    cJSON_SetValuestring oracle (Some x) (Some sb) h = Ret (Some vb, h') /\
    WF h' F /\ (NoLeak h F -> NoLeak h' F) /\ live_below h' = live_below h /\
    Readable h' vb /\ str_at h' vb = str_at h sb /\ length new = length old.
  Proof.
    intros W Hx Hs Hr Hv HRs HRv Hne Hold Hlen new h'.
    destruct (find_tree_live_dat _ _ _ _ _ W Hx) as [Hl Hd].
    pose proof (find_tree_flat _ _ _ _ Hx) as Hn.
    destruct (vstr_owned _ _ _ _ _ _ W Hn Hr Hv) as (Hvo & Hvx & Hvi).
    assert (Hlv : vb ∈ h_live h) by (by apply (wf_owned_live _ _ W)).
    assert (Hov : h_own h !! vb = Some Lib) by (by apply (wf_owned_lib _ _ W)).
    assert (Hterm : existsb (Z.eqb 0) old = true).
    { destruct HRv as (_ & s & H1 & H2). unfold bytes in *. rewrite Hold in H1. by injection H1 as <-. }
    assert (Hv2 : str_at h vb = cstr old) by (unfold str_at; unfold bytes in *; by rewrite Hold).
    assert (Hnewlen : length new = length old).
    { unfold new. rewrite app_length. cbn [length]. rewrite skipn_length.
      pose proof (cstr_length_lt _ Hterm). rewrite Hv2 in Hlen. lia. }
    split.
    { rewrite (spec_svs_unfold h F x d cs vb sb copy Hx Hs Hr Hv).
      apply Nat.leb_le in Hlen. rewrite Hlen. by rewrite decide_False. }
    split.
    { rewrite (svs_prefix h F x d cs vb sb W Hx Hs Hr Hv HRs HRv).
      apply Nat.leb_le in Hlen. rewrite Hlen. rewrite (ptr_eqb_Some_ne _ _ Hne).
      rewrite (bindM_Ret _ _ _ _ _ (run_ld_str_plain _ _ _ Hlv Hold)).
      rewrite (bindM_Ret _ _ _ _ _ (run_st_str_plain _ _ _ _ Hlv Hold Hov Hnewlen)).
      assert (Hl' : x ∈ h_live h') by exact Hl.
      assert (Hd' : h_dat h' !! x = Some (mk_dat d (tid <$> cs))) by exact Hd.
      change (get_vstr (Some x) h' = Ret (Some vb, h')). rewrite (run_get_vstr_plain _ _ _ Hl' Hd'). cbn [nd_vstr mk_dat]. by rewrite Hv. }
    split; [by destruct W; constructor|]. split; [intros NL b Hb; by apply NL|]. split; [reflexivity|].
    split; [|split; [|done]].
    - split; [exact Hlv|]. exists new. cbn. rewrite lookup_insert. split; [done|].
      unfold new. rewrite existsb_app. cbn. by rewrite orb_true_r.
    - unfold str_at at 1. cbn. rewrite lookup_insert. unfold new. apply cstr_app_zero_rest, str_at_nonzero.
  Qed.

  (** the new string does not fit: a copy is made, THEN the old block is released.  If the
      request is refused NULL is returned and the old string is still in place. *)
  Definition svs_realloc_heap h x vb (nd' : ndata) (s : bytes) : heap :=
    let h2 := free1 vb (new_str h s) in set_dat h2 (<[x := nd']> (h_dat h2)).

  Lemma cJSON_SetValuestring_realloc h F x d cs vb sb :
    WF h F -> live_below h -> find_tree x F = Some (T x d cs) ->
    has_flag (rd_type d) c_cJSON_String = true -> is_ref d = false -> rd_vstr d = Some vb ->
    Readable h sb -> Readable h vb ->
    length (str_at h vb) < length (str_at h sb) ->
    (let nb := h_next h in
     let d' := rd_set_vstr d (Some nb) in
     let F' := set_data x d' F in
     let h' := svs_realloc_heap h x vb (mk_dat d' (tid <$> cs)) (str_at h sb ++ [0%Z]) in
     oracle (h_req h) = false /\
     spec_set_valuestring (h_str h) F (Some x) (Some sb) (Some nb) = (F', Some nb) /\
     cJSON_SetValuestring oracle (Some x) (Some sb) h = Ret (Some nb, h') /\
     WF h' F' /\ live_below h' /\ (NoLeak h F -> NoLeak h' F') /\
     Readable h' nb /\ str_at h' nb = str_at h sb /\ vb ∉ h_live h')
    \/ (spec_set_valuestring (h_str h) F (Some x) (Some sb) None = (F, None) /\
        cJSON_SetValuestring oracle (Some x) (Some sb) h = Ret (None, bump h) /\
        clean_failure h (bump h) /\ refused oracle h (bump h)).
  Proof.
    intros W LB Hx Hs Hr Hv HRs HRv Hlen.
    destruct (find_tree_live_dat _ _ _ _ _ W Hx) as [Hl Hd].
    pose proof (find_tree_flat _ _ _ _ Hx) as Hn.
    destruct (vstr_owned _ _ _ _ _ _ W Hn Hr Hv) as (Hvo & Hvx & Hvi).
    assert (Hlv : vb ∈ h_live h) by (by apply (wf_owned_live _ _ W)).
    assert (Hov : h_own h !! vb = Some Lib) by (by apply (wf_owned_lib _ _ W)).
    assert (Hvfresh : (vb < h_next h)%positive) by (by apply (wf_fresh _ _ W)).
    assert (Hxfresh : (x < h_next h)%positive).
    { apply (WF_ids_fresh _ _ _ W). rewrite ids_flat. apply elem_of_list_fmap. by exists (x, d, tid <$> cs). }
    assert (Hleb : (length (str_at h sb) <=? length (str_at h vb))%nat = false) by (apply Nat.leb_gt; lia).
    rewrite (svs_prefix h F x d cs vb sb W Hx Hs Hr Hv HRs HRv). rewrite Hleb.
    destruct (oracle (h_req h)) eqn:Ho.
    { right. split; [by rewrite (spec_svs_unfold h F x d cs vb sb None Hx Hs Hr Hv), Hleb|].
      rewrite (bindM_Ret _ _ _ _ _ (cJSON_strdup_fail _ _ _ HRs Ho)). cbn [is_null].
      split; [done|]. split; [apply clean_failure_bump|]. exists (h_req h). cbn. split; [lia|done]. }
    left. cbn zeta. set (nb := h_next h). set (d' := rd_set_vstr d (Some nb)). set (ks := tid <$> cs) in *.
    set (s := str_at h sb ++ [0%Z]). set (h1 := new_str h s).
    split; [done|].
    split; [by rewrite (spec_svs_unfold h F x d cs vb sb (Some nb) Hx Hs Hr Hv), Hleb|].
    (* the run *)
    assert (Hl1 : x ∈ h_live h1) by (cbn; set_solver).
    assert (Hd1 : h_dat h1 !! x = Some (mk_dat d ks)) by exact Hd.
    assert (Hlv1 : vb ∈ h_live h1) by (cbn; set_solver).
    assert (Hov1 : h_own h1 !! vb = Some Lib) by (cbn; rewrite lookup_insert_ne by (unfold nb; lia); done).
    set (h2 := free1 vb h1).
    assert (Hl2 : x ∈ h_live h2) by (cbn; set_solver).
    assert (Hd2 : h_dat h2 !! x = Some (mk_dat d ks)) by (cbn; by rewrite lookup_delete_ne).
    split.
    { rewrite (bindM_Ret _ _ _ _ _ (cJSON_strdup_ok _ _ _ HRs Ho)). fold nb s h1. cbn [is_null].
      rewrite (bindM_Ret _ _ _ _ _ (run_get_vstr_plain _ _ _ Hl1 Hd1)). cbn [nd_vstr mk_dat]. rewrite Hv.
      cbn [is_null negb when]. rewrite bindM_assoc.
      rewrite (bindM_Ret _ _ _ _ _ (run_get_vstr_plain _ _ _ Hl1 Hd1)). cbn [nd_vstr mk_dat]. rewrite Hv.
      unfold cJSON_free. rewrite (bindM_Ret _ _ _ _ _ (run_free_block _ _ Hlv1 Hov1)). fold h2.
      rewrite (bindM_Ret _ _ _ _ _ (run_set_vstr_plain _ _ _ (Some nb) Hl2 Hd2)). reflexivity. }
    set (h' := svs_realloc_heap h x vb (mk_dat d' ks) s).
    (* ownership before and after *)
    pose proof (wf_nodup _ _ W) as ND.
    apply find_tree_Some in Hx as [Hx _].
    destruct (flat_set_data F x d cs ND Hx) as (FL & E1 & E2). specialize (E2 d'). fold ks in E1, E2.
    set (kp := if is_const d then [] else opt_list (rd_key d)).
    assert (Hos : owned_strs d = vb :: kp) by (unfold owned_strs; by rewrite Hr, Hv).
    assert (Hos' : owned_strs d' = nb :: kp).
    { unfold owned_strs. change (is_ref d') with (is_ref d). change (is_const d') with (is_const d). by rewrite Hr. }
    assert (HownF : owned F ≡ₚ vb :: (x :: kp ++ owned_fl FL)).
    { unfold owned. rewrite E1, owned_fl_cons. unfold owned_fn. cbn [fn_id fn_data fst snd]. rewrite Hos. cbn. apply perm_swap. }
    assert (HownF' : owned (set_data x d' F) ≡ₚ nb :: (x :: kp ++ owned_fl FL)).
    { unfold owned. rewrite E2, owned_fl_cons. unfold owned_fn. cbn [fn_id fn_data fst snd]. rewrite Hos'. cbn. apply perm_swap. }
    pose proof (wf_owned_nodup _ _ W) as NDo. rewrite HownF in NDo. apply NoDup_cons in NDo as [Hvrest NDrest].
    assert (Hrest : forall b, b ∈ x :: kp ++ owned_fl FL -> b ∈ owned F /\ b <> vb).
    { intros b Hb. split; [rewrite HownF; by right|]. by intros ->. }
    assert (Hnbfresh : nb ∉ owned F) by apply (WF_next_notin _ _ W).
    assert (W' : WF h' (set_data x d' F)).
    { apply (WF_set_data h h' F _ x d d' ks FL W E1 E2).
      - by rewrite roots_set_data.
      - cbn. apply delete_notin. rewrite (wf_lnk _ _ W). by apply heap_lnk_of_lookup_None.
      - cbn. f_equal. apply delete_notin. rewrite (wf_dat _ _ W). by apply heap_dat_of_lookup_None.
      - rewrite HownF'. apply NoDup_cons. split; [|done]. intros Hin. apply Hnbfresh. by apply Hrest.
      - intros b Hb. rewrite HownF' in Hb. cbn. apply elem_of_cons in Hb as [->|Hb].
        + split; [|split; [by rewrite lookup_insert|lia]]. apply elem_of_difference. split; [set_solver|].
          intros Heq%elem_of_singleton. unfold nb in Heq. lia.
        + destruct (Hrest b Hb) as [Hbo Hbv]. pose proof (wf_fresh _ _ W _ Hbo). split; [|split].
          * apply elem_of_difference. split; [|by intros ?%elem_of_singleton].
            apply elem_of_union. right. by apply (wf_owned_live _ _ W).
          * rewrite lookup_insert_ne by (unfold nb; lia). by apply (wf_owned_lib _ _ W).
          * lia.
      - pose proof (wf_ref _ _ W) as HrF. rewrite E1 in HrF. by apply Forall_cons in HrF as [? _]. }
    split; [exact W'|].
    split.
    { intros b Hb. cbn in Hb. apply elem_of_difference in Hb as [Hb _]. apply elem_of_union in Hb as [Hb|Hb].
      - apply elem_of_singleton in Hb as ->. cbn. lia.
      - pose proof (LB b Hb). cbn. lia. }
    split.
    { intros NL b Hb. rewrite HownF'. unfold lib_live in Hb. apply elem_of_filter in Hb as [Hb1 Hb2]. cbn in Hb1, Hb2.
      apply elem_of_difference in Hb2 as [Hb2 Hb3].
      destruct (decide (b = nb)) as [->|Hbn]; [by left|right].
      assert (Hbo : b ∈ owned F).
      { apply NL. apply elem_of_filter. rewrite lookup_insert_ne in Hb1 by done. split; [done|set_solver]. }
      rewrite HownF in Hbo. apply elem_of_cons in Hbo as [->|Hbo]; [|done]. set_solver. }
    split; [|split].
    - split.
      + cbn. apply elem_of_difference. split; [set_solver|]. intros Heq%elem_of_singleton. unfold nb in Heq. lia.
      + exists s. cbn. rewrite lookup_delete_ne by (unfold nb; lia). rewrite lookup_insert. split; [done|].
        unfold s. rewrite existsb_app. cbn. by rewrite orb_true_r.
    - unfold str_at at 1. cbn. rewrite lookup_delete_ne by (unfold nb; lia). rewrite lookup_insert.
      unfold s. apply cstr_app_zero, str_at_nonzero.
    - cbn. set_solver.
  Qed.
End SetValuestring.

(** with an allocator that never refuses, the reallocating branch succeeds *)
Lemma cJSON_SetValuestring_realloc_total h F x d cs vb sb :
  WF h F -> live_below h -> find_tree x F = Some (T x d cs) ->
  has_flag (rd_type d) c_cJSON_String = true -> is_ref d = false -> rd_vstr d = Some vb ->
  Readable h sb -> Readable h vb -> length (str_at h vb) < length (str_at h sb) ->
  let nb := h_next h in
  let F' := set_data x (rd_set_vstr d (Some nb)) F in
  let h' := svs_realloc_heap h x vb (mk_dat (rd_set_vstr d (Some nb)) (tid <$> cs)) (str_at h sb ++ [0%Z]) in
  cJSON_SetValuestring never (Some x) (Some sb) h = Ret (Some nb, h') /\ WF h' F' /\
  str_at h' nb = str_at h sb /\ vb ∉ h_live h'.
Proof.
  intros W LB Hx Hs Hr Hv HRs HRv Hlen.
  destruct (cJSON_SetValuestring_realloc never h F x d cs vb sb W LB Hx Hs Hr Hv HRs HRv Hlen)
    as [(_ & _ & H1 & H2 & _ & _ & _ & H3 & H4)|(_ & _ & _ & H)]; [done|].
  by apply refused_false in H.
Qed.

(** * value queries: pure reads (stated on the flat view: [(x, d, ks) ∈ flat F]) *)
Lemma flat_live_dat h F x d (ks : list positive) :
  WF h F -> (x, d, ks) ∈ flat F -> x ∈ h_live h /\ h_dat h !! x = Some (mk_dat d ks).
Proof.
  intros W Hn. split; [|by eapply WF_lookup_dat].
  apply (WF_ids_live _ _ _ W). rewrite ids_flat. apply elem_of_list_fmap. by exists (x, d, ks).
Qed.

Lemma cJSON_IsString_sim h F x d (ks : list positive) :
  WF h F -> (x, d, ks) ∈ flat F ->
  cJSON_IsString (Some x) h = Ret ((Z.land (rd_type d) 255 =? c_cJSON_String)%Z, h).
Proof.
  intros W Hx. destruct (flat_live_dat _ _ _ _ _ W Hx) as [Hl Hd].
  unfold cJSON_IsString, type_is. cbn [is_null]. by rewrite (bindM_Ret _ _ _ _ _ (run_get_type_plain _ _ _ Hl Hd)).
Qed.
Lemma cJSON_IsNumber_sim h F x d (ks : list positive) :
  WF h F -> (x, d, ks) ∈ flat F ->
  cJSON_IsNumber (Some x) h = Ret ((Z.land (rd_type d) 255 =? c_cJSON_Number)%Z, h).
Proof.
  intros W Hx. destruct (flat_live_dat _ _ _ _ _ W Hx) as [Hl Hd].
  unfold cJSON_IsNumber, type_is. cbn [is_null]. by rewrite (bindM_Ret _ _ _ _ _ (run_get_type_plain _ _ _ Hl Hd)).
Qed.
Lemma cJSON_IsString_null h : cJSON_IsString None h = Ret (false, h).
Proof. reflexivity. Qed.
Lemma cJSON_IsNumber_null h : cJSON_IsNumber None h = Ret (false, h).
Proof. reflexivity. Qed.

Lemma cJSON_GetStringValue_sim h F x d (ks : list positive) :
  WF h F -> (x, d, ks) ∈ flat F ->
  cJSON_GetStringValue (Some x) h =
  Ret (if (Z.land (rd_type d) 255 =? c_cJSON_String)%Z then rd_vstr d else None, h).
Proof.
  intros W Hx. destruct (flat_live_dat _ _ _ _ _ W Hx) as [Hl Hd].
  unfold cJSON_GetStringValue. rewrite (bindM_Ret _ _ _ _ _ (cJSON_IsString_sim _ _ _ _ _ W Hx)).
  destruct (Z.land (rd_type d) 255 =? c_cJSON_String)%Z; [|done]. cbn [negb].
  by rewrite (run_get_vstr_plain _ _ _ Hl Hd).
Qed.
Lemma cJSON_GetStringValue_null h : cJSON_GetStringValue None h = Ret (None, h).
Proof. reflexivity. Qed.

Lemma cJSON_GetNumberValue_sim h F x d (ks : list positive) :
  WF h F -> (x, d, ks) ∈ flat F ->
  cJSON_GetNumberValue (Some x) h =
  Ret (if (Z.land (rd_type d) 255 =? c_cJSON_Number)%Z then rd_vdbl d else S754_nan, h).
Proof.
  intros W Hx. destruct (flat_live_dat _ _ _ _ _ W Hx) as [Hl Hd].
  unfold cJSON_GetNumberValue. rewrite (bindM_Ret _ _ _ _ _ (cJSON_IsNumber_sim _ _ _ _ _ W Hx)).
  destruct (Z.land (rd_type d) 255 =? c_cJSON_Number)%Z; [|done]. cbn [negb].
  unfold get_vdbl. by rewrite (bindM_Ret _ _ _ _ _ (run_ld_dat_plain _ _ _ Hl Hd)).
Qed.
Lemma cJSON_GetNumberValue_null h : cJSON_GetNumberValue None h = Ret (S754_nan, h).
Proof. reflexivity. Qed.

(** the node is found with its new data after a [set_data] *)
Lemma flat_after_set_data F x d cs d' :
  NoDup (ids F) -> find_tree x F = Some (T x d cs) -> (x, d', tid <$> cs) ∈ flat (set_data x d' F).
Proof.
  intros ND Hx. apply find_tree_Some in Hx as [Hx _].
  destruct (flat_set_data F x d cs ND Hx) as (FL & _ & E2). rewrite (E2 d'). by left.
Qed.

(** what was set is what is read back *)
Lemma get_after_set_number h F x d cs (n : dbl) :
  WF h F -> find_tree x F = Some (T x d cs) -> (Z.land (rd_type d) 255 =? c_cJSON_Number)%Z = true ->
  exists h', cJSON_SetNumberValue (Some x) n h = Ret (n, h') /\ cJSON_GetNumberValue (Some x) h' = Ret (n, h').
Proof.
  intros W Hx Ht. destruct (cJSON_SetNumberValue_sim h F x d cs n W Hx) as (_ & Hrun & W' & _).
  eexists. split; [exact Hrun|].
  rewrite (cJSON_GetNumberValue_sim _ _ _ _ _ W' (flat_after_set_data _ _ _ _ _ (wf_nodup _ _ W) Hx)).
  cbn [rd_type rd_set_number rd_vdbl]. by rewrite Ht.
Qed.
