(** Properties_C01.v — property C01: parsing arbitrary bytes is memory-safe, bounded and
    terminates.  Only statements closed by [exact]. *)
From CJ Require Import Base Dbl Tree ParseDefs LibcNum ParseSafe.
Local Open Scope Z_scope.

(** For every memory content, every declared length inside it, both termination modes and
    every allocation-failure schedule: the parser reads only indices < len (a read at an index
    >= len would be the outcome OOB), never writes beyond the block it allocates for a string
    (also OOB), and terminates (OutOfFuel) — the result is [Ok].  It returns NULL with nothing
    left allocated, or a tree whose blocks are exactly what remains allocated. *)
Theorem C01_length_variants_safe : forall strtod oracle content len rnt,
  strtod_ok strtod -> (len <= length content)%nat ->
  exists r, cJSON_ParseWithLengthOpts strtod oracle content len rnt = Ok r
         /\ (pr_tree r = None -> pr_live r = 0)
         /\ (forall t, pr_tree r = Some t -> pr_live r = blocks t).
Proof. exact parse_length_safe. Qed.
Print Assumptions C01_length_variants_safe.

(** The string variants read up to and including the terminating zero and nothing beyond:
    whatever follows the first zero byte is never read (it lies at indices >= len). *)
Theorem C01_string_variants_safe : forall strtod oracle s rest rnt,
  strtod_ok strtod -> Forall (fun c => c <> 0) s ->
  exists r, cJSON_ParseWithOpts strtod oracle (s ++ 0 :: rest) rnt = Ok r
         /\ cJSON_ParseWithOpts strtod oracle (s ++ 0 :: rest) rnt
            = cJSON_ParseWithLengthOpts strtod oracle (s ++ 0 :: rest) (length s + 1) rnt
         /\ (pr_tree r = None -> pr_live r = 0)
         /\ (forall t, pr_tree r = Some t -> pr_live r = blocks t).
Proof. exact parse_string_safe. Qed.
Print Assumptions C01_string_variants_safe.

(** nesting: the depth counter never exceeds CJSON_NESTING_LIMIT, so the recursion of the C
    code (one parse_value frame per level) is bounded by the limit whatever the input *)
Theorem C01_depth_bounded : forall strtod oracle content len fuel s r s',
  strtod_ok strtod -> (len <= length content)%nat -> 0 <= dep s <= c_CJSON_NESTING_LIMIT ->
  parse_value strtod oracle content len fuel s = Ok (r, s') -> 0 <= dep s' <= c_CJSON_NESTING_LIMIT + 1.
Proof. exact parse_depth_bounded. Qed.
Print Assumptions C01_depth_bounded.

(** the reference strtod used by the executable model satisfies the contract *)
Theorem C01_strtod_ref_ok : strtod_ok strtod_ref.
Proof. exact strtod_ref_ok. Qed.
Print Assumptions C01_strtod_ref_ok.

(** non-vacuity: the hypotheses are satisfiable and the success branch is reached — "[1]" followed
    by a byte outside the declared length parses to a two-block tree, both blocks live, end = 3 *)
Theorem C01_nonvacuous :
  strtod_ok strtod_ref /\ (3 <= length [91; 49; 93; 255])%nat /\
  exists r t, cJSON_ParseWithLengthOpts strtod_ref never_fails [91; 49; 93; 255] 3 false = Ok r
           /\ pr_tree r = Some t /\ pr_live r = 2 /\ blocks t = 2 /\ pr_end r = Some 3%nat.
Proof. exact parse_safe_example. Qed.
Print Assumptions C01_nonvacuous.
