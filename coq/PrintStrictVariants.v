(** PrintStrictVariants.v — C05, part 4: all print entry points return the same strict JSON text.

    Combines the printer's buffer-level refinement theorems (PrintProofs.v: [print_spec],
    [print_buffered_spec], [C09_no_overflow_proof], [C09_threshold_proof], [C09_content_proof],
    [render_nz]) with [PrintStrict.render_total]: for a printable tree whose scalar fields are C
    values, when no allocation fails, cJSON_Print / cJSON_PrintUnformatted ([print]),
    cJSON_PrintBuffered for every prebuffer >= 0, and cJSON_PrintPreallocated for every caller
    buffer that is large enough, under both allocator configurations (with / without realloc) and
    for arbitrary contents of fresh memory and of the caller's buffer, all deliver one and the
    same zero-free text [txt = render fmt 0 t] followed by its terminator — and (by
    [PrintStrict.render_rfc_text]) that text is an RFC 8259 JSON text. *)
From CJ Require Import Base Dbl Tree Grammar PrintDefs PrintLemmas PrintProofs PrintStrict PrintStrictWs.
Local Open Scope Z_scope.

Section Variants.
  Variable fmt_d : Z -> bytes.
  Variable fmt_g15 fmt_g17 : dbl -> bytes.
  Variable sscanf_lg : bytes -> option dbl.
  Hypothesis L : LibcStrictSpec fmt_d fmt_g15 fmt_g17.
  Variable oracle : nat -> bool.
  Variable junk : nat -> Z.

  Notation render := (render fmt_d fmt_g15 fmt_g17 sscanf_lg).
  Notation print := (print fmt_d fmt_g15 fmt_g17 sscanf_lg oracle junk).
  Notation cJSON_PrintBuffered := (cJSON_PrintBuffered fmt_d fmt_g15 fmt_g17 sscanf_lg oracle junk).
  Notation cJSON_PrintPreallocated := (cJSON_PrintPreallocated fmt_d fmt_g15 fmt_g17 sscanf_lg oracle junk).

  Let LP : LibcPrintSpec fmt_d fmt_g15 fmt_g17 := strict_spec_print_spec _ _ _ L.

  Theorem variants_agree (t : node) (fmt : bool) :
    printable t = true -> fields_ok t = true -> (forall i, oracle i = false) ->
    exists txt,
      render fmt 0 t = Some txt /\ nz txt /\
      (zlen txt + 2 <= c_INT_MAX ->
         (forall hr, exists r, print t fmt hr = Ok r /\ prr_block r = Some (txt ++ [0])) /\
         (forall hr prebuffer, 0 <= prebuffer ->
            exists r rest, cJSON_PrintBuffered t prebuffer fmt hr = Ok r /\ prr_block r = Some (txt ++ 0 :: rest))) /\
      (forall hr buf, zlen txt + 2 <= zlen buf -> zlen buf <= c_INT_MAX ->
         exists r rest, cJSON_PrintPreallocated t (Some buf) (zlen buf) fmt hr = Ok r /\
                        par_flag r = true /\ par_buffer r = Some (txt ++ 0 :: rest)).
  Proof.
    intros Hp Hf Hno.
    destruct (render_total fmt_d fmt_g15 fmt_g17 sscanf_lg L t fmt 0 Hp) as [txt R].
    exists txt. split; [exact R|]. split; [exact (render_nz _ _ _ _ LP t Hf fmt 0 txt R)|]. split.
    - intro Hsz. split.
      + intro hr. destruct (print_spec _ _ _ sscanf_lg LP oracle junk t fmt hr Hf) as [r [E [_ S]]].
        exists r. split; [exact E|]. exact (S Hno txt R Hsz).
      + intros hr pre Hpre.
        destruct (print_buffered_spec _ _ _ sscanf_lg LP oracle junk t pre fmt hr Hf Hpre) as [r [E [_ S]]].
        destruct (S Hno txt R Hsz) as [rest B]. exists r, rest. split; [exact E|exact B].
    - intros hr buf Hfit Hmax.
      destruct (C09_no_overflow_proof _ _ _ sscanf_lg LP oracle junk t buf fmt hr Hf) as [r E].
      pose proof (C09_threshold_proof _ _ _ sscanf_lg LP oracle junk t buf fmt hr r Hf Hmax E) as [_ T].
      assert (Hflag : par_flag r = true) by (apply T; exists txt; split; assumption).
      destruct (C09_content_proof _ _ _ sscanf_lg LP oracle junk t buf fmt hr r Hf E Hflag) as [txt' [rest [R' [B _]]]].
      rewrite R in R'. injection R' as <-.
      exists r, rest. repeat split; assumption.
  Qed.

  (** read back as a C string (strlen on the returned block), every variant's block is the text *)
  Lemma block_reads_text txt rest : nz txt -> cstr_checked (txt ++ 0 :: rest) = Ok txt.
  Proof. exact (cstr_checked_app txt rest). Qed.
End Variants.
