(** Properties_C16.v — property C16: JSON Patch application follows RFC 6902 and survives any
    patch document.  Only statements closed by [exact]; the model is PatchDefs.v (a value-level
    transliteration of apply_patch and its helpers in cJSON_Utils.c, status codes included), the
    specification is Rfc6902.v (eval1 / eval / doc_eq, written from the RFC). *)
From CJ Require Import Base Dbl Tree PointerDefs CompareDefs PatchDefs Rfc6902
  PatchProofs PatchRobust PatchConform PatchOps PatchApply PatchSort PatchTest PatchMove PatchSeq PatchEq.
Local Open Scope Z_scope.

(** ---- robustness ---- *)

(** Termination, unconditionally: for EVERY document, EVERY tree passed as patch (any types, missing
    members, odd pointers) and both case modes, the recursion bounds the entry point supplies are
    enough: decode_pointer_inplace gets |buffer|+1, sort_list gets |members|+1, compare_json gets the
    depth of the document operand. *)
Theorem C16_total : forall doc patches cs, apply_patches doc patches cs <> OutOfFuel.
Proof. exact apply_patches_total. Qed.
Print Assumptions C16_total.

(** A status is returned — no out-of-bounds access, no NULL string dereferenced — whenever every
    String-typed node carries its string (what any parser produces; [strs_ok]); the document and the
    patch afterwards are again such trees; a patch that is not an array gives status 1 and leaves
    the document alone. *)
Theorem C16_robust : forall doc patches cs, strs_ok doc -> strs_ok patches ->
  exists st doc' patches', apply_patches doc patches cs = Ok (st, doc', patches') /\ strs_ok doc' /\ strs_ok patches' /\
                           (is_array patches = false -> st = 1 /\ doc' = doc).
Proof. exact apply_patches_returns. Qed.
Print Assumptions C16_robust.

(** The loop stops at the first failing operation and reports its status; the document keeps the
    effects of the operations before it. *)
Theorem C16_first_failure : forall doc patches cs st doc' patches',
  apply_patches doc patches cs = Ok (st, doc', patches') ->
  (is_array patches = false /\ st = 1 /\ doc' = doc) \/
  (is_array patches = true /\ run cs doc (n_children patches) st doc').
Proof. exact apply_patches_run. Qed.
Print Assumptions C16_first_failure.

(** ---- decode_pointer_inplace ---- *)

(** On every C string (token bytes followed by the terminator) all reads and writes stay inside the
    buffer, the loop terminates, the buffer keeps its size. *)
Theorem C16_decode_safe : forall t, exists b, decode_pointer_inplace (t ++ [0]) = Ok b /\ length b = length (t ++ [0]).
Proof. exact decode_pointer_inplace_safe. Qed.
Print Assumptions C16_decode_safe.

(** For a token that is valid RFC 6901 text the C string left in the buffer is the unescaped token. *)
Theorem C16_decode_unescape : forall t u, Forall (fun c => c <> 0) t -> unescape t = Some u ->
  exists b, decode_pointer_inplace (t ++ [0]) = Ok b /\ cstr b = u /\ length b = length (t ++ [0]).
Proof. exact decode_pointer_inplace_unescape. Qed.
Print Assumptions C16_decode_unescape.

(** ---- conformance ---- *)

(** One operation, all six kinds.  For every well-formed document ([dwf]: JSON types, C strings, no
    NaN, members named with pairwise distinct names, arrays below 2^64 elements), nested no deeper
    than CJSON_CIRCULAR_LIMIT ([shallow]), and every operation object [p] (members named, strings C
    strings) that RFC 6902 reads as the operation [o] ([op_of p = Some o]: "op" one of the six
    names, "path"/"from" syntactically valid JSON pointers, "value" present where required) — removal
    of the whole document excepted — case-sensitive apply_patch returns 0 exactly when RFC 6902
    evaluation succeeds, and then the document equals the RFC's result (arrays in order, objects as
    name/value sets); otherwise it returns a non-zero status. *)
Theorem C16_conform_op : forall doc p o,
  dwf doc -> shallow doc -> op_wf p -> op_of p = Some o -> op_values_ok o -> o <> Remove [] ->
  exists st doc' p', apply_patch doc p true = Ok (st, doc', p') /\
    match eval1 doc o with
    | Some d' => st = 0 /\ doc_eq doc' d'
    | None => st <> 0
    end.
Proof. exact apply_patch_conform. Qed.
Print Assumptions C16_conform_op.

(** The same through the entry point, for a patch array holding one operation.
    The full statement of DESIGN C16_conform — arbitrary arrays [p1; ...; pn] against [eval doc [o1; ...; on]] —
    is NOT proved: by C16_first_failure it is the n-fold composition of C16_conform_op along the
    model's own intermediate documents, which are [doc_eq] (not identical: member order) to the RFC's
    intermediate documents.  Closing it needs (i) a TRANSITIVE equivalence of documents to carry along the
    sequence — [doc_eq] itself is not transitive, because the library's number equality compare_double is a
    tolerance —, i.e. the per-operation theorems re-proved for "equal up to member order, numbers identical";
    (ii) that [eval1] respects that equivalence in its document argument; (iii) [dwf] and the size / depth
    bounds for every intermediate document.  None of the three is proved here.
      Theorem C16_conform : forall doc patches ops, dwf doc -> ... -> ops_of patches = Some ops ->
        exists st doc' patches', cJSONUtils_ApplyPatchesCaseSensitive doc patches = Ok (st, doc', patches') /\
          match eval doc ops with Some d' => st = 0 /\ doc_eq doc' d' | None => st <> 0 end. *)
Theorem C16_conform_partial : forall doc patches p o,
  dwf doc -> shallow doc -> is_array patches = true -> n_children patches = [p] ->
  op_wf p -> op_of p = Some o -> op_values_ok o -> o <> Remove [] ->
  ops_of patches = Some [o] /\
  exists st doc' patches', cJSONUtils_ApplyPatchesCaseSensitive doc patches = Ok (st, doc', patches') /\
    match eval doc [o] with
    | Some d' => st = 0 /\ doc_eq doc' d'
    | None => st <> 0
    end.
Proof. exact apply_patches_single. Qed.
Print Assumptions C16_conform_partial.

(** The [test] operation in more detail: compare_json (which sorts the objects it meets, in place)
    computes the document equality of the specification, and the document it leaves is equal to the
    one it was given. *)
Theorem C16_test_decides : forall fuel a b, (node_depth a <= fuel)%nat -> dwf a -> dwf b ->
  exists a' b', compare_json fuel a b true = Ok (doc_eqb a b, a', b') /\ doc_eq a' a /\ n_key a' = n_key a.
Proof. exact compare_json_spec. Qed.
Print Assumptions C16_test_decides.

(** The executable equality used by the specification's [test] (and computed by compare_json) is the
    declarative equality of documents. *)
Theorem C16_doc_eq_decided : forall a b, dwf a -> dwf b -> (doc_eqb a b = true <-> doc_eq a b).
Proof. exact doc_eqb_iff. Qed.
Print Assumptions C16_doc_eq_decided.

(** The byte-level "own child" test of the move operation is the RFC's condition on reference tokens. *)
Theorem C16_move_own_child : forall fstr pstr ftoks toks,
  rfc_parse_pointer fstr = Some ftoks -> rfc_parse_pointer pstr = Some toks ->
  (bytes_eqb (firstn (length fstr) pstr) fstr && (hd 0 (skipn (length fstr) pstr) =? 47)) = proper_prefix ftoks toks.
Proof. exact own_child_check. Qed.
Print Assumptions C16_move_own_child.

(** ---- non-vacuity ----
    {"b":1,"a/b":[10,11,{"~":5}]} with  add "/a~1b/1" {"q":[true]},  test "" (same value, members in the
    other order),  move "/a~1b/2/~0" -> "/c":  all hypotheses hold, the RFC evaluation succeeds, the model
    returns 0; the add changes the document; the test leaves an equal but re-ordered document. *)
Theorem C16_nonvacuous :
  dwf x_doc /\ shallow x_doc /\
  op_wf x_op_add /\ op_wf x_op_test /\ op_wf x_op_move /\
  (exists o, op_of x_op_add = Some o /\ op_values_ok o /\ o <> Remove [] /\ exists d, eval1 x_doc o = Some d) /\
  (exists o, op_of x_op_test = Some o /\ op_values_ok o /\ o <> Remove [] /\ eval1 x_doc o = Some x_doc) /\
  (exists o, op_of x_op_move = Some o /\ op_values_ok o /\ o <> Remove [] /\ exists d, eval1 x_doc o = Some d) /\
  (exists d p, cJSONUtils_ApplyPatchesCaseSensitive x_doc (x_patches x_op_add) = Ok (0, d, p) /\ d <> x_doc) /\
  (exists d p, cJSONUtils_ApplyPatchesCaseSensitive x_doc (x_patches x_op_test) = Ok (0, d, p) /\ d <> x_doc /\ doc_eq d x_doc).
Proof. exact examples_ok. Qed.
Print Assumptions C16_nonvacuous.
